#!/usr/bin/env python3
"""sweep_seeds.py [props...] [--only Cxx] [--only-suffix mK] [--merge]: run the given checks (default: every claimed property) against every seeded
change under /verif/seeded, each applied to a scratch copy of /repo. Prints a kill matrix and writes seeded/RESULTS.json."""
import json, os, sys, concurrent.futures as cf
sys.path.insert(0, os.path.dirname(os.path.abspath(__file__)))
from try_patch import run
VERIF = os.path.dirname(os.path.dirname(os.path.abspath(__file__)))

def main():
    args = sys.argv[1:]
    only = None
    merge = '--merge' in args          # keep the results of seeds not selected by --only (suffix match with --only-suffix)
    args = [a for a in args if a != '--merge']
    suffix = None
    if '--only-suffix' in args:
        i = args.index('--only-suffix'); suffix = args[i+1]; del args[i:i+2]
    if '--only' in args:
        i = args.index('--only'); only = args[i+1]; del args[i:i+2]
    man = json.load(open(os.path.join(VERIF, 'MANIFEST.json')))
    claimed = [c['property_id'] for c in man['checks']]
    props = args or claimed
    seeds = sorted(d for d in os.listdir(os.path.join(VERIF, 'seeded')) if os.path.isdir(os.path.join(VERIF, 'seeded', d)))
    if only:
        seeds = [s for s in seeds if s.startswith(only)]
    if suffix:
        seeds = [s for s in seeds if s.endswith('-' + suffix)]
    results = {}
    if merge:
        results = json.load(open(os.path.join(VERIF, 'seeded', 'RESULTS.json')))
    def one(s):
        return s, run(os.path.join(VERIF, 'seeded', s, 'patch.diff'), props)
    with cf.ThreadPoolExecutor(max_workers=int(os.environ.get('SWEEP_WORKERS', '8'))) as ex:
        for s, res in ex.map(one, seeds):
            results[s] = res
            target = s.split('-')[0]
            if 'error' in res:
                print(s, 'ERROR', res['error']); continue
            fired = [p for p, r in res.items() if r['rc'] == 1]
            other = [p for p, r in res.items() if r['rc'] not in (0, 1)]
            own = 'KILLED' if target in fired else ('n/a' if target not in props else 'MISSED')
            print('%-8s own=%-7s fired=%s %s' % (s, own, ','.join(fired), ('ERR=' + ','.join(other)) if other else ''))
    json.dump(results, open(os.path.join(VERIF, 'seeded', 'RESULTS.json'), 'w'), indent=1)

if __name__ == '__main__':
    main()
