#!/bin/bash
# confirm_seed3.sh <worktree> <Cxx> <K...> : for each change K of /tmp/seed_out/<Cxx>: the demo passes on pristine HEAD, the patch
# applies, the full suite passes with the patch, the demo fails with the patch. Appends to /tmp/seed_out/<Cxx>/confirm.txt
wt=$1; id=$2; shift 2
out=/tmp/seed_out/$id
export CARGO_NET_OFFLINE=true
cd $wt || exit 1
for k in "$@"; do
  [ -f $out/m$k.diff ] || { echo "m$k missing" >> $out/confirm.txt; continue; }
  git checkout -q -- . ; git clean -fdq -e target
  mkdir -p tests && cp $out/m${k}_demo.rs tests/m${k}_demo.rs
  cargo test --offline --test m${k}_demo >$out/m$k.head.log 2>&1; head_rc=$?
  git apply $out/m$k.diff; apply_rc=$?
  mv tests/m${k}_demo.rs /tmp/seed_out/$id/.demo_tmp_$k.rs
  cargo test --offline --workspace --no-fail-fast >$out/m$k.suite.log 2>&1; suite_rc=$?
  passed=$(grep -E "^test result" $out/m$k.suite.log | head -1)
  mv /tmp/seed_out/$id/.demo_tmp_$k.rs tests/m${k}_demo.rs
  cargo test --offline --test m${k}_demo >$out/m$k.mut.log 2>&1; mut_rc=$?
  echo "m$k head_demo_rc=$head_rc apply_rc=$apply_rc suite_rc=$suite_rc mutant_demo_rc=$mut_rc | $passed" >> $out/confirm.txt
  git checkout -q -- . ; git clean -fdq -e target
done
