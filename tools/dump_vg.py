#!/usr/bin/env python3
import sys, os
sys.path.insert(0, os.path.dirname(os.path.dirname(os.path.abspath(__file__))))
from sfa.extract import extract
from sfa.vg import *
F, info = extract(sys.argv[2] if len(sys.argv) > 2 and not sys.argv[2].startswith('-') else '/repo')
names = sys.argv[1].split(',') if len(sys.argv) > 1 and sys.argv[1] != 'all' else None
for v in F.views:
    if names and v.name not in names: continue
    print('=' * 20, v.name)
    for fn in v.ctors + [v.update, v.last]:
        vg, exits = analyse_fn(F, v, fn)
        print('--', fn.name, 'exits', len(exits), 'unknowns', vg.unknowns)
        for ex in exits:
            print('  EXIT', ex.kind, 'pc=', [tstr(c) for c in ex.pc])
            if fn.name not in ('update',):
                print('     ret =', tstr(ex.ret)[:600])
            for k, t in sorted(ex.fields.items()):
                if t != ('in', k):
                    print('     %s := %s' % (k, tstr(t)[:700]))
        if '-e' in sys.argv:
            for ev in vg.events:
                print('   EV', ev.kind, [tstr(x) if isinstance(x, tuple) else x for x in (ev.data if isinstance(ev.data, tuple) else (ev.data,))][:3], 'pc=', [tstr(c) for c in ev.pc][-3:])
