#!/usr/bin/env python3
"""import_seed4.py <outdir> <suffix> <confirm-lines-file>: copy confirmed round-4 seeds into seeded/Cxx-<suffix>/."""
import json, os, shutil, sys
out, suffix, conf = sys.argv[1:4]
lines = {l.split()[0]: l.strip() for l in open(conf) if l.startswith('C')}
for d in sorted(os.listdir(out)):
    p = os.path.join(out, d)
    if not (os.path.isdir(p) and d.startswith('C')):
        continue
    raw = lines.get(d, '')
    ok = 'head_demo_rc=0 apply_rc=0 suite_rc=0' in raw and 'mutant_demo_rc=0' not in raw and '43 passed' in raw
    if not ok:
        print('NOT CONFIRMED', d, raw)
        continue
    dst = '/verif/seeded/%s-%s' % (d, suffix)
    os.makedirs(dst, exist_ok=True)
    shutil.copy(os.path.join(p, 'patch.diff'), dst)
    shutil.copy(os.path.join(p, 'demo.rs'), dst)
    rep = json.load(open(os.path.join(p, 'meta.json')))
    meta = {'breaks_property': d, 'round': int(sys.argv[4]) if len(sys.argv) > 4 else 4,
            'source': 'fresh sub-agent given only the property texts of its group and a scratch worktree (nothing from /verif)',
            'agent_report': rep,
            'confirmed_by_me': {'where': "the agent's scratch worktree of /repo HEAD, reset before and after (removed afterwards)",
                                'ran': ['cargo run --offline --example seed_demo on pristine HEAD: exit 0', 'git apply patch.diff: rc 0',
                                        'cargo test --offline --workspace --no-fail-fast with the patch: 43 passed',
                                        'cargo run --offline --example seed_demo with the patch: non-zero exit'], 'raw': raw}}
    json.dump(meta, open(os.path.join(dst, 'meta.json'), 'w'), indent=1)
    print('imported', dst)
