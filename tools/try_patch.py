#!/usr/bin/env python3
"""try_patch.py <patch.diff> [props...]: run checks against a scratch copy of /repo with the patch applied.

The scratch copy lives under /tmp and is removed afterwards; /repo is never touched; evidence of these
runs goes to a scratch directory, not /verif/evidence. Prints, per property, FIRED (exit 1) or silent.
"""
import os, shutil, subprocess, sys, tempfile, json

VERIF = os.path.dirname(os.path.dirname(os.path.abspath(__file__)))


def run(patch, props, verbose=False):
    d = tempfile.mkdtemp(prefix='sfa_mut_')
    ev = tempfile.mkdtemp(prefix='sfa_ev_')
    try:
        src = os.path.join(d, 'repo')
        subprocess.run(['rsync', '-a', '--exclude', 'target', '--exclude', '.git', '--exclude', 'img', '/repo/', src + '/'], check=True)
        if patch:
            r = subprocess.run(['git', 'apply', '--whitespace=nowarn', os.path.abspath(patch)], cwd=src, capture_output=True, text=True)
            if r.returncode != 0:
                return {'error': 'patch does not apply: ' + r.stderr[:500]}
        res = {}
        tgt = os.path.join(d, 'target')
        if os.path.isdir(os.path.join(VERIF, '.cache', 'target')):
            subprocess.run(['cp', '-r', os.path.join(VERIF, '.cache', 'target'), tgt], check=False, stderr=subprocess.DEVNULL)   # a concurrent check may be deleting member fingerprints: harmless
        for p in props:
            env = dict(os.environ, SFA_EVIDENCE_DIR=ev, SFA_TARGET_DIR=tgt)
            r = subprocess.run([os.path.join(VERIF, 'check'), p, '--src', src], capture_output=True, text=True, env=env)
            viol = [l for l in r.stdout.splitlines() if l.startswith('  ' + p + ':')]
            res[p] = {'rc': r.returncode, 'violations': [v.strip()[:300] for v in viol]}
            if verbose:
                print(r.stdout)
        return res
    finally:
        shutil.rmtree(d, ignore_errors=True)
        shutil.rmtree(ev, ignore_errors=True)


if __name__ == '__main__':
    args = sys.argv[1:]
    verbose = '-v' in args
    args = [a for a in args if a != '-v']
    patch = args[0] if args[0] != 'none' else None
    props = args[1:]
    res = run(patch, props, verbose)
    for p, r in res.items() if 'error' not in res else []:
        print(p, 'FIRED' if r['rc'] == 1 else ('silent' if r['rc'] == 0 else 'rc=%d' % r['rc']))
        for v in r['violations'][:6]:
            print('   ', v)
    if 'error' in res:
        print(res['error'])
