use sliding_features::{pure_functions::Echo, sliding_windows::*, View};

fn xs(seed: u64, n: usize) -> Vec<f64> {
    let mut s = seed.wrapping_mul(0x9E3779B97F4A7C15) | 1;
    (0..n)
        .map(|_| {
            s ^= s >> 12;
            s ^= s << 25;
            s ^= s >> 27;
            let r = s.wrapping_mul(0x2545F4914F6CDD1D);
            ((r >> 11) as f64 / (1u64 << 53) as f64) * 20.0 - 10.0
        })
        .collect()
}

fn run<V: View<f64>>(name: &str, n: usize, mut v: V, data: &[f64]) {
    for (k, x) in data.iter().enumerate() {
        v.update(*x);
        match v.last() {
            Some(o) => println!("{} {} {} {:e}", name, n, k, o),
            None => println!("{} {} {} None", name, n, k),
        }
    }
}

fn main() {
    let data = xs(7, 24);
    println!("DATA {}", data.iter().map(|x| format!("{:e}", x)).collect::<Vec<_>>().join(" "));
    for n in 1..=7usize {
        run("Sma", n, Sma::new(Echo::new(), n), &data);
        run("Ema", n, Ema::new(Echo::new(), n), &data);
        run("Alma", n, Alma::new(Echo::new(), n), &data);
        run("Cumulative", n, Cumulative::new(Echo::new(), n), &data);
        run("SuperSmoother", n, SuperSmoother::new(Echo::new(), n), &data);
        if n > 2 {
            run("CyberCycle", n, CyberCycle::new(Echo::new(), n), &data);
        }
        if n > 1 {
            run("RoofingFilter", n, RoofingFilter::new(Echo::new(), n, 3), &data);
        }
    }
    for (i, g) in [0.0, 0.3, 0.8].iter().enumerate() {
        run("LaguerreFilter", i, LaguerreFilter::new(Echo::new(), *g), &data);
    }
}
