#!/bin/bash
# mkscratch.sh <patch.diff> <dir>: scratch copy of /repo with the patch applied (for dev-time inspection; remove afterwards)
rm -rf "$2"; mkdir -p "$2"
rsync -a --exclude target --exclude .git --exclude img /repo/ "$2/"
cd "$2" && git apply --whitespace=nowarn "$(realpath "$1" 2>/dev/null || echo "$1")"
