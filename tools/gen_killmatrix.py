#!/usr/bin/env python3
"""Regenerate the §8 table of DESIGN.md from seeded/RESULTS.json and seeded/*/meta.json."""
import json, os, re
VERIF = os.path.dirname(os.path.dirname(os.path.abspath(__file__)))
res = json.load(open(os.path.join(VERIF, 'seeded', 'RESULTS.json')))
rows = []
own_killed = 0
for name in sorted(res):
    r = res[name]
    if 'error' in r:
        continue
    own = name.split('-')[0]
    fired = sorted(p for p, x in r.items() if x['rc'] == 1)
    meta = json.load(open(os.path.join(VERIF, 'seeded', name, 'meta.json')))
    ar = meta.get('agent_report', {})
    summ = str(ar.get('summary', ''))
    summ = re.sub(r'\s+', ' ', summ)[:110].replace('|', '/')
    files = ar.get('files', [])
    f0 = os.path.basename(files[0]) if isinstance(files, list) and files else ''
    ok = own in fired
    own_killed += ok
    rows.append('| %s | %s: %s | %s | %s |' % (name, f0, summ, 'yes' if ok else '**no**', ' '.join(p for p in fired if p != own) or '—'))
table = '| change | what it does (agent\'s summary, truncated) | caught by own check | also fired |\n|---|---|---|---|\n' + '\n'.join(rows)
table += '\n\n%d of %d seeded changes are caught by the check of the property they were written against; %d more only by a sibling check; %d by none.\n' % (
    own_killed, len(rows), len([1 for n in res if n.split('-')[0] not in [p for p, x in res[n].items() if x['rc'] == 1] and any(x['rc'] == 1 for x in res[n].values())]),
    len([1 for n in res if not any(x['rc'] == 1 for x in res[n].values())]))
p = os.path.join(VERIF, 'DESIGN.md')
s = open(p).read()
a = s.index('<!-- KILLMATRIX-BEGIN -->') + len('<!-- KILLMATRIX-BEGIN -->')
b = s.index('<!-- KILLMATRIX-END -->')
open(p, 'w').write(s[:a] + '\n' + table + '\n' + s[b:])
print('rows', len(rows), 'own-killed', own_killed)
