#!/usr/bin/env python3
"""sweep_benign.py: every claimed check must stay SILENT on every behaviour-preserving refactoring under /verif/benign."""
import json, os, sys, concurrent.futures as cf
sys.path.insert(0, os.path.dirname(os.path.abspath(__file__)))
from try_patch import run
VERIF = os.path.dirname(os.path.dirname(os.path.abspath(__file__)))

def main():
    man = json.load(open(os.path.join(VERIF, 'MANIFEST.json')))
    args = sys.argv[1:]
    prefix = None                       # --only-prefix y : only patches y*.diff, merged into the existing RESULTS.json
    if '--only-prefix' in args:
        i = args.index('--only-prefix'); prefix = args[i+1]; del args[i:i+2]
    props = args or [c['property_id'] for c in man['checks']]
    d = os.path.join(VERIF, 'benign')
    patches = sorted(f for f in os.listdir(d) if f.endswith('.diff'))
    results = {}
    if prefix:
        patches = [f for f in patches if f.startswith(prefix)]
        results = json.load(open(os.path.join(d, 'RESULTS.json')))
    if '--list' in args:                # --list FILE: only the patches named in FILE (benign/<name>.diff), merged into RESULTS.json
        i = args.index('--list'); names = {os.path.basename(l.strip()) for l in open(args[i+1]) if l.strip()}; del args[i:i+2]
        patches = [f for f in patches if f in names]
        results = json.load(open(os.path.join(d, 'RESULTS.json')))
        props = args or [c['property_id'] for c in man['checks']]
    bad = 0
    def one(p):
        return p, run(os.path.join(d, p), props)
    with cf.ThreadPoolExecutor(max_workers=int(os.environ.get('SWEEP_WORKERS', '8'))) as ex:
        for p, res in ex.map(one, patches):
            results[p] = res
            if 'error' in res:
                print(p, 'ERROR', res['error']); bad += 1; continue
            fired = {q: r['violations'][:2] for q, r in res.items() if r['rc'] != 0}
            print('%-10s %s' % (p, 'silent' if not fired else 'FALSE ALARM: ' + json.dumps(fired)[:600]))
            bad += bool(fired)
    json.dump(results, open(os.path.join(d, 'RESULTS.json'), 'w'), indent=1)
    print('benign patches with alarms:', bad)
    return 1 if bad else 0

if __name__ == '__main__':
    sys.exit(main())
