#!/usr/bin/env python3
"""validate_vg.py <dump.txt>: development-time validation of the analyser itself (NOT a registered check, decides no property).
The linear forms that sfa/lti.py:transient derives for the 8 linear views (abstract execution of the value graph from the
initial state, one symbol per input) are evaluated at the concrete inputs of a real run of the crate (a dump produced by a
scratch example program, see DESIGN.md §9) and compared with what the crate actually printed. A mismatch is a modelling error in
the value graph / the linear-form evaluator."""
import sys, os
sys.path.insert(0, os.path.dirname(os.path.dirname(os.path.abspath(__file__))))
from sfa.extract import extract
from sfa.model import model
from sfa.lti import transient, const_form


def main():
    lines = open(sys.argv[1]).read().split('\n')
    data = [float(x) for x in lines[0].split()[1:]]
    real = {}
    for l in lines[1:]:
        if not l.strip():
            continue
        name, n, k, o = l.split()
        real.setdefault((name, int(n)), {})[int(k)] = None if o == 'None' else float(o)
    F, _ = extract('/repo')
    V = {v.name: v for v in F.views}
    bad = 0
    total = 0
    gammas = [0.0, 0.3, 0.8]
    for (name, n), outs_real in sorted(real.items()):
        m = model(F, V[name])
        mm = [x for x in m.ctor_models if x['fn'].name == 'new'][0]
        args = {}
        ints = [nm for (pid, nm, ty) in mm['fn'].param_ids() if ty == 'usize']
        flts = [nm for (pid, nm, ty) in mm['fn'].param_ids() if ty == 'T']
        if name == 'LaguerreFilter':
            args[flts[0]] = const_form(gammas[n])
        elif name == 'RoofingFilter':
            args[ints[0]], args[ints[1]] = n, 3
        else:
            args[ints[0]] = n
        outs, probs = transient(m, 'new', args, len(data))
        for k, o in enumerate(outs):
            total += 1
            r = outs_real.get(k)
            if o is None or r is None:
                if (o is None) != (r is None):
                    bad += 1
                    print('MISMATCH', name, n, k, 'presence', o, r)
                continue
            if o == 'nl':
                bad += 1
                print('MISMATCH', name, n, k, 'not linear')
                continue
            val = sum(c * data[int(a[1:])] for a, c in o.items() if a.startswith('u')) + o.get('1', 0.0)
            if abs(val - r) > 1e-9 * max(1.0, abs(r)):
                bad += 1
                print('MISMATCH', name, n, k, val, r)
    print('compared %d outputs, %d mismatches' % (total, bad))
    return 1 if bad else 0


if __name__ == '__main__':
    sys.exit(main())
