#!/usr/bin/env python3
"""sweep_adv.py: run all claimed checks against the red-team evasions under /verif/adversarial (written by agents that could read /verif)."""
import json, os, sys, glob, concurrent.futures as cf
sys.path.insert(0, os.path.dirname(os.path.abspath(__file__)))
from try_patch import run
VERIF = os.path.dirname(os.path.dirname(os.path.abspath(__file__)))

def main():
    man = json.load(open(os.path.join(VERIF, 'MANIFEST.json')))
    props = [c['property_id'] for c in man['checks']]
    patches = sorted(glob.glob(os.path.join(VERIF, 'adversarial', '*', '*.diff')) + glob.glob(os.path.join(VERIF, 'adversarial', '*', '*', '*.diff')))
    only = sys.argv[1:]
    merge = False
    if '--list' in only:                # --list FILE: only the patches named in FILE (paths relative to /verif), merged into RESULTS.json
        i = only.index('--list'); names = {l.strip() for l in open(only[i+1]) if l.strip()}; del only[i:i+2]
        patches = [p for p in patches if os.path.relpath(p, VERIF) in names]
        merge = True
    if only:
        patches = [p for p in patches if any(o in p for o in only)]
        merge = True
    def one(p):
        return p, run(p, props)
    out = json.load(open(os.path.join(VERIF, 'adversarial', 'RESULTS.json'))) if merge else {}
    with cf.ThreadPoolExecutor(max_workers=int(os.environ.get('SWEEP_WORKERS', '8'))) as ex:
        for p, res in ex.map(one, patches):
            name = os.path.relpath(p, os.path.join(VERIF, 'adversarial'))
            js = p[:-5] + '.json'
            breaks = ''
            if os.path.exists(js):
                try: breaks = json.load(open(js)).get('breaks', '')
                except Exception: pass
            if 'error' in res:
                print(name, 'ERROR', res['error']); continue
            fired = sorted(q for q, r in res.items() if r['rc'] == 1)
            own = [b for b in str(breaks).replace(',', ' ').split() if b.startswith('C')]
            if os.path.basename(p).startswith('f'):
                # behaviour-preserving patches the red team found false alarms on: must now be silent
                status = 'silent-ok' if not fired else 'FALSE-ALARM'
            else:
                status = 'KILLED' if any(o in fired for o in own) else ('sibling' if fired else 'EVADES')
            print('%-34s breaks=%-12s %-8s fired=%s' % (name, breaks, status, ','.join(fired)))
            out[name] = {'breaks': breaks, 'fired': fired}
    json.dump(out, open(os.path.join(VERIF, 'adversarial', 'RESULTS.json'), 'w'), indent=1)

if __name__ == '__main__':
    main()
