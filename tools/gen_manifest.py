#!/usr/bin/env python3
"""Regenerate MANIFEST.json from the table below (single source of truth for what is claimed)."""
import json
import os

VERIF = os.path.dirname(os.path.dirname(os.path.abspath(__file__)))

CLAIMS = {
    # id: (category, technique, level text, level_note, design_ref, engines)
    'C17': ('proof', 'static analysis: type/item allow-list walk + MIR callee-closure census + address-observation census over typed HIR (rustc_private driver)',
            'Proof by types: every local ADT field is an owned value type without interior mutability or sharing, no '
            'globals, no unsafe, every callee of every MIR body in a reviewed pure allow-list, no expression of raw-pointer type and no pointer/reference/fn -> integer cast (an address never becomes data), last(&self), every Clone '
            'derived. These structural facts imply determinism, purity of last() and clone independence for every view '
            'and chain; they hold for all inputs and histories because no input is involved.',
            'Trusted: rustc front end (types, MIR calls), the allow-lists in sfa/e1_types.py, purity of num::Float ops on f32/f64. '
            'Generic children are assumed to be views of this crate (all of which are checked).',
            'DESIGN.md §5 C17', 'E1'),
    'C01': ('proof', 'static analysis: path counting + def-use over type-checked structured IR (forwarding protocol)',
            'Proof of the forwarding protocol for each of the 38 views: every path of update() forwards the raw value to each '
            'input child exactly once before reading it, uses the raw value for nothing else, writes no state before/without the '
            'gate, leaves the None path inert; combinators report Some only when all children do; children are used only through '
            'View::update/View::last, and only from inside the View impl (constructors and other inherent methods never call them: R6); the inertness and no-raw-value clauses are decided a second time on the value graph (R3v, R2v), which sees through reference aliases and helpers. By parametricity over the opaque child type this implies the chaining statement for all '
            'pairs, triples and deeper chains, all N and all input streams (the argument is compositional).',
            'Trusted: rustc front end (resolved callees, binding ids), the recognised gate idioms (let-else / if-let / match on the child\'s last()). '
            'Bit-identity additionally needs the inner view to be deterministic (C17).',
            'DESIGN.md §5 C01', 'E2'),
    'C14': ('proof', 'static analysis: gated-SSA value graph of last∘update matched against an operator spec table',
            'Proof over the symbolic value graph of last∘update of the nine combinators: the reported term is exactly the specified '
            'operator of the children\'s current outputs, Some exactly when all children report, with no dependence on pre-update '
            'state, and the clip/constant parameter is stored exactly as passed to the constructor (S5). Terms are symbolic in every input, so the verdict covers all children, inputs and steps.',
            'Trusted: rustc front end, sfa/vg.py (value-graph construction), the spec table in sfa/e_c14.py. `>=` vs `>` in clips is not policed.',
            'DESIGN.md §5 C14', 'E2/VG'),
    'C18': ('proof', 'static analysis: Houdini-inferred inductive length invariants over the value graph + linear-integer entailment (N symbolic)',
            'Proof of bounded memory: for each of the 34 growable buffers (including those of inlined inner views) the largest '
            'inductive subset of a candidate family of length invariants (true after every constructor, preserved by every exit '
            'of update()) contains an upper bound that mentions constructor parameters/constants only; per-call scratch '
            'allocations are parameter-bounded; buffers inside tuple fields are tracked as places, buffers inside containers the analysis does not model, pushes onto untracked places and constructs the value graph does not understand are reported (fail closed). N is symbolic, the invariant is inductive: the bound holds for every window '
            'length and every stream length; chains are covered compositionally.',
            'Trusted: rustc front end, sfa/vg.py, sfa/solve.py (DBM / Fourier–Motzkin entailment), the Vec/VecDeque length algebra, '
            'the buffer type list (Vec, VecDeque, ...; other container types are rejected by C17 T1). Capacity (as opposed to length) is not modelled.',
            'DESIGN.md §5 C18', 'E3'),
    'C15': ('other', 'static analysis: panic-edge census from MIR + obligations discharged from inferred class invariants by linear-integer entailment',
            'Every MIR Assert terminator (usize overflow, bounds check), every call to a panicking std API (unwrap/expect/index/'
            'remove/clamp) and every explicit panic entry point (panic!/unreachable!/assert!/debug_assert! expansions) in view code is mapped to an obligation: explicit panics must sit on infeasible paths, integer/structural assertions must be entailed, float-valued assertions must follow from interval analysis, arithmetic on integers narrower than 64 bits must provably not overflow; each is and discharged from the inferred inductive class invariant, '
            'the path condition and loop ranges, with N symbolic (all window lengths the constructor accepts, all histories, all '
            'interleavings of update/last since last() cannot change state). An unmapped panic edge or an unproved obligation is a violation. '
            'Not a full proof of the property: internal finiteness assertions are decided only as far as the guard census goes.',
            'Trusted: as C18, plus: a usize/u64 counter + 1 cannot overflow within 2^64 updates; buffer elements are finite (comparator expect); the predicate-counter rule for BinaryEntropy.p. '
            'Level other: the finiteness-assertion clause is only partially decided.',
            'DESIGN.md §5 C15', 'E3'),
    'C02': ('other', 'static analysis: inductive window-length invariants + mirror/extremum/Welford dataflow rules over the gated-SSA value graph',
            'Decides the structural clauses of C02 for all inputs, N and histories: exact window (len ≤ N inductive, each step len+1 or exactly N), '
            'zero-seeded sum aggregates whose eviction contribution mirrors the insertion contribution, extrema rescanned over the post-eviction '
            'window whenever the evicted value may be the extremum, Welford counter == window length with post-operation divisors and m2 maintained by properly chained ±(x−mean_before)(x−mean_after) cross terms, every rescan visiting every element of the window, BinaryEntropy '
            'counting the same predicate on insert and evict, Roc base register. A necessary condition of the property, not the closed formulas.',
            'Trusted: rustc front end, sfa/vg.py, sfa/solve.py, spec tables. Not decided: that the closed formulas (sum/len, entropy, 2(x-min)/(max-min)-1, ...) are right, and the rounding-noise bound.',
            'DESIGN.md §5 C02', 'E5/E3'),
    'C03': ('other', 'static analysis: window invariants + state-cell census (register / mirrored accumulator / rescanned extremum / counted predicate / listed hold) over the value graph',
            'For the 17 finite-memory views every place where old information could persist is shown to be of a kind that forgets (Welford aggregates on the strength of the counter/divisor/cross-term rules); any other '
            'self-referential or data-dependently held state cell is reported. Symbolic in inputs and N.',
            'Trusted: as C02. Not decided: exact cancellation of paired +g/−g (K itself), Alma 2N and PFE N+M−1 are taken from the statement.',
            'DESIGN.md §5 C03', 'E5/E3'),
    'C05': ('other', 'static analysis: mirror rule with register unification over the value graph + ratio-guard matching',
            'Rsi/MyRSI: exact window; gain/loss aggregates are zero-seeded accumulators whose eviction is the σ-image (new↦evicted, '
            'newest-predecessor↦oldest-predecessor register) of the insertion incl. tie predicate and divisor; predecessor registers advance correctly; '
            'state never depends on the raw argument; ratio guards (100 when L=0, hold when G+L=0); the reported value is formed from the aggregates as the update leaves them (G-exit).',
            'Trusted: as C02. Not decided: 100−100/(1+G/L) ≡ 100G/(G+L), ±1/negation corollaries, rounding residue.',
            'DESIGN.md §5 C05', 'E5/E3'),
    'C12': ('other', 'static analysis: homogeneity-degree and parity type inference over the value graph (fixpoint over state cells) + shift-coefficient abstract interpretation in the linear-form domain from the initial state (offset clause) + structural rule for the centred Pearson ratio (CTI offset clause)',
            'Positive-scaling clause: every operation of the 28 tabled views is degree-consistent and the output degree is the tabled one, '
            'so x -> a·x (a > 0) multiplies the output by a^degree and leaves every branch unchanged in real arithmetic (bit-exactly for a a power of two).',
            'Trusted: typing rules in sfa/e_typing.py (float representation changes keep the degree; rounding/conversion to integers needs degree 0), degree table from the property. One reviewed exception: Vst std=0 -> x (the statement\'s own degenerate case). '
            'Offset invariance (x -> x + b) is decided for HLNormalizer, Vsct, NoiseEliminationTechnology and EhlersFisherTransform for enumerated N (shift coefficients: non-linear operations and comparisons only on operands whose shifts cancel); for CorrelationTrendIndicator it is decided as a consequence of the verified structure (centred Pearson ratio of whole-window sums with n = number of summed values; known finding: n is the configured window length, so the clause fails before the window is full). '
            'Negation clause: decided by parity typing (ODD/EVEN/zero; orderings only between even quantities) for Vsct, Vst, CorrelationTrendIndicator, TrendFlex, ReFlex; decided from verified structure for NoiseEliminationTechnology (antisymmetric pair sum) and Min <-> -Max (extrema of the same exact window); NOT decided for Rsi, MyRSI, HLNormalizer.',
            'DESIGN.md §5 C12', 'E5'),
    'C10': ('other', 'static analysis: linearity type inference (ZERO/COEF/LIN/TOP) over the value graph + data-dependent-branch census + abstract interpretation in a linear-form domain (steady-state DC gain; forms from the initial state with one symbol per input)',
            'Linearity clause proved over the reals for the 8 linear views: all floats are linear forms with input-independent coefficients, no affine term, '
            'no data-dependent comparison; structural induction gives superposition for all streams, scalars and N. Window-average members additionally have the '
            'exact-window/mirrored-accumulator structure that gives DC gain 1. Second engine: from the constructor\'s initial state every reported value is a homogeneous linear form of the individual inputs (L-history), '
            'and for Sma/Ema/Alma/LaguerreFilter its weights sum to 1 from the first output on (DC-first), for the enumerated configurations.',
            'Trusted: typing rules; real arithmetic (the f64 "up to rounding" half is not decided). DC gain: numeric, enumerated N; known finding CyberCycle N=4,5 (hence level other, not proof).',
            'DESIGN.md §5 C10', 'E4'),
    'C04': ('other', 'static analysis: linearity typing (no data-dependent branch) + window/accumulator rules + convex-update term matching + linear forms from the initial state (one symbol per input) compared with the stated recursion',
            'Sma/Ema/Alma: no data-dependent branch, exact window, mirrored sum/weight aggregates, Ema x·w+e·(1−w) with w = alpha/(N+1) ∈ (0,1] and '
            'data-independent seed, Alma centre/width expressions and positive stored weights; for N = 1..12 (40 thorough) the forms reported from the initial state are coefficient-wise the recursion e_0 = x_0, e_t = w·x_t + (1−w)·e_(t−1) (Ema, default and custom alpha) and convex combinations of the last N inputs / inputs so far (Sma, Alma / Ema) — which imply the interval, constant, monotonicity and affine clauses over the reals.',
            'Trusted: as C02/C10. Not decided: the Gaussian kernel values over the live window; rounding.',
            'DESIGN.md §5 C04', 'E4/E5'),
    'C08': ('other', 'static analysis: inertness/monotone-readiness entailment, integer-skeleton constant propagation for warm-up counts, interval/sign guard census',
            'Decides: None-path inertness for all views; monotone readiness for all 38 views by entailment from the inductive class invariant (N symbolic); '
            'warm-up thresholds of the 21 tabled views by constant propagation of the integer/typestate skeleton (floats unknown, must not branch on data) for '
            'N ≤ 8 (quick) / 48 (thorough); a census showing every float division, log, sqrt and value assertion guarded on its path: derived by interval/sign analysis (with case splits) from the guards plus facts (reviewed domain preconditions, or state invariants derived structurally on the analysed tree); a fact never discharges a site by itself.',
            'Trusted: vg/solve/fsign/skeleton modules, 4 reviewed domain facts (sfa/e_ready.py ASSUMED: Alma sigma > 0, Divide divisor != 0, Drawdown/LnReturn positive inputs), facts derived on the analysed tree (constructor-only fields, buffer-sum accumulators, verified extrema, cross-term accumulators) and one conditional exception (BinaryEntropy, tied to its is_nan reset); exp() is taken as > 0 (no underflow: moderate parameters). Not decided: overflow to inf from large finite inputs, NaN from cancellation. '
            'Thresholds are for concrete N in the stated range only.',
            'DESIGN.md §5 C08', 'E2/E3/E7'),
    'C13': ('other', 'static analysis: term matching modulo commutativity, joint case analysis of registers, two-step symbolic composition on the value graph',
            'WelfordRolling: n := n+1 on a 64-bit counter, mean correction divided by the post-update count, cross term uses pre- and post-update mean, population sqrt(s/n); '
            'Drawdown: per joint case of (peak, trough, max) the peak is the running max, the trough is reset on a new peak, max drawdown is the running max of '
            '(peak−trough)/peak of the updated registers; LnReturn: update(x1);update(x2);last() = Some(ln(x2/x1)) from any prior state.',
            'Trusted: sfa/vg.py and the case expansion. Not decided: equality with the batch definition as a value, error growth over long streams.',
            'DESIGN.md §5 C13', 'E5'),
    'C09': ('other', 'static analysis: abstract interpretation in a linear-form domain (steady-state extraction with constant-folded coefficients per N, SCC spectral radii; forms from the initial state with one symbol per input), symbolic exp-form and self-normalisation rules',
            'For each of the 9 recursive views and each window length in the enumerated range (quick: 1..32 + {48..256}; thorough: 1..128 + up to 4096) the steady-state update is '
            'extracted as x\' = A x + B u with numeric coefficients and every feedback block has spectral radius < 1; a1 = exp(negative) for all N symbolically; '
            'TrendFlex/ReFlex outputs are self-normalised with leak 0.96 < 1; Fisher feedback 0.5 behind the ±0.99 clamp; for the five linear members the l1 gain of the forms reported from the initial state does not grow with the stream and the weight of the first inputs decays (S5-history).',
            'Trusted: vg/skeleton/lti modules. Coefficient evaluation is constant propagation of input-independent expressions; no stream is supplied. Not decided: boundedness through '
            'non-linear stages beyond the stated forms, arbitrary chains, N beyond the range (except via the exp-form rule), LaguerreRSI N=1 (inert).',
            'DESIGN.md §5 C09', 'E4/E6'),
    'C11': ('other', 'static analysis: abstract interpretation in a linear-form domain (steady state and from the initial state) compared with the difference equations stated in the property; sibling cross-check of the Laguerre ladder',
            'The extracted steady-state recurrences of SuperSmoother, RoofingFilter, LaguerreFilter and the smoother inside TrendFlex/ReFlex have the same impulse response as the stated '
            'difference equations for every N in the range (60 samples, rel. tol. 2e-4); alpha/gamma = 2/(N+1); CyberCycle pole radius 1−alpha; Fisher constants; flex normaliser form; '
            'Fisher window extrema rescanned and covering the newest value; state never depends on the raw argument; SuperSmoother/RoofingFilter/LaguerreFilter: every output from the initial state on equals the stated equation from a zero or first-value initial state (K1-history); CyberCycle gain (1−α/2)² and feedback 2(1−α), −(1−α)²; flex normaliser constants 0.04/0.96 and register exactness; LaguerreRSI stages are renamed copies of each other with γ = 2/(N+1); PFE sign, Fisher MA input.',
            'Trusted: as C09 plus the reference recurrences transcribed from the property text. TrendFlex/ReFlex smoother and numerator are additionally decided from the initial state through the warm-up; the PFE ratio is decided with symbolic window values. Not decided: non-linear tails (LaguerreRSI CU/CD, Fisher order), LaguerreRSI lag convention, CyberCycle smoothing layout.',
            'DESIGN.md §5 C11', 'E4/E6'),
    'C06': ('other', 'static analysis: loop-nest enumeration with symbolic window values (index coverage, pair counts, weights) + term matching',
            'NET: every pair of window values compared exactly once, pair count = denominator n(n−1)/2, +1/−1/0 for newer >/</= older (n = 2..9 quick, ..24 thorough); '
            'CenterOfGravity: weight k for the k-th newest value, plain sum in the denominator, constant (n+1)/2, ratio formed exactly when the denominator is non-zero; NET and CoG report exactly the examined expression (no post-processing) and last() returns it unchanged; CTI: the five moment sums over the whole '
            'window with t the enumeration index, Pearson ratio of them, both variance guards > 0.',
            'Trusted: vg loop records, lti index evaluation. Window values are symbolic; only index ranges are enumerated, for full windows of the stated sizes. Not decided: rounding.',
            'DESIGN.md §5 C06', 'E8'),
    'C07': ('other', 'static analysis: interval/sign analysis of last∘update on the value graph + reuse of the Drawdown/NET/Fisher/clip rules',
            'Only bounds constructed by the code: Tanh, LaguerreRSI, Rsi, WelfordOnline/Rolling, GTE/LTE, Fisher (ln 199), Drawdown (monotone from 0), NET, HLNormalizer (from the tracked-extrema invariant min <= last <= max), Min <= Sma/Alma <= Max (convex combination of the last N inputs, real arithmetic, enumerated N), newest value within Min/Max.',
            '|Vsct| <= (N-1)/sqrt(N) follows from the verified structure (Samuelson). Declined in so many words: MyRSI, CTI, BinaryEntropy, the f64 half of the CoG bound, Drawdown<1, and every "few ulps" clause; PFE is a known finding.',
            'DESIGN.md §5 C07', 'E3-float'),
}

NOT_APPLICABLE = {
    'C16': 'rounding-error growth and cancellation residue are value properties of f64 arithmetic on runtime data; no sound '
           'numerical static analysis (relational error domain for unbounded add/subtract recurrences) is installed or in reach; '
           'the structural facts nearby are claimed under C02/C03/C07 and are not evidence for C16 (DESIGN.md §5 C16)',
}


def main():
    props = [json.loads(l) for l in open(os.path.join(VERIF, 'properties.jsonl'))]
    checks = []
    na = []
    for p in props:
        pid = p['id']
        if pid in CLAIMS:
            cat, tech, text, note, ref, eng = CLAIMS[pid]
            checks.append({
                'property_id': pid,
                'quick_cmd': './check %s --tier quick' % pid,
                'thorough_cmd': './check %s --tier thorough' % pid,
                'evidence_file': 'evidence/%s.json' % pid,
                'replay_cmd_template': './check %s --replay {path}' % pid,
                'engine': eng,
                'level_claimed': {'category': cat, 'text': text, 'design_ref': ref},
                'level_note': note,
                'technique': tech,
            })
        else:
            na.append({'property_id': pid, 'reason': NOT_APPLICABLE.get(pid, 'check not built yet (planned: see DESIGN.md §5)')})
    m = {
        'version': 1,
        'setup_cmd': 'cd driver && CARGO_NET_OFFLINE=true cargo +nightly build --release --offline && cd .. && python3 -m sfa.extract /repo >/dev/null',
        'hooks': {
            'guard': 'none',
            'enable': 'no hooks: the checks type-check /repo with a rustc_private driver injected via RUSTC_WORKSPACE_WRAPPER; nothing is compiled into the crate',
            'baseline_off_cmd': 'cd /repo && CARGO_NET_OFFLINE=true cargo test --workspace --no-fail-fast --offline',
            'source_commits': [],
            'add_only': True,
        },
        'engines': [
            {'name': 'driver', 'path': 'driver/', 'serves_properties': sorted(CLAIMS), 'kind_free_text': 'rustc_private fact extractor: items, structured IR from type-checked HIR, MIR census of panic edges and calls'},
            {'name': 'E1', 'path': 'sfa/e1_types.py', 'serves_properties': ['C17', 'C14', 'C18'], 'kind_free_text': 'type/item allow-list walk, globals, unsafe, callee closure'},
            {'name': 'E2', 'path': 'sfa/e2_protocol.py', 'serves_properties': ['C01', 'C08'], 'kind_free_text': 'path counting / def-use protocol rules over structured IR'},
            {'name': 'E3', 'path': 'sfa/e3_bounds.py', 'serves_properties': ['C15', 'C18', 'C02', 'C08'], 'kind_free_text': 'Houdini class invariants + panic/memory obligations; entailment in sfa/solve.py'},
            {'name': 'VG', 'path': 'sfa/vg.py', 'serves_properties': ['C14', 'C02', 'C03', 'C04', 'C05', 'C10', 'C12', 'C13'], 'kind_free_text': 'gated-SSA value graph (terms, phi, fold) with event log; rule engines match and type the terms'},
        ],
        'checks': checks,
        'notes': 'Static analysis only: every check extracts facts from /repo\'s current working tree (cargo +nightly check with the driver) and evaluates rules over them; no view is ever built or run. Genuine defects found were repaired by fix: commits in /repo (see known_findings.json).',
        'not_applicable': na,
    }
    with open(os.path.join(VERIF, 'MANIFEST.json'), 'w') as f:
        json.dump(m, f, indent=1)
    print('claimed:', [c['property_id'] for c in checks])


if __name__ == '__main__':
    main()
