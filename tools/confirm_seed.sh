#!/bin/bash
# confirm_seed.sh <Cxx> : in the scratch worktree /tmp/wt/<Cxx>, for each mutant m1..m3 of /tmp/seed_out/<Cxx>:
#   demo passes on pristine HEAD, patch applies, full suite passes with patch, demo fails with patch.
# Writes /tmp/seed_out/<Cxx>/confirm.txt
id=$1
wt=/tmp/wt/$id
out=/tmp/seed_out/$id
export CARGO_NET_OFFLINE=true
cd $wt || exit 1
: > $out/confirm.txt
for k in ${2:-1 2 3}; do
  [ -f $out/m$k.diff ] || { echo "m$k missing" >> $out/confirm.txt; continue; }
  git checkout -q -- . ; git clean -fdq tests
  mkdir -p tests && cp $out/m${k}_demo.rs tests/m${k}_demo.rs
  cargo test --offline --test m${k}_demo >/tmp/seed_out/$id/m$k.head.log 2>&1; head_rc=$?
  git apply $out/m$k.diff; apply_rc=$?
  mv tests /tmp/seed_out/$id/tests_tmp_$k
  cargo test --offline --workspace --no-fail-fast >/tmp/seed_out/$id/m$k.suite.log 2>&1; suite_rc=$?
  passed=$(grep -E "^test result" /tmp/seed_out/$id/m$k.suite.log | head -1)
  mv /tmp/seed_out/$id/tests_tmp_$k tests
  cargo test --offline --test m${k}_demo >/tmp/seed_out/$id/m$k.mut.log 2>&1; mut_rc=$?
  echo "m$k head_demo_rc=$head_rc apply_rc=$apply_rc suite_rc=$suite_rc mutant_demo_rc=$mut_rc | $passed" >> $out/confirm.txt
  git checkout -q -- . ; git clean -fdq tests
done
echo done >> $out/confirm.txt
