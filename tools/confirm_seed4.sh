#!/bin/bash
# confirm_seed4.sh <worktree> <outdir> : for each <outdir>/<Cxx>/ {patch.diff, demo.rs}: the demo (an example program) exits 0 on
# pristine HEAD, the patch applies, the full suite passes with the patch, the demo exits non-zero with the patch.
wt=$1; out=$2
export CARGO_NET_OFFLINE=true
cd $wt || exit 1
for d in $out/C*/; do
  id=$(basename $d)
  git checkout -q -- . ; git clean -fdq -e target
  mkdir -p examples && cp $d/demo.rs examples/seed_demo.rs
  cargo run --offline --example seed_demo >$d/confirm.head.log 2>&1; head_rc=$?
  git apply $d/patch.diff; apply_rc=$?
  mv examples/seed_demo.rs /tmp/.seed_demo_$$.rs
  cargo test --offline --workspace --no-fail-fast >$d/confirm.suite.log 2>&1; suite_rc=$?
  passed=$(grep -E "^test result" $d/confirm.suite.log | head -1)
  mv /tmp/.seed_demo_$$.rs examples/seed_demo.rs
  cargo run --offline --example seed_demo >$d/confirm.mut.log 2>&1; mut_rc=$?
  echo "$id head_demo_rc=$head_rc apply_rc=$apply_rc suite_rc=$suite_rc mutant_demo_rc=$mut_rc | $passed"
  git checkout -q -- . ; git clean -fdq -e target
done
