//! C02 demo (Sma clause): once N values have been delivered Sma is the arithmetic mean of exactly the N most recent
//! values -- for every window length, also a long one.
use sliding_features::pure_functions::Echo;
use sliding_features::sliding_windows::Sma;
use sliding_features::View;

#[test]
fn sma_is_the_mean_for_a_long_window() {
    const N: usize = 70_000;
    let mut sma = Sma::new(Echo::new(), N);
    let xs: Vec<f64> = (0..N + 500).map(|i| 10.0 + ((i * 7919) % 1000) as f64 / 1000.0).collect();
    for (t, x) in xs.iter().enumerate() {
        sma.update(*x);
        if t + 1 >= N {
            let want = xs[t + 1 - N..=t].iter().sum::<f64>() / N as f64;
            let got = sma.last().expect("window is full");
            assert!((got - want).abs() < 1e-6, "step {t}: Sma = {got}, mean of the last {N} values = {want}");
            if t + 1 > N + 3 { break; }
        }
    }
}
