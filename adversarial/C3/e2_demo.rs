//! C08 / C04 demo: Sma reports nothing for fewer than N delivered values, and when it reports, the value is the
//! mean of the window (inside the interval spanned by the averaged values; a constant stream is reproduced).
use sliding_features::pure_functions::Echo;
use sliding_features::sliding_windows::Sma;
use sliding_features::View;

#[test]
fn sma_is_silent_during_warm_up_and_reproduces_a_constant() {
    const N: usize = 8;
    let mut sma = Sma::new(Echo::new(), N);
    assert_eq!(sma.last(), None);
    for k in 1..=40usize {
        sma.update(5.0);
        match sma.last() {
            None => assert!(k < N, "no output after {k} values (window {N})"),
            Some(v) => {
                assert!(k >= N, "Sma({N}) reported {v} after only {k} values: warm-up must stay silent (C08)");
                assert_eq!(v, 5.0, "a constant stream must be reproduced exactly (C04)");
            }
        }
    }
}
