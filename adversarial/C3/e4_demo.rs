//! C02 demo (Max clause): once N values have been delivered Max reports the maximum of exactly the N most recent values.
use sliding_features::pure_functions::Echo;
use sliding_features::sliding_windows::Max;
use sliding_features::View;

#[test]
fn max_is_the_maximum_of_the_last_n_values() {
    const N: usize = 4;
    let xs = [3.0, 9.0, 4.0, 6.0, 5.0, 2.0, 1.0, 7.0, 0.5, 0.25, 8.0, 2.0, 2.5];
    let mut max = Max::new(Echo::new(), N);
    for (t, x) in xs.iter().enumerate() {
        max.update(*x);
        let lo = (t + 1).saturating_sub(N);
        let want = xs[lo..=t].iter().copied().fold(f64::MIN, f64::max);
        assert_eq!(max.last(), Some(want), "step {t}: window {:?}", &xs[lo..=t]);
    }
}
