//! C05 demo: with d_i = x_i - x_(i-1) (0 for the very first value), G the sum of the positive and L the sum of the
//! absolute non-positive d_i over the N most recent values, Rsi reports 100*G/(G+L) (100 when L = 0) from the N-th
//! value on -- up to floating-point rounding noise, not up to a display resolution.
use sliding_features::pure_functions::Echo;
use sliding_features::sliding_windows::Rsi;
use sliding_features::View;

#[test]
fn rsi_equals_gains_over_gains_plus_losses() {
    const N: usize = 7;
    // deterministic, wiggly, positive stream
    let xs: Vec<f64> = (0..200u32)
        .map(|i| 100.0 + ((i * 37 % 101) as f64) * 0.173 - ((i * 11 % 17) as f64) * 0.61)
        .collect();
    let mut rsi = Rsi::new(Echo::new(), N);
    for t in 0..xs.len() {
        rsi.update(xs[t]);
        if t + 1 < N {
            assert_eq!(rsi.last(), None);
            continue;
        }
        let (mut g, mut l) = (0.0f64, 0.0f64);
        for i in t + 1 - N..=t {
            let d = if i == 0 { 0.0 } else { xs[i] - xs[i - 1] };
            if d > 0.0 {
                g += d
            } else {
                l += d.abs()
            }
        }
        let want = if l == 0.0 { 100.0 } else { 100.0 * g / (g + l) };
        let got = rsi.last().expect("ready from the N-th value");
        assert!((got - want).abs() < 1e-7, "step {t}: Rsi = {got}, definition gives {want}");
    }
}
