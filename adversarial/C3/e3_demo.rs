//! C02 demo (Roc clause): Roc is 100*(x_t - x_{t-N})/x_{t-N} (base = first value while fewer than N+1 values exist),
//! and the previous output is held when the base is 0.
use sliding_features::pure_functions::Echo;
use sliding_features::sliding_windows::Roc;
use sliding_features::View;

#[test]
fn roc_holds_its_output_on_a_zero_base() {
    const N: usize = 3;
    let xs = [2.0, 4.0, 0.0, 5.0, 8.0, 10.0, 3.0, 0.0, 6.0, 9.0, 12.0, 7.0, 1.0];
    let mut roc = Roc::new(Echo::new(), N);
    let mut expected: Option<f64> = None;
    for (t, x) in xs.iter().enumerate() {
        roc.update(*x);
        let base = if t >= N { xs[t - N] } else { xs[0] };
        if base != 0.0 {
            expected = Some((x - base) / base * 100.0);
        } // else: the previous output is held
        let got = roc.last();
        match (got, expected) {
            (Some(g), Some(e)) => assert!((g - e).abs() < 1e-9, "step {t}: Roc = {g}, definition gives {e} (base {base})"),
            (g, e) => assert_eq!(g, e, "step {t}"),
        }
    }
}
