//! C15 demo: PolarizedFractalEfficiency accepts every finite stream without panicking, in particular
//! streams with ties (two equal consecutive values) and constant streams.

use sliding_features::pure_functions::Echo;
use sliding_features::sliding_windows::{Ema, PolarizedFractalEfficiency, Sma};
use sliding_features::View;

#[test]
fn ties_and_constant_streams_do_not_panic() {
    for n in [3usize, 4, 5, 8, 16] {
        // constant stream
        let mut pfe = PolarizedFractalEfficiency::new(Echo::new(), Ema::new(Echo::new(), n), n);
        for _ in 0..(3 * n + 5) {
            pfe.update(5.0f64);
            let _ = pfe.last();
        }
        // a stream with ties
        let mut pfe = PolarizedFractalEfficiency::new(Echo::new(), Sma::new(Echo::new(), 2), n);
        let xs: [f64; 20] = [1.0, 2.0, 2.0, 3.0, 3.0, 3.0, 2.5, 2.5, 0.0, 0.0, -1.0, 4.0, 4.0, 4.0, 4.0, 1.0, 1.0, 2.0, 2.0, 2.0];
        for _ in 0..3 {
            for x in xs {
                pfe.update(x);
                if let Some(v) = pfe.last() {
                    assert!(v.is_finite());
                }
            }
        }
    }
}

#[test]
fn tie_keeps_the_ratio_positive() {
    // definition: negative exactly when the last step is down; a flat last step keeps the positive ratio.
    let n = 4usize;
    let mut pfe = PolarizedFractalEfficiency::new(Echo::new(), Sma::new(Echo::new(), 1), n);
    let xs = [1.0f64, 3.0, 2.0, 2.0];
    for x in xs {
        pfe.update(x);
    }
    // numerator sqrt((x_t - x_(t-N+1))^2 + N^2), denominator: the N-2 most recent unit steps
    let num = ((2.0f64 - 1.0).powi(2) + 16.0).sqrt();
    let den = ((2.0f64 - 2.0).powi(2) + 1.0).sqrt() + ((2.0f64 - 3.0).powi(2) + 1.0).sqrt();
    let got = pfe.last().unwrap();
    assert!((got - num / den).abs() < 1e-12, "got {got}, want {}", num / den);
}
