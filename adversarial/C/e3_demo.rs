//! C11 demo: CyberCycle equals a batch re-evaluation of its difference equation
//!   cc_t = (1 - alpha/2)^2 (s_t - 2 s_(t-1) + s_(t-2)) + 2 (1 - alpha) cc_(t-1) - (1 - alpha)^2 cc_(t-2),
//!   alpha = 2 / (N + 1),
//! (Ehlers, "Cybernetic Analysis", as cited by the source) under the crate's conventions: output 0 until the
//! window holds N values; the smoothed series is recomputed over the window on every step as
//! s[i] = (x_now + 2 w[i-1] + 2 w[i-2] + w[i-3]) / 6 for window positions i >= 3 (positions 0..2 stay 0),
//! and the last three window positions are used.

use sliding_features::pure_functions::Echo;
use sliding_features::sliding_windows::CyberCycle;
use sliding_features::View;

fn cyber_cycle_ref(xs: &[f64], n: usize) -> Vec<f64> {
    let alpha = 2.0 / (n as f64 + 1.0);
    let mut out: Vec<f64> = Vec::new();
    for t in 0..xs.len() {
        if t + 1 < n {
            out.push(0.0);
            continue;
        }
        let w = &xs[t + 1 - n..=t];
        let s = |i: usize| -> f64 {
            if i < 3 {
                0.0
            } else {
                (xs[t] + 2.0 * w[i - 1] + 2.0 * w[i - 2] + w[i - 3]) / 6.0
            }
        };
        let last = n - 1;
        let cc1 = out[t - 1];
        let cc2 = out[t - 2];
        let cc = (1.0 - 0.5 * alpha).powi(2) * (s(last) - 2.0 * s(last - 1) + s(last - 2))
            + 2.0 * (1.0 - alpha) * cc1
            - (1.0 - alpha).powi(2) * cc2;
        out.push(cc);
    }
    out
}

#[test]
fn follows_its_difference_equation() {
    for n in [6usize, 8, 10, 16, 20] {
        let xs: Vec<f64> = (0..400)
            .map(|i| 100.0 + (i as f64 * 0.37).sin() * 5.0 + ((i * 7919 % 97) as f64) / 50.0)
            .collect();
        let want = cyber_cycle_ref(&xs, n);
        let mut cc = CyberCycle::new(Echo::new(), n);
        for (t, x) in xs.iter().enumerate() {
            cc.update(*x);
            let got = cc.last().unwrap();
            assert!(
                (got - want[t]).abs() <= 1e-9 * (1.0 + want[t].abs()),
                "N={n} step {t}: CyberCycle {got} differs from its difference equation {}",
                want[t]
            );
        }
    }
}
