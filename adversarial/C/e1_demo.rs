//! C09 (fading memory) demo for TrendFlex.
//!
//! Two bounded streams that become identical from some point on must produce outputs that converge to
//! each other geometrically: the only memory TrendFlex has besides its window is the two-pole smoother
//! (pole radius exp(-8.88/N) < 1) and the leaky mean square ms_t = 0.04 d_t^2 + 0.96 ms_(t-1), whose
//! memory of anything before the merge point decays like 0.96^k.
//! A batch re-evaluation of the defining equations from the full history is used as a second reference.

use sliding_features::pure_functions::Echo;
use sliding_features::sliding_windows::TrendFlex;
use sliding_features::View;

struct Lcg(u64);
impl Lcg {
    fn next(&mut self) -> f64 {
        self.0 = self.0.wrapping_mul(6364136223846793005).wrapping_add(1442695040888963407);
        ((self.0 >> 11) as f64 / (1u64 << 53) as f64) * 2.0 - 1.0
    }
}

/// Batch evaluation of TrendFlex (crate conventions: first-value seeded input lag, zero filter state,
/// window of the last N filter values including the current one, mean deviation divided by N).
fn trend_flex_ref(xs: &[f64], n: usize) -> Vec<f64> {
    let nf = n as f64;
    let a1 = (-8.88442402435 / nf).exp();
    let b1 = 2.0 * a1 * (4.44221201218 / nf).cos();
    let c3 = -a1 * a1;
    let c1 = 1.0 - b1 - c3;
    let mut filts: Vec<f64> = Vec::new();
    let mut out = Vec::new();
    let mut ms = 0.0;
    for (t, &x) in xs.iter().enumerate() {
        let x1 = if t == 0 { x } else { xs[t - 1] };
        let f1 = if t >= 1 { filts[t - 1] } else { 0.0 };
        let f2 = if t >= 2 { filts[t - 2] } else { 0.0 };
        let f = c1 * (x + x1) / 2.0 + b1 * f1 + c3 * f2;
        filts.push(f);
        let lo = (t + 1).saturating_sub(n);
        let d: f64 = filts[lo..=t].iter().rev().map(|v| f - v).sum::<f64>() / nf;
        ms = 0.04 * d * d + 0.96 * ms;
        out.push(if ms > 0.0 { d / ms.sqrt() } else { 0.0 });
    }
    out
}

fn streams(n: usize) -> (Vec<f64>, Vec<f64>) {
    // common tail: bounded noise in [-1, 1]
    let mut rng = Lcg(7 + n as u64);
    let tail: Vec<f64> = (0..4000).map(|_| rng.next()).collect();
    // two different bounded prefixes: a volatile one (|x| <= 100) and a calm one (|x| <= 1)
    let mut rng_a = Lcg(1001);
    let mut rng_b = Lcg(2002);
    let mut a: Vec<f64> = (0..300).map(|_| 100.0 * rng_a.next()).collect();
    let mut b: Vec<f64> = (0..300).map(|_| rng_b.next()).collect();
    a.extend_from_slice(&tail);
    b.extend_from_slice(&tail);
    (a, b)
}

#[test]
fn early_values_die_out() {
    for n in [3usize, 5, 8, 16, 20] {
        let (a, b) = streams(n);
        let mut va = TrendFlex::new(Echo::new(), n);
        let mut vb = TrendFlex::new(Echo::new(), n);
        let mut worst_late = 0.0f64;
        for t in 0..a.len() {
            va.update(a[t]);
            vb.update(b[t]);
            let ya = va.last().unwrap();
            let yb = vb.last().unwrap();
            assert!(ya.is_finite() && yb.is_finite());
            assert!(ya.abs() <= 5.0 + 1e-9 && yb.abs() <= 5.0 + 1e-9, "bounded by 1/sqrt(0.04)");
            // 2000 steps after the streams merged: 0.96^2000 ~ 1e-36, the prefixes must be forgotten
            if t >= 300 + 2000 {
                worst_late = worst_late.max((ya - yb).abs());
            }
        }
        assert!(
            worst_late < 1e-9,
            "N={n}: two streams with a common tail still differ by {worst_late} more than 2000 steps after they merged: the early values never die out"
        );
    }
}

#[test]
fn matches_the_batch_definition() {
    for n in [3usize, 5, 8, 16, 20] {
        let (a, _) = streams(n);
        let ra = trend_flex_ref(&a, n);
        let mut va = TrendFlex::new(Echo::new(), n);
        for t in 0..a.len() {
            va.update(a[t]);
            let ya = va.last().unwrap();
            assert!(
                (ya - ra[t]).abs() <= 1e-7 * (1.0 + ra[t].abs()),
                "N={n} step {t}: TrendFlex {ya} differs from the batch definition {}",
                ra[t]
            );
        }
    }
}
