//! C10 demo (DC clause): the low-pass member LaguerreFilter maps a constant stream to the same constant
//! from its FIRST output on, for every gamma in [0, 1). Superposition is checked as well (it still holds).

use sliding_features::pure_functions::Echo;
use sliding_features::sliding_windows::LaguerreFilter;
use sliding_features::View;

#[test]
fn constant_stream_is_reproduced_from_the_first_output() {
    for gamma in [0.0f64, 0.2, 0.5, 0.8, 0.95] {
        for c in [5.0f64, -3.25, 1e-3, 1234.5] {
            let mut lf = LaguerreFilter::new(Echo::new(), gamma);
            for step in 0..200 {
                lf.update(c);
                let y = lf.last().expect("LaguerreFilter reports from the first value");
                assert!(
                    (y - c).abs() <= 1e-12 * c.abs(),
                    "gamma={gamma}: constant stream {c} is mapped to {y} at output {step} (must be the constant itself from the first output)"
                );
            }
        }
    }
}

#[test]
fn superposition() {
    let xs: Vec<f64> = (0..300).map(|i| ((i * 37 % 101) as f64 - 50.0) / 7.0).collect();
    let ys: Vec<f64> = (0..300).map(|i| ((i * 53 % 89) as f64 - 44.0) / 3.0).collect();
    let (a, b) = (2.5f64, -0.75f64);
    for gamma in [0.0f64, 0.5, 0.9] {
        let mut fx = LaguerreFilter::new(Echo::new(), gamma);
        let mut fy = LaguerreFilter::new(Echo::new(), gamma);
        let mut fz = LaguerreFilter::new(Echo::new(), gamma);
        for i in 0..xs.len() {
            fx.update(xs[i]);
            fy.update(ys[i]);
            fz.update(a * xs[i] + b * ys[i]);
            let want = a * fx.last().unwrap() + b * fy.last().unwrap();
            let got = fz.last().unwrap();
            assert!((got - want).abs() <= 1e-9 * (1.0 + want.abs()));
        }
    }
}
