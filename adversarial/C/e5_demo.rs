//! C08 demo: HLNormalizer reports from the first value and every value it reports is finite, also for
//! degenerate windows (flat window: max == min). By definition 2 (x - min) / (max - min) - 1 with the
//! documented degenerate case max == min -> 0.

use sliding_features::pure_functions::Echo;
use sliding_features::sliding_windows::HLNormalizer;
use sliding_features::View;

fn reference(window: &[f64]) -> f64 {
    let x = *window.last().unwrap();
    let min = window.iter().cloned().fold(f64::INFINITY, f64::min);
    let max = window.iter().cloned().fold(f64::NEG_INFINITY, f64::max);
    if max == min { 0.0 } else { -1.0 + 2.0 * (x - min) / (max - min) }
}

fn run(n: usize, xs: &[f64]) {
    let mut v = HLNormalizer::new(Echo::new(), n);
    for (t, x) in xs.iter().enumerate() {
        v.update(*x);
        let y = v.last();
        let y = y.unwrap_or_else(|| panic!("N={n}: no value after update {t}"));
        assert!(y.is_finite(), "N={n}: non-finite output {y} at step {t} (window is flat)");
        let lo = (t + 1).saturating_sub(n);
        let want = reference(&xs[lo..=t]);
        assert!((y - want).abs() < 1e-12, "N={n} step {t}: got {y}, want {want}");
    }
}

#[test]
fn flat_windows_give_finite_values() {
    for n in [1usize, 2, 3, 5, 8] {
        run(n, &[5.0; 24]);
        run(n, &[0.0; 24]);
        // flat stretches inside a moving series
        let xs = [1.0, 2.0, 3.0, 3.0, 3.0, 3.0, 3.0, 3.0, 3.0, 3.0, 3.0, 1.0, 1.0, 1.0, 1.0, 1.0, 1.0, 1.0, 1.0, 1.0, 4.0];
        run(n, &xs);
    }
}
