//! C01 demo: a chain B(A) must report, after every update, exactly what a stand-alone A feeding
//! (only when it has an output) a stand-alone B built over Echo reports.
use sliding_features::{
    pure_functions::{Constant, Echo},
    rolling::LnReturn,
    sliding_windows::Sma,
    View,
};

fn bits(o: Option<f64>) -> Option<u64> {
    o.map(f64::to_bits)
}

/// Drive `chain` and its decomposition (`a` stand-alone, `b` over Echo) with the same inputs.
fn check<A: View<f64>, C: View<f64>>(mut chain: C, mut a: A, inputs: &[f64]) {
    let mut b = LnReturn::new(Echo::new());
    for (i, x) in inputs.iter().enumerate() {
        chain.update(*x);
        a.update(*x);
        if let Some(out) = a.last() {
            b.update(out);
        }
        assert_eq!(
            bits(chain.last()),
            bits(b.last()),
            "step {i}: chain reports {:?}, decomposition reports {:?}",
            chain.last(),
            b.last()
        );
    }
}

#[test]
fn ln_return_over_constant_equals_its_decomposition() {
    let inputs = [3.0, 1.0, 4.0, 1.0, 5.0];
    check(LnReturn::new(Constant::new(5.0)), Constant::new(5.0), &inputs);
}

#[test]
fn ln_return_over_sma_equals_its_decomposition() {
    // an inner view that has already seen a few values when it is wrapped
    let mut a = Sma::new(Echo::new(), 2);
    a.update(2.0);
    a.update(4.0);
    let inputs = [8.0, 16.0, 2.0, 2.0, 7.0];
    check(LnReturn::new(a.clone()), a, &inputs);
}
