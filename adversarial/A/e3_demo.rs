//! C05 demo: with d_i = x_i - x_(i-1) (d = 0 for the very first value), G / L the sums of the positive /
//! absolute non-positive d_i over the N most recent values, Rsi must report 100*G/(G+L) (100 when L = 0)
//! from the N-th value on, at every step.
use sliding_features::{pure_functions::Echo, sliding_windows::Rsi, View};

fn reference(xs: &[f64], t: usize, n: usize) -> f64 {
    let (mut g, mut l) = (0.0f64, 0.0f64);
    for i in (t + 1 - n)..=t {
        let d = if i == 0 { 0.0 } else { xs[i] - xs[i - 1] };
        if d > 0.0 {
            g += d;
        } else {
            l += d.abs();
        }
    }
    if l == 0.0 { 100.0 } else { 100.0 * g / (g + l) }
}

#[test]
fn rsi_equals_gains_and_losses_of_the_last_n_values() {
    let xs = [10.0, 11.0, 10.5, 12.0, 13.0, 12.5, 12.0, 14.0, 15.0, 14.0, 13.0, 13.5, 16.0, 15.0];
    for n in 2..=5usize {
        let mut rsi = Rsi::new(Echo::new(), n);
        for t in 0..xs.len() {
            rsi.update(xs[t]);
            if t + 1 < n {
                continue;
            }
            let out = rsi.last().expect("ready from the N-th value on");
            let want = reference(&xs, t, n);
            assert!(
                (out - want).abs() <= 1e-9 * 100.0,
                "N={n} step {t}: Rsi reports {out}, definition gives {want}"
            );
        }
    }
}

#[test]
fn strictly_rising_window_gives_100() {
    // a drop that has left the window must not be counted any more
    let xs = [5.0, 1.0, 2.0, 3.0, 4.0];
    let mut rsi = Rsi::new(Echo::new(), 3);
    for x in xs {
        rsi.update(x);
    }
    // last three values 2, 3, 4 with changes +1, +1, +1
    assert_eq!(rsi.last(), Some(100.0));
}
