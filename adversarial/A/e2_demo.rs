//! C02 demo: WelfordOnline::last() must be the sample standard deviation (and mean() the mean)
//! of exactly the N most recent values, at every step, also after values have left the window.
use sliding_features::{pure_functions::Echo, sliding_windows::WelfordOnline, View};

fn reference(window: &[f64]) -> (f64, f64) {
    let n = window.len() as f64;
    let mean = window.iter().sum::<f64>() / n;
    if window.len() < 2 {
        return (mean, 0.0);
    }
    let var = window.iter().map(|v| (v - mean) * (v - mean)).sum::<f64>() / (n - 1.0);
    (mean, var.sqrt())
}

#[test]
fn welford_online_equals_definition_over_last_n() {
    let xs = [1.0, 2.0, 3.0, 10.0, -4.0, 7.5, 0.0, 0.0, 12.0, 3.0, 3.0, 8.0];
    for n in 2..=5usize {
        let mut w = WelfordOnline::new(Echo::new(), n);
        for (i, x) in xs.iter().enumerate() {
            w.update(*x);
            let lo = (i + 1).saturating_sub(n);
            let (mean, std) = reference(&xs[lo..=i]);
            let scale = xs[..=i].iter().fold(1.0f64, |m, v| m.max(v.abs()));
            assert!(
                (w.mean() - mean).abs() <= 1e-9 * scale,
                "N={n} step {i}: mean {} != {}", w.mean(), mean
            );
            if i + 1 >= n {
                let out = w.last().expect("window is full");
                assert!(
                    (out - std).abs() <= 1e-9 * scale,
                    "N={n} step {i}: std {} != {} (window {:?})", out, std, &xs[lo..=i]
                );
            }
        }
    }
}

/// C03: two histories that agree on their last N values must give the same output (up to rounding),
/// whatever preceded.
#[test]
fn welford_online_forgets_everything_older_than_the_window() {
    let n = 3usize;
    let suffix = [1.0, 2.0, 4.0];
    let prefix_a = [10.0, -10.0, 7.0, -3.0, 8.0, 2.0, -9.0, 5.0];
    let prefix_b = [0.5];
    let run = |prefix: &[f64]| {
        let mut w = WelfordOnline::new(Echo::new(), n);
        for x in prefix.iter().chain(suffix.iter()) {
            w.update(*x);
        }
        (w.mean(), w.last().expect("window is full"))
    };
    let (mean_a, std_a) = run(&prefix_a);
    let (mean_b, std_b) = run(&prefix_b);
    assert!((mean_a - mean_b).abs() <= 1e-9 * 10.0, "mean {mean_a} vs {mean_b}");
    assert!(
        (std_a - std_b).abs() <= 1e-9 * 10.0,
        "same last {n} values, different prefixes: std {std_a} vs {std_b}"
    );
}
