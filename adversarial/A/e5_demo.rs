//! C17 demo: a clone taken at any moment continues exactly like the original when both receive the same
//! subsequent inputs, and two views built with the same parameters and fed the same inputs agree bit for bit.
use sliding_features::{pure_functions::Echo, sliding_windows::Ema, View};

fn bits(o: Option<f64>) -> Option<u64> {
    o.map(f64::to_bits)
}

#[test]
fn clone_continues_exactly_like_the_original() {
    let xs = [3.0, 1.0, 4.0, 1.0, 5.0, 9.0, 2.0, 6.0, 5.0, 3.0];
    for split in 1..xs.len() {
        let mut original = Ema::new(Echo::new(), 3);
        for x in &xs[..split] {
            original.update(*x);
        }
        let mut clone = original.clone();
        for (i, x) in xs[split..].iter().enumerate() {
            original.update(*x);
            clone.update(*x);
            assert_eq!(
                bits(original.last()),
                bits(clone.last()),
                "clone taken after {split} values diverges {} value(s) later: original {:?}, clone {:?}",
                i + 1,
                original.last(),
                clone.last()
            );
        }
    }
}

#[test]
fn twins_agree_even_if_one_of_them_is_moved() {
    let xs = [3.0, 1.0, 4.0, 1.0, 5.0, 9.0];
    let mut a = Ema::new(Echo::new(), 2);
    let mut b = Box::new(Ema::new(Echo::new(), 2));
    for x in &xs[..3] {
        a.update(*x);
        b.update(*x);
    }
    // moving a value is not an observable event
    let mut b = *b;
    for x in &xs[3..] {
        a.update(*x);
        b.update(*x);
        assert_eq!(bits(a.last()), bits(b.last()), "twins diverge: {:?} vs {:?}", a.last(), b.last());
    }
}
