//! C14 demo: GTE reports max(child, clip) for every clip point, bit-exactly.
use sliding_features::{pure_functions::{Echo, GTE}, View};

#[test]
fn gte_is_max_of_child_and_clip_for_every_clip() {
    for clip in [-2.5f64, -1.0, 0.0, 1.0] {
        let mut gte = GTE::new(Echo::new(), clip);
        for x in [-3.0f64, -2.0, -0.5, 0.5, 2.0] {
            gte.update(x);
            assert_eq!(gte.last().map(f64::to_bits), Some(x.max(clip).to_bits()),
                "clip {clip}, child {x}: reports {:?}", gte.last());
        }
    }
}
