//! C02 demo: HLNormalizer must report 2(x-min)/(max-min)-1 (0 when max == min) with min/max taken over
//! exactly the N most recent values -- no value in the window may be missed -- at every step.
use sliding_features::{pure_functions::Echo, sliding_windows::HLNormalizer, View};

fn reference(window: &[f64]) -> f64 {
    let x = *window.last().unwrap();
    let min = window.iter().cloned().fold(f64::INFINITY, f64::min);
    let max = window.iter().cloned().fold(f64::NEG_INFINITY, f64::max);
    if max == min { 0.0 } else { 2.0 * (x - min) / (max - min) - 1.0 }
}

#[test]
fn hl_normalizer_equals_definition_over_last_n() {
    let xs = [0.0, 5.0, 7.0, 6.0, 6.5, 9.0, 1.0, 4.0, 3.0, 3.5, 8.0, 2.0, 2.5, 2.25, 10.0, 7.0];
    for n in 2..=5usize {
        let mut hl = HLNormalizer::new(Echo::new(), n);
        for i in 0..xs.len() {
            hl.update(xs[i]);
            let lo = (i + 1).saturating_sub(n);
            let want = reference(&xs[lo..=i]);
            let out = hl.last().expect("reports from the first value on");
            assert!(
                (out - want).abs() <= 1e-12,
                "N={n} step {i}: reports {out}, definition over {:?} gives {want}",
                &xs[lo..=i]
            );
        }
    }
}
