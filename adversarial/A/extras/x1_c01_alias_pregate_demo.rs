//! C01 demo: Ema(Sma(Echo)) must equal stand-alone Sma feeding (when ready) a stand-alone Ema over Echo.
use sliding_features::{pure_functions::Echo, sliding_windows::{Ema, Sma}, View};

#[test]
fn ema_over_sma_equals_its_decomposition() {
    let xs = [3.0, 1.0, 4.0, 1.0, 5.0, 9.0, 2.0, 6.0];
    let mut chain = Ema::new(Sma::new(Echo::new(), 3), 3);
    let mut a = Sma::new(Echo::new(), 3);
    let mut b = Ema::new(Echo::new(), 3);
    for (i, x) in xs.iter().enumerate() {
        chain.update(*x);
        a.update(*x);
        if let Some(o) = a.last() {
            b.update(o);
        }
        assert_eq!(chain.last().map(f64::to_bits), b.last().map(f64::to_bits),
            "step {i}: chain {:?} vs decomposition {:?}", chain.last(), b.last());
    }
}
