// C06: on a full window CTI is the Pearson correlation between the windowed values and their time index;
// in particular +1 on any strictly increasing window and -1 on any strictly decreasing one.
use sliding_features::{pure_functions::Echo, sliding_windows::CorrelationTrendIndicator, View};

#[test]
fn cti_is_plus_minus_one_on_monotone_windows() {
    let n = 5;
    let mut up = CorrelationTrendIndicator::new(Echo::new(), n);
    let mut down = CorrelationTrendIndicator::new(Echo::new(), n);
    for i in 0..20 {
        // a price near 16384 moving by 1/8 per step: every sum below is exact in f64
        let x = 16384.0 + 0.125 * i as f64;
        up.update(x);
        down.update(32768.0 - x);
        if i + 1 >= n {
            let u = up.last().unwrap();
            let d = down.last().unwrap();
            assert!((u - 1.0).abs() < 1e-9, "strictly increasing window: CTI = {}", u);
            assert!((d + 1.0).abs() < 1e-9, "strictly decreasing window: CTI = {}", d);
        }
    }
}
