// C13: WelfordRolling::last() equals the population standard deviation of all values delivered so far.
use sliding_features::{pure_functions::Echo, rolling::WelfordRolling, View};

#[test]
fn welford_rolling_matches_batch_std_on_offset_prices() {
    // prices around 1e6 moving in cent ticks: positive, finite, nothing exotic
    let xs: Vec<f64> = (0..300).map(|i| 1_000_000.0 + 0.01 * (i % 3) as f64).collect();
    let mut wr = WelfordRolling::new(Echo::new());
    for (k, x) in xs.iter().enumerate() {
        wr.update(*x);
        let n = (k + 1) as f64;
        let mean = xs[..=k].iter().sum::<f64>() / n;
        let var = xs[..=k].iter().map(|v| (v - mean) * (v - mean)).sum::<f64>() / n;
        let want = var.sqrt();
        let got = wr.last().unwrap();
        assert!((wr.mean() - mean).abs() <= 1e-9 * mean.abs());
        assert!(
            (got - want).abs() <= 1e-6 * want.max(1e-12),
            "step {}: WelfordRolling reports {}, batch population std is {}", k + 1, got, want
        );
    }
}
