// C15: every constructed view accepts every finite in-domain stream without panicking (N = 1 included).
use sliding_features::{pure_functions::Echo, sliding_windows::Rsi, View};

#[test]
fn rsi_window_one_does_not_panic_and_is_finite() {
    let mut rsi = Rsi::new(Echo::new(), 1);
    for v in [1.0_f64, 2.0, 1.5, 1.5, 3.0] {
        rsi.update(v);
        let out = rsi.last().expect("Rsi(1) reports from the first value");
        assert!(out.is_finite());
        assert!((0.0..=100.0).contains(&out));
    }
}
