// C12: replacing x by a*x with a > 0 leaves Vst unchanged (bit-exactly for a a power of two).
use sliding_features::{pure_functions::Echo, sliding_windows::Vst, View};

#[test]
fn vst_is_invariant_under_positive_scaling() {
    let xs = [0.5_f64, -1.25, 2.0, 0.75, -0.5, 1.5, -2.25, 1.0, 0.25, -1.0, 3.0, -0.75];
    let a = (2.0_f64).powi(-60); // e.g. a quantity quoted in a very small unit
    let mut v1 = Vst::new(Echo::new(), 4);
    let mut v2 = Vst::new(Echo::new(), 4);
    for x in xs {
        v1.update(x);
        v2.update(a * x);
        assert_eq!(v1.last(), v2.last(), "Vst(x) != Vst(a*x) for a = 2^-60");
    }
}
