// C08: every value ever returned is finite; Alma reports from the 1st value, for every window length N >= 1.
use sliding_features::{pure_functions::Echo, sliding_windows::Alma, View};

#[test]
fn alma_window_one_reports_finite_values_from_the_first() {
    let mut alma = Alma::new(Echo::new(), 1);
    for v in [1.0_f64, 2.5, -3.0, 0.0, 7.0] {
        alma.update(v);
        let out = alma.last().expect("Alma reports from the 1st value");
        assert!(out.is_finite(), "Alma(1) returned {}", out);
        assert!((out - v).abs() < 1e-12, "a window of one value averages to that value, got {}", out);
    }
}
