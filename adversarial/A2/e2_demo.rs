// C05: from the N-th value on, Rsi = 100*G/(G+L) over the N most recent values
// (d = 0 for the very first value; 100 when L = 0). Also C03: two histories with the same suffix agree.
use sliding_features::{pure_functions::Echo, sliding_windows::Rsi, View};

fn reference(xs: &[f64], n: usize, t: usize) -> f64 {
    // changes of the N most recent values x[t-n+1..=t]; the very first value of the stream has d = 0
    let lo = t + 1 - n;
    let (mut g, mut l) = (0.0, 0.0);
    for i in lo..=t {
        let d = if i == 0 { 0.0 } else { xs[i] - xs[i - 1] };
        if d > 0.0 { g += d } else { l += -d }
    }
    if l == 0.0 { 100.0 } else { 100.0 * g / (g + l) }
}

#[test]
fn rsi_equals_definition_after_first_value_left_the_window() {
    let n = 3;
    let xs = [5.0_f64, 4.0, 6.0, 5.5, 7.0, 6.0, 6.5, 8.0, 7.0, 7.5];
    let mut rsi = Rsi::new(Echo::new(), n);
    for (t, x) in xs.iter().enumerate() {
        rsi.update(*x);
        if t + 1 >= n {
            let got = rsi.last().expect("ready from the N-th value on");
            let want = reference(&xs, n, t);
            assert!((got - want).abs() < 1e-9, "step {t}: got {got}, want {want}");
        }
    }
}

#[test]
fn rsi_forgets_the_first_value() {
    // same last N+1 values, different first value
    let n = 3;
    let suffix = [4.0_f64, 6.0, 5.5, 7.0, 6.0];
    let mut a = Rsi::new(Echo::new(), n);
    let mut b = Rsi::new(Echo::new(), n);
    for x in [1.0, 2.0] { a.update(x); }
    for x in [100.0, 2.0] { b.update(x); }
    for x in suffix { a.update(x); b.update(x); }
    let (ya, yb) = (a.last().unwrap(), b.last().unwrap());
    assert!((ya - yb).abs() < 1e-9, "{ya} vs {yb}");
}
