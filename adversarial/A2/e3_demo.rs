// C03: Roc's output is a function of the last N+1 values; the only allowed hold is a zero *base*.
// C02: Roc = 100 (x_t - x_{t-N}) / x_{t-N}.
use sliding_features::{pure_functions::Echo, sliding_windows::Roc, View};

#[test]
fn roc_same_suffix_same_output() {
    let n = 2;
    let suffix = [2.0_f64, 4.0, 0.0]; // K = N + 1 values; base of the last step is 2.0 (non-zero)
    let mut a = Roc::new(Echo::new(), n);
    let mut b = Roc::new(Echo::new(), n);
    for x in [1.0, 3.0, 1.0] { a.update(x); }
    for x in [9.0, 7.0, 8.0, 8.0] { b.update(x); }
    for x in suffix { a.update(x); b.update(x); }
    assert_eq!(a.last(), b.last(), "histories agree on the last N+1 values");
    assert_eq!(a.last(), Some(-100.0), "100*(0-2)/2");
}
