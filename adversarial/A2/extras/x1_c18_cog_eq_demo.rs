//! C18 demo: the heap memory owned by a view is bounded by a function of its window length only, for all
//! window lengths the constructor accepts: live heap bytes at stream length 4L must not exceed those at L.
use sliding_features::{pure_functions::Echo, sliding_windows::CenterOfGravity, View};
use std::alloc::{GlobalAlloc, Layout, System};
use std::cell::Cell;

thread_local! {
    static LIVE: Cell<isize> = const { Cell::new(0) };
}

struct Counting;

unsafe impl GlobalAlloc for Counting {
    unsafe fn alloc(&self, l: Layout) -> *mut u8 {
        let _ = LIVE.try_with(|c| c.set(c.get() + l.size() as isize));
        unsafe { System.alloc(l) }
    }
    unsafe fn dealloc(&self, p: *mut u8, l: Layout) {
        let _ = LIVE.try_with(|c| c.set(c.get() - l.size() as isize));
        unsafe { System.dealloc(p, l) }
    }
    unsafe fn realloc(&self, p: *mut u8, l: Layout, new_size: usize) -> *mut u8 {
        let _ = LIVE.try_with(|c| c.set(c.get() + new_size as isize - l.size() as isize));
        unsafe { System.realloc(p, l, new_size) }
    }
}

#[global_allocator]
static A: Counting = Counting;

fn live() -> isize {
    LIVE.with(|c| c.get())
}

fn feed<V: View<f64>>(v: &mut V, from: usize, to: usize) {
    for i in from..to {
        let x = 100.0 + ((i * 7919) % 101) as f64 - ((i * 31) % 17) as f64;
        v.update(x);
    }
}

#[test]
fn cog_memory_does_not_grow_with_stream_length() {
    // CenterOfGravity::new has no lower bound on window_len: every usize is an accepted configuration
    for window_len in [0usize, 1, 2, 8, 32] {
        let l = 2_000;
        let base = live();
        let mut cog = CenterOfGravity::new(Echo::new(), window_len);
        feed(&mut cog, 0, l);
        let at_l = live() - base;
        feed(&mut cog, l, 4 * l);
        let at_4l = live() - base;
        assert!(cog.last().is_some());
        assert!(at_4l <= at_l, "window_len={window_len}: {at_l} bytes live after {l} values, {at_4l} after {}", 4 * l);
    }
}
