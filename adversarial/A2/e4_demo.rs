// C02: Vst is x_t/std with mean and std taken over exactly the N most recent values (x_t when std is 0),
// for all window lengths N >= 1.
use sliding_features::{pure_functions::Echo, sliding_windows::Vst, View};

fn sample_std(w: &[f64]) -> f64 {
    if w.len() < 2 { return 0.0; }
    let m = w.iter().sum::<f64>() / w.len() as f64;
    (w.iter().map(|x| (x - m) * (x - m)).sum::<f64>() / (w.len() as f64 - 1.0)).sqrt()
}

#[test]
fn vst_uses_exactly_the_last_n_values() {
    let xs = [3.0_f64, 5.0, 4.0, 9.0, 1.0, 2.0, 8.0];
    for n in [1usize, 2, 3] {
        let mut v = Vst::new(Echo::new(), n);
        for (t, x) in xs.iter().enumerate() {
            v.update(*x);
            if t + 1 >= n {
                let w = &xs[t + 1 - n..=t];
                let sd = sample_std(w);
                let want = if sd == 0.0 { *x } else { *x / sd };
                let got = v.last().expect("ready once N values were delivered");
                assert!((got - want).abs() <= 1e-9 * want.abs().max(1.0), "N={n} step {t}: got {got}, want {want}");
            }
        }
    }
}
