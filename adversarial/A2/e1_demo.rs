// C02: Max must report the maximum of the last N values, also when every value in the window is negative.
use sliding_features::{pure_functions::Echo, sliding_windows::Max, View};

#[test]
fn max_of_negative_window_after_eviction_of_the_maximum() {
    let n = 3;
    let xs = [-1.0_f64, -2.0, -3.0, -4.0, -5.0, -0.5, -7.0, -8.0, -9.0];
    let mut m = Max::new(Echo::new(), n);
    for (i, x) in xs.iter().enumerate() {
        m.update(*x);
        let lo = i.saturating_sub(n - 1);
        let want = xs[lo..=i].iter().cloned().fold(f64::NEG_INFINITY, f64::max);
        assert_eq!(m.last(), Some(want), "step {i}: window {:?}", &xs[lo..=i]);
    }
}
