// C17: two views built with the same parameters and fed the same inputs report bit-identical outputs
// at every step; a clone continues exactly like the original.
use sliding_features::{pure_functions::Echo, sliding_windows::Sma, View};

fn input(i: usize) -> f64 {
    // distinct values of very different magnitude: the order of summation shows in the last bits
    let k = (i * 7919 % 1013) as f64;
    (k + 0.1) * 10f64.powi((i % 7) as i32 - 3) + i as f64 * 1e-7
}

#[test]
fn twins_and_clones_are_bit_identical() {
    let mut a = Sma::new(Echo::new(), 16);
    let mut b = Sma::new(Echo::new(), 16);
    for i in 0..40 { a.update(input(i)); b.update(input(i)); }
    let mut c = a.clone();
    for i in 40..400 {
        let x = input(i);
        a.update(x); b.update(x); c.update(x);
        let (ya, yb, yc) = (a.last().unwrap(), b.last().unwrap(), c.last().unwrap());
        assert_eq!(ya.to_bits(), yb.to_bits(), "twin diverged at step {i}: {ya:e} vs {yb:e}");
        assert_eq!(ya.to_bits(), yc.to_bits(), "clone diverged at step {i}: {ya:e} vs {yc:e}");
    }
}
