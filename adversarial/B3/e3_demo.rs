//! C12 demo: HLNormalizer is invariant under x -> x + b (dyadic offset: bit-exact, the view only forms differences).
use sliding_features::pure_functions::Echo;
use sliding_features::sliding_windows::HLNormalizer;
use sliding_features::View;

fn run(xs: &[f64], b: f64) -> Vec<Option<f64>> {
    let mut v = HLNormalizer::new(Echo::new(), 4);
    xs.iter()
        .map(|x| {
            v.update(*x + b);
            v.last()
        })
        .collect()
}

#[test]
fn hl_normalizer_is_offset_invariant() {
    let xs = [3.0, 1.0, 4.0, 1.5, 5.0, 9.0, 2.0, 6.0, 5.0, 3.5, 5.5, 8.0];
    let base = run(&xs, 0.0);
    for b in [16.0, -4.0, -8.0, -16.0, -64.0] {
        let shifted = run(&xs, b);
        assert_eq!(base, shifted, "outputs changed when every input was shifted by {b}");
    }
}
