//! C12 demo: Vsct is invariant under x -> x + b.
use sliding_features::pure_functions::Echo;
use sliding_features::sliding_windows::Vsct;
use sliding_features::View;

fn run(xs: &[f64], b: f64) -> Vec<f64> {
    let mut v = Vsct::new(Echo::new(), 4);
    let mut out = Vec::new();
    for x in xs {
        v.update(*x + b);
        if let Some(o) = v.last() {
            out.push(o);
        }
    }
    out
}

#[test]
fn vsct_is_offset_invariant() {
    let xs = [1.0, 2.0, 4.0, 3.0, 5.0, 2.0, 6.0, 1.0, 3.0, 7.0, 4.0, 2.0];
    let base = run(&xs, 0.0);
    // 2^44: every shifted sample is exactly representable (ulp 2^-8), the window spread is still ~1
    for b in [1024.0, 1048576.0, 17592186044416.0] {
        let shifted = run(&xs, b);
        assert_eq!(base.len(), shifted.len());
        for (k, (p, q)) in base.iter().zip(shifted.iter()).enumerate() {
            assert!((p - q).abs() < 2e-2, "offset {b}: output {k} moved from {p} to {q}");
        }
    }
}
