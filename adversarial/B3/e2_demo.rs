//! C09 demo: fading memory of Ema. Two streams that become identical from some point on must
//! produce outputs that converge to each other geometrically; the common tail here is the constant 0.
use sliding_features::pure_functions::Echo;
use sliding_features::sliding_windows::Ema;
use sliding_features::View;

fn run(prefix: &[f64], tail_len: usize) -> Vec<f64> {
    let mut ema = Ema::new(Echo::new(), 5);
    let mut out = Vec::new();
    for v in prefix.iter().copied().chain(std::iter::repeat(0.0).take(tail_len)) {
        ema.update(v);
        if let Some(x) = ema.last() {
            out.push(x);
        }
    }
    out
}

#[test]
fn ema_forgets_its_prefix_when_the_tail_is_zero() {
    let a = run(&[5.0, 6.0, 7.0, 8.0, 9.0, 10.0], 300);
    let b = run(&[1.0, -2.0, 1.5, -1.0, 0.5, 2.0], 300);
    assert_eq!(a.len(), b.len());
    let n = a.len();
    // w = 2/6: after 300 common values the difference must be below (2/3)^300 * 10 ~ 1e-52
    for k in n - 50..n {
        assert!(
            (a[k] - b[k]).abs() < 1e-12,
            "step {k}: two streams with a common tail of 300 values still differ: {} vs {}",
            a[k], b[k]
        );
        assert!(a[k].abs() < 1e-12, "the effect of the early values must die out, got {}", a[k]);
    }
}
