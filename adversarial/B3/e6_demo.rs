//! C04 demo: Ema follows e_0 = x_0, e_t = w*x_t + (1-w)*e_(t-1), w = 2/(N+1), for every N >= 1 at every step.
use sliding_features::pure_functions::Echo;
use sliding_features::sliding_windows::Ema;
use sliding_features::View;

#[test]
fn ema_follows_its_recursion_for_every_window_length() {
    for n in [3usize, 20, 64, 100, 128, 250] {
        let w = 2.0 / (n as f64 + 1.0);
        let mut ema = Ema::new(Echo::new(), n);
        let mut e = 0.0;
        for k in 0..(3 * n) {
            let x = 50.0 + 20.0 * (k as f64 * 0.37).sin() + (k % 7) as f64;
            e = if k == 0 { x } else { w * x + (1.0 - w) * e };
            ema.update(x);
            if let Some(got) = ema.last() {
                assert!(
                    (got - e).abs() < 1e-9,
                    "Ema({n}) after {} values reports {got}, the recursion from e_0 = x_0 gives {e}",
                    k + 1
                );
            }
        }
    }
}
