//! C11 demo: SuperSmoother must equal a batch re-evaluation of its difference equation
//! y_t = c1*(x_t + x_(t-1))/2 + b1*y_(t-1) + c3*y_(t-2) (zero initial state) on EVERY finite input,
//! in particular on streams that contain exact zeros.
use sliding_features::pure_functions::Echo;
use sliding_features::sliding_windows::SuperSmoother;
use sliding_features::View;

fn batch(xs: &[f64], n: usize) -> Vec<f64> {
    let wl = n as f64;
    let a1 = (-1.414 * std::f64::consts::PI / wl).exp();
    let b1 = 2.0 * a1 * (1.414 * std::f64::consts::PI / wl).cos();
    let c3 = -a1 * a1;
    let c1 = 1.0 - b1 - c3;
    let (mut y1, mut y2, mut x1) = (0.0, 0.0, 0.0);
    let mut out = Vec::new();
    for &x in xs {
        let y = c1 * (x + x1) / 2.0 + b1 * y1 + c3 * y2;
        out.push(y);
        y2 = y1;
        y1 = y;
        x1 = x;
    }
    out
}

#[test]
fn super_smoother_follows_its_difference_equation_through_zeros() {
    let n = 4;
    // an oscillator-like stream (e.g. the output of a high-pass / a return series): zeros are ordinary samples
    let xs = [1.0, 2.0, 0.0, 3.0, -1.0, 0.0, 0.0, 2.5, 0.0, -2.0, 1.0, 0.0, 4.0, 0.0, 0.0, 0.0, 1.0];
    let want = batch(&xs, n);
    let mut ss = SuperSmoother::new(Echo::new(), n);
    for (k, x) in xs.iter().enumerate() {
        ss.update(*x);
        if k + 1 < n {
            continue;
        }
        let got = ss.last().expect("ready after N values");
        assert!(
            (got - want[k]).abs() <= 1e-4 * (1.0 + want[k].abs()),
            "step {k}: SuperSmoother reports {got}, the difference equation gives {}",
            want[k]
        );
    }
}
