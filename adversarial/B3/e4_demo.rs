//! C11 demo: TrendFlex's internal smoother uses a1 = exp(-8.88442402435/N), b1 = 2*a1*cos(4.44221201218/N);
//! the output equals a batch re-evaluation of the stated equations (exactly in exact arithmetic).
use sliding_features::pure_functions::Echo;
use sliding_features::sliding_windows::TrendFlex;
use sliding_features::View;

fn batch(xs: &[f64], n: usize) -> Vec<f64> {
    let wl = n as f64;
    let a1 = (-8.88442402435 / wl).exp();
    let b1 = 2.0 * a1 * (4.44221201218 / wl).cos();
    let c3 = -a1 * a1;
    let c1 = 1.0 - b1 - c3;
    let mut filts: Vec<f64> = Vec::new();
    let mut ms = 0.0;
    let mut out = Vec::new();
    for (k, &x) in xs.iter().enumerate() {
        let x1 = if k == 0 { x } else { xs[k - 1] };
        let f1 = if k >= 1 { filts[k - 1] } else { 0.0 };
        let f2 = if k >= 2 { filts[k - 2] } else { 0.0 };
        let f = c1 * (x + x1) / 2.0 + b1 * f1 + c3 * f2;
        filts.push(f);
        let lo = (k + 1).saturating_sub(n);
        let d: f64 = filts[lo..=k].iter().map(|g| f - g).sum::<f64>() / wl;
        ms = 0.04 * d * d + 0.96 * ms;
        out.push(if ms > 0.0 { d / ms.sqrt() } else { 0.0 });
    }
    out
}

#[test]
fn trend_flex_uses_the_stated_coefficients() {
    let n = 20;
    let xs: Vec<f64> = (0..200)
        .map(|i| 100.0 + 10.0 * (i as f64 * 0.21).sin() + 3.0 * (i as f64 * 1.3).cos() + 0.05 * i as f64)
        .collect();
    let want = batch(&xs, n);
    let mut tf = TrendFlex::new(Echo::new(), n);
    let mut worst: f64 = 0.0;
    for (k, x) in xs.iter().enumerate() {
        tf.update(*x);
        let got = tf.last().expect("reports from the first value");
        worst = worst.max((got - want[k]).abs());
    }
    // f64 rounding of the two evaluation orders stays below 1e-9; a different coefficient does not
    assert!(worst < 1e-9, "TrendFlex deviates from the stated difference equations by {worst}");
}
