// C05: Rsi reports 100*G/(G+L), and 100 when L = 0 (a flat window has G = L = 0).
use sliding_features::{pure_functions::Echo, sliding_windows::Rsi, View};
fn main() {
    let mut rsi = Rsi::new(Echo::new(), 4);
    for x in [3.0, 5.0, 4.0, 7.0, 7.0, 7.0, 7.0, 7.0, 7.0] {
        rsi.update(x);
    }
    let got = rsi.last().unwrap();
    if got == 100.0 { println!("PASS rsi(flat window) = {got}"); } else { println!("FAIL rsi(flat window) = {got}, expected 100"); std::process::exit(1); }
}
