// C14: Subtract reports a-b of its children's current outputs, bit-exactly.
use sliding_features::{pure_functions::{Constant, Echo, Subtract}, View};
fn main() {
    let mut v = Subtract::new(Echo::new(), Constant::new(1.0_f64));
    let mut bad = 0;
    for x in [3.0, 1.0 + 1e-16, 1.0 + 2.0_f64.powi(-52), 1.0 - 2.0_f64.powi(-53), 0.5] {
        v.update(x);
        let want = x - 1.0;
        let got = v.last().unwrap();
        if got.to_bits() != want.to_bits() { println!("x={x:e}: got {got:e}, want {want:e}"); bad += 1; }
    }
    if bad == 0 { println!("PASS"); } else { println!("FAIL ({bad} mismatches)"); std::process::exit(1); }
}
