// C14: LTE reports min(child, clip) of the child's CURRENT output; no earlier value can influence it.
use sliding_features::{pure_functions::{Echo, LTE}, View};
fn main() {
    let clip = 5.0e6_f64;
    let mut v = LTE::new(Echo::new(), clip);
    let mut bad = 0;
    for x in [10.0, 2.0e6, -3.0e6, 7.0e6, 12.0] {
        v.update(x);
        let want = if x <= clip { x } else { clip };
        let got = v.last().unwrap();
        if got.to_bits() != want.to_bits() { println!("x={x:e}: got {got:e}, want {want:e}"); bad += 1; }
    }
    if bad == 0 { println!("PASS"); } else { println!("FAIL ({bad} mismatches)"); std::process::exit(1); }
}
