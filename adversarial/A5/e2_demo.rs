// C14: GTE reports max(child, clip) bit-exactly.
use sliding_features::{pure_functions::{Echo, GTE}, View};
fn main() {
    let clip = 1.0_f64;
    let mut v = GTE::new(Echo::new(), clip);
    let mut bad = 0;
    for x in [2.0, 0.5, 1.0 + 1e-9, 1.0 + 4e-9, 1.000001] {
        v.update(x);
        let want = if x >= clip { x } else { clip };
        let got = v.last().unwrap();
        if got.to_bits() != want.to_bits() { println!("x={x:e}: got {got:e}, want {want:e}"); bad += 1; }
    }
    if bad == 0 { println!("PASS"); } else { println!("FAIL ({bad} mismatches)"); std::process::exit(1); }
}
