//! C06 demo: NoiseEliminationTechnology equals Kendall's tau between values and time over all n(n-1)/2 pairs of the values
//! currently in its window (ties contribute 0); in particular it is +1 on a strictly increasing window.
//! The reference below is evaluated from the delivered values only (the last min(t, N) of them).
//! cargo run --offline --example e7_demo   -> PASS / exit 0 on HEAD, FAIL / exit 1 with the patch.
use sliding_features::pure_functions::Echo;
use sliding_features::sliding_windows::NoiseEliminationTechnology;
use sliding_features::View;

fn tau(w: &[f64]) -> f64 {
    let n = w.len();
    let mut s = 0.0;
    for i in 0..n {
        for j in 0..i {
            // i is newer than j
            if w[i] > w[j] {
                s += 1.0
            } else if w[i] < w[j] {
                s -= 1.0
            }
        }
    }
    s / (0.5 * n as f64 * (n as f64 - 1.0))
}

fn main() {
    let mut bad = Vec::new();
    for n in [3usize, 5, 8] {
        let mut net = NoiseEliminationTechnology::new(Echo::new(), n);
        let mut xs: Vec<f64> = Vec::new();
        let mut r: u64 = 0x13198A2E03707344;
        for t in 0..60 {
            r = r.wrapping_mul(6364136223846793005).wrapping_add(1442695040888963407);
            // a strictly increasing start, then a rough stretch
            let x = if t < 6 { 10.0 + t as f64 } else { ((r >> 40) % 17) as f64 };
            xs.push(x);
            net.update(x);
            if xs.len() < 2 {
                continue;
            }
            let w = &xs[xs.len().saturating_sub(n)..];
            let want = tau(w);
            let got = net.last().unwrap();
            if (got - want).abs() > 1e-12 {
                bad.push(format!("NET({n}) after {} values {:?}..: {got:.4}, Kendall's tau of the window is {want:.4}", t + 1, &w[..2.min(w.len())]));
            }
        }
    }
    if bad.is_empty() {
        println!("PASS: NET equals Kendall's tau of the values in its window at every step");
    } else {
        for b in bad.iter().take(3) {
            println!("  {b}");
        }
        println!("FAIL: {} steps deviate", bad.len());
        std::process::exit(1);
    }
}
