//! Checksum of the outputs (bit patterns, None included) of the views touched by the false-alarm patches, over several
//! thousand pseudo-random inputs (smooth, rough, tied, constant, zero-crossing streams), several window lengths, f64 and f32.
//! Identical output on HEAD and with a patch = bit-identical behaviour on this corpus.
use sliding_features::pure_functions::Echo;
use sliding_features::sliding_windows::*;
use sliding_features::View;

struct H(u64);
impl H {
    fn add(&mut self, x: u64) {
        for b in x.to_le_bytes() {
            self.0 ^= b as u64;
            self.0 = self.0.wrapping_mul(0x100000001b3);
        }
    }
}

fn streams() -> Vec<Vec<f64>> {
    let mut out = Vec::new();
    let mut r: u64 = 0x9E3779B97F4A7C15;
    let mut next = move || {
        r = r.wrapping_mul(6364136223846793005).wrapping_add(1442695040888963407);
        ((r >> 11) as f64) / ((1u64 << 53) as f64)
    };
    // rough, positive
    out.push((0..1500).map(|_| 1.0 + 99.0 * next()).collect());
    // random walk crossing zero
    let mut l = 0.0;
    out.push((0..1500).map(|_| { l += next() - 0.5; l }).collect());
    // many ties / small integer grid, zeros included
    out.push((0..1500).map(|_| (next() * 5.0).floor() - 2.0).collect());
    // constant stretches after volatile ones
    out.push((0..1500).map(|i| if (i / 40) % 2 == 0 { 7.25 } else { 10.0 * next() }).collect());
    // monotone ramps up and down
    out.push((0..600).map(|i| if i < 300 { i as f64 * 0.5 } else { (600 - i) as f64 * 0.5 }).collect());
    out
}

macro_rules! run {
    ($h:expr, $ty:ty, $mk:expr) => {{
        for s in streams() {
            let mut v = $mk;
            // before the first update
            match v.last() { Some(x) => $h.add((x as $ty).to_bits() as u64), None => $h.add(0xDEAD) }
            for x in s {
                v.update(x as $ty);
                match v.last() { Some(x) => $h.add(x.to_bits() as u64), None => $h.add(0xDEAD) }
            }
        }
    }};
}

fn main() {
    let mut total = H(0xcbf29ce484222325);
    for n in [1usize, 2, 3, 4, 5, 8, 16, 33] {
        let mut h = H(0xcbf29ce484222325);
        run!(h, f64, CenterOfGravity::new(Echo::new(), n));
        run!(h, f32, CenterOfGravity::new(Echo::new(), n));
        run!(h, f64, TrendFlex::new(Echo::new(), n));
        run!(h, f32, TrendFlex::new(Echo::new(), n));
        run!(h, f64, ReFlex::new(Echo::new(), n));
        run!(h, f64, Ema::new(Echo::new(), n));
        run!(h, f32, Ema::new(Echo::new(), n));
        run!(h, f64, Ema::with_alpha(Echo::new(), n, 0.7));
        run!(h, f64, HLNormalizer::new(Echo::new(), n));
        run!(h, f32, HLNormalizer::new(Echo::new(), n));
        run!(h, f64, Min::new(Echo::new(), n));
        run!(h, f64, Max::new(Echo::new(), n));
        run!(h, f32, Max::new(Echo::new(), n));
        run!(h, f64, Sma::new(Echo::new(), n));
        run!(h, f64, Alma::new(Echo::new(), n));
        run!(h, f64, NoiseEliminationTechnology::new(Echo::new(), n));
        run!(h, f64, CorrelationTrendIndicator::new(Echo::new(), n));
        if n >= 3 {
            run!(h, f64, PolarizedFractalEfficiency::new(Echo::new(), Ema::new(Echo::new(), 4), n));
            run!(h, f64, CyberCycle::new(Echo::new(), n));
        }
        // chained: the touched views over a non-trivial inner view
        run!(h, f64, CenterOfGravity::new(Sma::new(Echo::new(), 3), n));
        run!(h, f64, TrendFlex::new(Ema::new(Echo::new(), 3), n));
        run!(h, f64, HLNormalizer::new(Sma::new(Echo::new(), 2), n));
        run!(h, f64, Max::new(Min::new(Echo::new(), 2), n));
        println!("N={n:<3} {:016x}", h.0);
        total.add(h.0);
    }
    for g in [0.0f64, 0.2, 0.5, 0.8, 0.95] {
        let mut h = H(0xcbf29ce484222325);
        run!(h, f64, LaguerreFilter::new(Echo::new(), g));
        run!(h, f32, LaguerreFilter::new(Echo::new(), g as f32));
        run!(h, f64, LaguerreFilter::new(Sma::new(Echo::new(), 3), g));
        println!("g={g:<4} {:016x}", h.0);
        total.add(h.0);
    }
    println!("TOTAL {:016x}", total.0);
}
