//! C11 demo (PolarizedFractalEfficiency): at every step the output equals the supplied moving average of the signed ratio
//! of sqrt((x_t - x_(t-N+1))^2 + N^2) to the summed sqrt(d^2 + 1) over the window's N-2 most recent steps (negative when the
//! last step is down), re-evaluated here from the complete input history.
//! cargo run --offline --example e8_demo   -> PASS / exit 0 on HEAD, FAIL / exit 1 with the patch.
use sliding_features::pure_functions::Echo;
use sliding_features::sliding_windows::{Ema, PolarizedFractalEfficiency};
use sliding_features::View;

fn main() {
    let mut worst = 0.0f64;
    for n in [4usize, 8, 16] {
        let mut pfe = PolarizedFractalEfficiency::new(Echo::new(), Ema::new(Echo::new(), 3), n);
        let mut reference_ma = Ema::new(Echo::new(), 3);
        let mut xs: Vec<f64> = Vec::new();
        let mut r: u64 = 0xA4093822299F31D0;
        let mut level = 50.0;
        for t in 0..400 {
            r = r.wrapping_mul(6364136223846793005).wrapping_add(1442695040888963407);
            let u = ((r >> 11) as f64) / ((1u64 << 53) as f64) - 0.5;
            // volatile and quiet stretches alternate
            level += if (t / 50) % 2 == 0 { 8.0 * u } else { 0.02 * u };
            xs.push(level);
            pfe.update(level);
            if xs.len() >= n {
                let t = xs.len() - 1;
                let mut s = 0.0;
                for i in 0..n - 2 {
                    s += ((xs[t - i] - xs[t - i - 1]).powi(2) + 1.0).sqrt();
                }
                let mut p = ((xs[t] - xs[t + 1 - n]).powi(2) + (n as f64).powi(2)).sqrt() / s;
                if xs[t] < xs[t - 1] {
                    p = -p;
                }
                reference_ma.update(p);
            }
            match (pfe.last(), reference_ma.last()) {
                (Some(a), Some(b)) => worst = worst.max((a - b).abs()),
                (None, None) => {}
                other => {
                    println!("FAIL: readiness differs: {other:?}");
                    std::process::exit(1);
                }
            }
        }
    }
    if worst < 1e-9 {
        println!("PASS: PFE equals the moving average of the stated signed ratio (max dev {worst:.2e})");
    } else {
        println!("FAIL: PFE deviates from the stated difference equation by up to {worst:.4}");
        std::process::exit(1);
    }
}
