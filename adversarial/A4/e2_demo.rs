//! C04 demo: Alma is the normalised positive Gaussian-kernel weighted mean of its window with centre
//! offset*(N+1) and width N/sigma (defaults sigma = 6, offset = 0.85; a value's weight is attached when it enters the
//! window, exp(-(k - m)^2 / (2 s^2)) with k the number of values already in the window, m = offset*(N+1), s = N/sigma).
//! The demo re-evaluates that definition from the complete history and compares it with Alma::new at every step.
//! cargo run --offline --example e2_demo   -> PASS / exit 0 on HEAD, FAIL / exit 1 with the patch.
use sliding_features::pure_functions::Echo;
use sliding_features::sliding_windows::Alma;
use sliding_features::View;

fn main() {
    let mut worst = 0.0f64;
    for n in [2usize, 3, 5, 9, 16] {
        let (sigma, offset) = (6.0f64, 0.85f64);
        let m = offset * (n as f64 + 1.0);
        let s = n as f64 / sigma;
        let mut alma = Alma::new(Echo::new(), n);
        let mut win: Vec<(f64, f64)> = Vec::new(); // (value, weight attached at insertion)
        let mut r: u64 = 0x243F6A8885A308D3;
        for _ in 0..300 {
            r = r.wrapping_mul(6364136223846793005).wrapping_add(1442695040888963407);
            let x = ((r >> 11) as f64) / ((1u64 << 53) as f64) * 20.0 - 10.0;
            if win.len() >= n {
                win.remove(0);
            }
            let k = win.len() as f64;
            let w = (-(k - m).powi(2) / (2.0 * s * s)).exp();
            win.push((x, w));
            let want = win.iter().map(|(v, w)| v * w).sum::<f64>() / win.iter().map(|(_, w)| w).sum::<f64>();
            alma.update(x);
            let got = alma.last().unwrap();
            worst = worst.max((got - want).abs());
        }
    }
    if worst < 1e-9 {
        println!("PASS: Alma::new equals the Gaussian-kernel mean with centre 0.85*(N+1), width N/6 (max dev {worst:.3e})");
    } else {
        println!("FAIL: Alma::new deviates from the stated kernel mean by up to {worst:.6}");
        std::process::exit(1);
    }
}
