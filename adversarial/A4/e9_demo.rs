//! C15 demo (no panic): every constructed view accepts every finite in-domain stream without panicking, "with debug
//! assertions enabled as well as disabled".
//!     cargo run --offline --release --example e9_demo
//! prints PASS / exits 0 on HEAD; with the patch an optimised build panics (index out of bounds in CyberCycle::update):
//! the demo catches the panic, prints FAIL and exits 1.  (A debug build passes with and without the patch.)
use sliding_features::pure_functions::Echo;
use sliding_features::sliding_windows::CyberCycle;
use sliding_features::View;

fn main() {
    let profile = if cfg!(debug_assertions) { "debug" } else { "release" };
    let mut failures = 0;
    for n in [3usize, 5, 8, 16] {
        let r = std::panic::catch_unwind(|| {
            let mut cc = CyberCycle::new(Echo::new(), n);
            for t in 0..10 * n {
                cc.update(10.0 + ((t * 37) % 11) as f64);
                let _ = cc.last();
            }
        });
        if r.is_err() {
            println!("  CyberCycle({n}) panicked on a finite stream ({profile} build)");
            failures += 1;
        }
    }
    if failures == 0 {
        println!("PASS ({profile} build): CyberCycle accepted every stream without panicking");
    } else {
        println!("FAIL ({profile} build): {failures} window lengths panic");
        std::process::exit(1);
    }
}
