//! C18 demo (bounded memory): after its window has filled, the heap memory owned by a view does not grow, however many
//! further values are fed.  (Also C03: two histories that agree on their last N values give the same CTI.)
//! The properties hold for the crate as shipped, i.e. for optimised builds as well:
//!     cargo run --offline --release --example e5_demo
//! prints PASS / exits 0 on HEAD and FAIL / exits 1 with the patch (a debug build still passes: the defect only
//! exists when debug assertions are compiled out).
use sliding_features::pure_functions::Echo;
use sliding_features::sliding_windows::CorrelationTrendIndicator;
use sliding_features::View;
use std::alloc::{GlobalAlloc, Layout, System};
use std::sync::atomic::{AtomicIsize, Ordering};

struct Counting;
static LIVE: AtomicIsize = AtomicIsize::new(0);
unsafe impl GlobalAlloc for Counting {
    unsafe fn alloc(&self, l: Layout) -> *mut u8 {
        LIVE.fetch_add(l.size() as isize, Ordering::Relaxed);
        System.alloc(l)
    }
    unsafe fn dealloc(&self, p: *mut u8, l: Layout) {
        LIVE.fetch_sub(l.size() as isize, Ordering::Relaxed);
        System.dealloc(p, l)
    }
    unsafe fn realloc(&self, p: *mut u8, l: Layout, new: usize) -> *mut u8 {
        LIVE.fetch_add(new as isize - l.size() as isize, Ordering::Relaxed);
        System.realloc(p, l, new)
    }
}
#[global_allocator]
static A: Counting = Counting;

fn main() {
    const N: usize = 16;
    let mut cti = CorrelationTrendIndicator::new(Echo::new(), N);
    let f = |t: usize| 50.0 + ((t * 7919) % 101) as f64 * 0.37;
    for t in 0..4 * N {
        cti.update(f(t));
    }
    let before = LIVE.load(Ordering::Relaxed);
    for t in 4 * N..200_000 {
        cti.update(f(t));
    }
    let grown = LIVE.load(Ordering::Relaxed) - before;

    // finite memory: a different prefix, the same last N values
    let mut other = CorrelationTrendIndicator::new(Echo::new(), N);
    for t in 0..3 * N {
        other.update(1000.0 - t as f64);
    }
    for t in 200_000 - N..200_000 {
        other.update(f(t));
    }
    let (a, b) = (cti.last().unwrap(), other.last().unwrap());

    let profile = if cfg!(debug_assertions) { "debug" } else { "release" };
    if grown <= 0 && (a - b).abs() < 1e-9 {
        println!("PASS ({profile} build): no heap growth after the window filled; CTI depends on the last {N} values only");
    } else {
        println!("FAIL ({profile} build): heap grew by {grown} bytes while feeding 200000 values; CTI = {a} vs {b} for histories with the same last {N} values");
        std::process::exit(1);
    }
}
