//! C13 / C08 demo (LnReturn): after any number of updates LnReturn equals ln(x_t / x_(t-1)); it reports nothing before the
//! 2nd value.  This holds for every way the crate offers to build the view, `LnReturn::default()` included.
//! cargo run --offline --example e6_demo   -> PASS / exit 0 on HEAD, FAIL / exit 1 with the patch.
use sliding_features::pure_functions::Echo;
use sliding_features::rolling::LnReturn;
use sliding_features::View;

fn check(name: &str, mut v: LnReturn<f64, Echo<f64>>, bad: &mut Vec<String>) {
    let xs = [100.0, 110.0, 99.0, 99.0, 250.0];
    if let Some(o) = v.last() {
        bad.push(format!("{name}: reports {o} before any value"));
    }
    for (t, x) in xs.iter().enumerate() {
        v.update(*x);
        let want = if t == 0 { None } else { Some((xs[t] / xs[t - 1]).ln()) };
        let got = v.last();
        let ok = match (got, want) {
            (None, None) => true,
            (Some(a), Some(b)) => (a - b).abs() < 1e-12,
            _ => false,
        };
        if !ok {
            bad.push(format!("{name}: after {} value(s) reports {got:?}, ln(x_t/x_(t-1)) is {want:?}", t + 1));
        }
    }
}

fn main() {
    let mut bad = Vec::new();
    check("LnReturn::new(Echo::new())", LnReturn::new(Echo::new()), &mut bad);
    check("LnReturn::default()", LnReturn::default(), &mut bad);
    if bad.is_empty() {
        println!("PASS: LnReturn is ln(x_t/x_(t-1)) from the 2nd value on, however it is constructed");
    } else {
        for b in &bad {
            println!("  {b}");
        }
        println!("FAIL");
        std::process::exit(1);
    }
}
