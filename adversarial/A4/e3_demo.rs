//! C08 demo (warm-up lengths): Sma reports nothing for fewer than N delivered values and reports, from the N-th value
//! on, the mean of the last N values.
//! cargo run --offline --example e3_demo   -> PASS / exit 0 on HEAD, FAIL / exit 1 with the patch.
use sliding_features::pure_functions::Echo;
use sliding_features::sliding_windows::Sma;
use sliding_features::View;

fn main() {
    let mut problems = Vec::new();
    for n in [2usize, 3, 5, 16] {
        let mut sma = Sma::new(Echo::new(), n);
        let xs: Vec<f64> = (0..3 * n).map(|i| 10.0 + ((i * 7919) % 13) as f64).collect();
        for (t, x) in xs.iter().enumerate() {
            sma.update(*x);
            let got = sma.last();
            if t + 1 < n {
                if let Some(v) = got {
                    problems.push(format!("Sma({n}) reports {v} after only {} value(s)", t + 1));
                }
            } else {
                let want = xs[t + 1 - n..=t].iter().sum::<f64>() / n as f64;
                match got {
                    Some(v) if (v - want).abs() < 1e-9 => {}
                    other => problems.push(format!("Sma({n}) step {}: {other:?}, mean of the last {n} values is {want}", t + 1)),
                }
            }
        }
    }
    if problems.is_empty() {
        println!("PASS: Sma(N) is silent for N-1 values and then reports the mean of the last N");
    } else {
        for p in problems.iter().take(4) {
            println!("  {p}");
        }
        println!("FAIL: {} violations of the documented warm-up / window", problems.len());
        std::process::exit(1);
    }
}
