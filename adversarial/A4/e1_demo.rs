//! C12 demo (CenterOfGravity is unchanged by x -> a*x, a > 0).
//! Feeds a positive stream x and the same stream scaled by a = 2^-60 (a power of two, so on a correct
//! implementation the two outputs are bit-identical) and compares the outputs at every step.
//! cargo run --offline --example e1_demo   -> prints PASS / exits 0 on HEAD, FAIL / exits 1 with the patch.
use sliding_features::pure_functions::Echo;
use sliding_features::sliding_windows::CenterOfGravity;
use sliding_features::View;

fn main() {
    let a = (2.0f64).powi(-60);
    let mut bad = 0usize;
    for n in [1usize, 2, 3, 5, 8, 16] {
        let mut c1 = CenterOfGravity::new(Echo::new(), n);
        let mut c2 = CenterOfGravity::new(Echo::new(), n);
        let mut s: u64 = 0x9E3779B97F4A7C15;
        for t in 0..400 {
            s = s.wrapping_mul(6364136223846793005).wrapping_add(1442695040888963407);
            let x = 1.0 + ((s >> 11) as f64) / ((1u64 << 53) as f64) * 99.0; // in [1, 100)
            c1.update(x);
            c2.update(a * x);
            let (o1, o2) = (c1.last().unwrap(), c2.last().unwrap());
            if o1.to_bits() != o2.to_bits() {
                if bad < 3 {
                    println!("N={n} step {t}: CoG(x) = {o1:.6}, CoG(2^-60 * x) = {o2:.6}");
                }
                bad += 1;
            }
        }
    }
    if bad == 0 {
        println!("PASS: CenterOfGravity is invariant under x -> 2^-60 * x");
    } else {
        println!("FAIL: {bad} outputs changed when the input was rescaled");
        std::process::exit(1);
    }
}
