//! C11 demo: at every step TrendFlex equals a batch re-evaluation, from the complete input history, of its defining
//! difference equations: the 2-pole smoother with a1 = exp(-8.88442402435/N), b1 = 2 a1 cos(4.44221201218/N), c3 = -a1^2,
//! c1 = 1 - b1 - c3 (first-value / zero initial state, window of N filter values including the current one), the mean
//! deviation of the current filter value from the filter values in the window, divided by the root of its 0.04/0.96 leaky
//! mean square.
//! cargo run --offline --example e4_demo   -> PASS / exit 0 on HEAD, FAIL / exit 1 with the patch.
use sliding_features::pure_functions::Echo;
use sliding_features::sliding_windows::TrendFlex;
use sliding_features::View;

fn batch(xs: &[f64], n: usize) -> f64 {
    let nf = n as f64;
    let a1 = (-8.88442402435 / nf).exp();
    let b1 = 2.0 * a1 * (4.44221201218 / nf).cos();
    let c3 = -a1 * a1;
    let c1 = 1.0 - b1 - c3;
    let mut filts: Vec<f64> = Vec::new(); // window of the last N filter values
    let (mut f1, mut f2, mut have) = (0.0, 0.0, 0usize);
    let mut ms = 0.0;
    let mut out = 0.0;
    for (t, x) in xs.iter().enumerate() {
        let prev = if t == 0 { *x } else { xs[t - 1] };
        if filts.len() >= n {
            filts.remove(0);
            have = filts.len();
            // the recursion reads the two newest values still in the window
            f1 = if have >= 1 { filts[have - 1] } else { 0.0 };
            f2 = if have >= 2 { filts[have - 2] } else { 0.0 };
        }
        let filt = c1 * (x + prev) / 2.0 + if have >= 1 { b1 * f1 } else { 0.0 } + if have >= 2 { c3 * f2 } else { 0.0 };
        filts.push(filt);
        have = filts.len();
        f2 = if have >= 2 { filts[have - 2] } else { 0.0 };
        f1 = filts[have - 1];
        let d: f64 = filts.iter().rev().map(|f| filt - f).sum::<f64>() / nf;
        ms = 0.04 * d * d + 0.96 * ms;
        out = if ms > 0.0 { d / ms.sqrt() } else { 0.0 };
    }
    out
}

fn main() {
    let mut worst = 0.0f64;
    for n in [3usize, 5, 8, 16] {
        let mut tf = TrendFlex::new(Echo::new(), n);
        let mut xs = Vec::new();
        let mut r: u64 = 0xB7E151628AED2A6B;
        let mut level = 100.0;
        for _ in 0..200 {
            r = r.wrapping_mul(6364136223846793005).wrapping_add(1442695040888963407);
            level += ((r >> 11) as f64) / ((1u64 << 53) as f64) * 2.0 - 1.0;
            xs.push(level);
            tf.update(level);
            let got = tf.last().unwrap();
            let want = batch(&xs, n);
            worst = worst.max((got - want).abs());
        }
    }
    if worst < 1e-9 {
        println!("PASS: TrendFlex equals the batch re-evaluation of its difference equations (max dev {worst:.2e})");
    } else {
        println!("FAIL: TrendFlex deviates from its defining equations by up to {worst:.4}");
        std::process::exit(1);
    }
}
