//! C02 demo: Cumulative(N) is the sum of the N most recent values (of all values while fewer than N were seen).
use sliding_features::pure_functions::Echo;
use sliding_features::sliding_windows::Cumulative;
use sliding_features::View;

#[test]
fn cumulative_is_the_window_sum() {
    // the concrete case: Cumulative(3) on 1, 2, 3, 4, 5 must report 1, 3, 6, 9, 12
    let mut c = Cumulative::new(Echo::new(), 3);
    let want = [1.0, 3.0, 6.0, 9.0, 12.0];
    for (x, w) in [1.0, 2.0, 3.0, 4.0, 5.0].iter().zip(want.iter()) {
        c.update(*x);
        assert_eq!(c.last(), Some(*w), "after feeding {x}");
    }
    // and against a batch reference on a deterministic stream, several window lengths
    for n in [1usize, 2, 5, 16] {
        let mut c = Cumulative::new(Echo::new(), n);
        let xs: Vec<f64> = (0..200).map(|i| (((i * 37 + 11) % 101) as f64 - 50.0) * 0.25).collect();
        for t in 0..xs.len() {
            c.update(xs[t]);
            let lo = (t + 1).saturating_sub(n);
            let reference: f64 = xs[lo..=t].iter().sum();
            let got = c.last().expect("reports from the first value");
            assert!((got - reference).abs() <= 1e-9, "N={n} t={t}: got {got}, window sum {reference}");
        }
    }
}
