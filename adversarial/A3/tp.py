#!/usr/bin/env python3
"""like try_patch but keeps the evidence: tp.py patch Cxx [grep-pattern]"""
import os, shutil, subprocess, sys, tempfile, json
patch, prop = sys.argv[1], sys.argv[2]
pat = sys.argv[3] if len(sys.argv) > 3 else None
d = tempfile.mkdtemp(prefix='rt3a_mut_'); ev = tempfile.mkdtemp(prefix='rt3a_ev_')
src = os.path.join(d, 'repo')
subprocess.run(['rsync','-a','--exclude','target','--exclude','.git','--exclude','img','/repo/',src+'/'],check=True)
if patch != 'none':
    r = subprocess.run(['git','apply','--whitespace=nowarn',os.path.abspath(patch)],cwd=src,capture_output=True,text=True)
    if r.returncode: print('patch fails', r.stderr); sys.exit(2)
tgt = os.path.join(d,'target')
subprocess.run(['cp','-r','/verif/.cache/target',tgt],stderr=subprocess.DEVNULL)
env = dict(os.environ, SFA_EVIDENCE_DIR=ev, SFA_TARGET_DIR=tgt)
r = subprocess.run(['/verif/check', prop, '--src', src], capture_output=True, text=True, env=env)
print('rc', r.returncode)
for l in r.stdout.splitlines():
    if l.startswith('  '+prop+':') or 'VIOLATION' in l: print(l[:400])
if pat:
    for f in os.listdir(ev):
        s = open(os.path.join(ev,f)).read()
        try:
            j = json.loads(s)
        except Exception: continue
        def walk(x):
            if isinstance(x, dict):
                t = json.dumps(x)
                if pat in t and not any(isinstance(v,(dict,list)) and pat in json.dumps(v) for v in x.values()):
                    print(t[:600])
                for v in x.values(): walk(v)
            elif isinstance(x, list):
                for v in x: walk(v)
        walk(j)
shutil.rmtree(d, ignore_errors=True); shutil.rmtree(ev, ignore_errors=True)
