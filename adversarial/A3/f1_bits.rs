use sliding_features::pure_functions::Echo;
use sliding_features::sliding_windows::{Ema, PolarizedFractalEfficiency, Sma};
use sliding_features::View;
#[test]
fn bits() {
    let mut h: u64 = 0xcbf29ce484222325;
    for n in [3usize, 4, 5, 9, 16, 33] {
        let mut a = PolarizedFractalEfficiency::new(Echo::new(), Ema::new(Echo::new(), 5), n);
        let mut b = PolarizedFractalEfficiency::new(Sma::new(Echo::new(), 3), Sma::new(Echo::new(), 2), n);
        let mut x = 100.0f64;
        for i in 0..3000u64 {
            let r = ((i.wrapping_mul(6364136223846793005).wrapping_add(1442695040888963407) >> 33) % 2001) as f64 / 1000.0 - 1.0;
            x += r * (1.0 + (i % 7) as f64);
            a.update(x); b.update(x * 0.5 - 3.0);
            for v in [a.last(), b.last()] {
                let bits = v.map(|y| y.to_bits()).unwrap_or(7);
                h = (h ^ bits).wrapping_mul(0x100000001b3);
            }
        }
    }
    println!("CHECKSUM {h:016x}");
}
