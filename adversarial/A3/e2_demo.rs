//! C05 demo: Rsi = 100*G/(G+L) with G / L the sums of the positive / absolute non-positive changes d_i = x_i - x_(i-1)
//! over the N most recent values (N changes, i.e. the change INTO the oldest window value counts as well).
use sliding_features::pure_functions::Echo;
use sliding_features::sliding_windows::Rsi;
use sliding_features::View;

fn reference(xs: &[f64], t: usize, n: usize) -> f64 {
    // changes d_i for the n most recent values x_(t-n+1) ..= x_t ; d = 0 for the very first value of the stream
    let (mut g, mut l) = (0.0f64, 0.0f64);
    for i in (t + 1 - n)..=t {
        let d: f64 = if i == 0 { 0.0 } else { xs[i] - xs[i - 1] };
        if d > 0.0 { g += d } else { l += f64::abs(d) }
    }
    if l == 0.0 { 100.0 } else { 100.0 * g / (g + l) }
}

#[test]
fn rsi_counts_the_change_into_the_oldest_window_value() {
    // 10, 1, 2, 3 with N = 3: the window is {1, 2, 3}; its changes are -9, +1, +1  =>  100 * 2 / 11
    let xs = [10.0, 1.0, 2.0, 3.0];
    let mut rsi = Rsi::new(Echo::new(), 3);
    for x in xs { rsi.update(x); }
    let got: f64 = rsi.last().expect("reports from the N-th value");
    assert!((got - 100.0 * 2.0 / 11.0).abs() < 1e-9, "Rsi(3) on 10,1,2,3 = {got}, expected 18.18..");

    for n in [2usize, 3, 7, 14] {
        let xs: Vec<f64> = (0..300).map(|i| 100.0 + (((i * 53 + 7) % 97) as f64 - 48.0) * 0.5).collect();
        let mut rsi = Rsi::new(Echo::new(), n);
        for t in 0..xs.len() {
            rsi.update(xs[t]);
            if t + 1 >= n {
                let got = rsi.last().expect("reports from the N-th value");
                let want = reference(&xs, t, n);
                assert!((got - want).abs() < 1e-6, "N={n} t={t}: got {got}, reference {want}");
            }
        }
    }
}
