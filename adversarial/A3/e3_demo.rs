//! C08 / C15 demo: for every window length the constructor ACCEPTS, every reported value is finite and no
//! update panics. (On the pristine tree PolarizedFractalEfficiency::new rejects window_len <= 2, so nothing is claimed.)
use sliding_features::pure_functions::Echo;
use sliding_features::sliding_windows::{PolarizedFractalEfficiency, Sma};
use sliding_features::View;

#[test]
fn pfe_is_finite_for_every_accepted_window_length() {
    for n in 1usize..=6 {
        let built = std::panic::catch_unwind(|| PolarizedFractalEfficiency::new(Echo::<f64>::new(), Sma::new(Echo::new(), 1), n));
        let Ok(mut pfe) = built else { continue }; // constructor rejects this window length: outside the property
        for i in 0..50 {
            let x = 100.0 + ((i * 7) % 11) as f64;
            pfe.update(x); // must not panic (debug assertions are on in `cargo test`)
            if let Some(v) = pfe.last() {
                assert!(v.is_finite(), "PFE({n}) reported {v} at update {}", i + 1);
            }
        }
    }
}
