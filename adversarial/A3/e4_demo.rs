//! C02 demo: WelfordOnline's mean() / last() are the mean and the sample standard deviation of the N most recent
//! values; before N values were delivered the same formulas apply to all values seen so far.
use sliding_features::pure_functions::Echo;
use sliding_features::sliding_windows::WelfordOnline;
use sliding_features::View;

#[test]
fn welford_mean_and_std_while_the_window_fills() {
    let mut w = WelfordOnline::new(Echo::new(), 4);
    w.update(1.0);
    w.update(2.0);
    let m: f64 = w.mean();
    assert!((m - 1.5).abs() < 1e-12, "mean of 1, 2 reported as {}", w.mean());
    w.update(3.0);
    // N-1 = 3 values delivered: last() reports, and it is the sample std of {1, 2, 3} = 1
    let s: f64 = w.last().expect("reports from N-1 values");
    assert!((s - 1.0).abs() < 1e-12, "sample std of 1, 2, 3 reported as {s}");

    for n in [2usize, 3, 8] {
        let xs: Vec<f64> = (0..120).map(|i| (((i * 29 + 3) % 61) as f64 - 30.0) * 0.5).collect();
        let mut w = WelfordOnline::new(Echo::new(), n);
        for t in 0..xs.len() {
            w.update(xs[t]);
            let lo = (t + 1).saturating_sub(n);
            let win = &xs[lo..=t];
            let mean = win.iter().sum::<f64>() / win.len() as f64;
            assert!((w.mean() - mean).abs() < 1e-9, "N={n} t={t}: mean {} vs {mean}", w.mean());
            if win.len() >= 2 {
                if let Some(s) = w.last() {
                    let var = win.iter().map(|x| (x - mean).powi(2)).sum::<f64>() / (win.len() as f64 - 1.0);
                    assert!((s - var.sqrt()).abs() < 1e-9, "N={n} t={t}: std {s} vs {}", var.sqrt());
                }
            }
        }
    }
}
