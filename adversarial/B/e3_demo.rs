//! C08 (and C15) demo (e3): "every value ever returned is finite (never NaN or infinite) for finite
//! in-domain input", including degenerate (flat) windows; and, for C15, no internal finiteness
//! assertion fires on constant streams / streams with ties.
//!
//! HLNormalizer over the last N values is 2*(x - min)/(max - min) - 1, and 0 on a flat window
//! (reference computed from that definition).

use sliding_features::{View, pure_functions::Echo, sliding_windows::HLNormalizer};

fn reference(w: &[f64]) -> f64 {
    let min = w.iter().cloned().fold(f64::INFINITY, f64::min);
    let max = w.iter().cloned().fold(f64::NEG_INFINITY, f64::max);
    let x = *w.last().unwrap();
    if max == min {
        return 0.0;
    }
    -1.0 + 2.0 * (x - min) / (max - min)
}

fn check(series: &[f64], n: usize, label: &str) {
    let mut hl = HLNormalizer::new(Echo::new(), n);
    for (t, x) in series.iter().enumerate() {
        hl.update(*x); // C15: must not panic (debug finiteness assertion)
        let got = hl.last().expect("HLNormalizer reports from the first value on");
        assert!(got.is_finite(), "{label}: N={n} t={t}: HLNormalizer returned {got} (not finite)");
        let lo = (t + 1).saturating_sub(n);
        let want = reference(&series[lo..=t]);
        assert!(
            (got - want).abs() <= 1e-12,
            "{label}: N={n} t={t}: got {got}, definition gives {want}"
        );
    }
}

#[test]
fn hl_normalizer_is_finite_on_flat_windows() {
    // a constant stream
    check(&[5.0; 8], 3, "constant");
    // a flat window following a volatile one
    check(&[1.0, 9.0, -3.0, 4.0, 2.5, 2.5, 2.5, 2.5, 2.5, 7.0, 7.0], 4, "flat after volatile");
    // ties while the window is still filling
    check(&[0.0, 0.0, 1.0, 1.0, 1.0, 1.0], 2, "ties / zeros");
}
