//! C15 demo (extra3): CenterOfGravity accepts every finite stream of moderate magnitude (only Drawdown
//! and LnReturn are restricted to positive inputs) without panicking, with debug assertions enabled.

use sliding_features::{View, pure_functions::Echo, sliding_windows::CenterOfGravity};

#[test]
fn cog_accepts_mixed_sign_streams() {
    for n in [2usize, 3, 5, 8] {
        let mut cog = CenterOfGravity::new(Echo::new(), n);
        let xs: [f64; 12] = [1.0, -0.9, 0.5, 0.25, -2.0, 3.0, 0.0, 0.0, -1.0, 1.5, -1.25, 4.0];
        for (t, x) in xs.iter().enumerate() {
            cog.update(*x); // must not panic
            let v = cog.last().expect("reports from the first value on");
            assert!(v.is_finite(), "N={n} t={t}: CoG = {v}");
        }
    }
}
