//! C06 demo (extra1): on a full window CenterOfGravity equals
//!     (n+1)/2 - sum_k k*x_(t-k+1) / sum_k x_(t-k+1)      (k = 1 newest; 0 when the denominator is 0)
//! for all finite input sequences -- including windows whose sum is negative.

use sliding_features::{View, pure_functions::Echo, sliding_windows::CenterOfGravity};

/// Reference straight from the definition; `w` is oldest first.
fn cog_reference(w: &[f64]) -> f64 {
    let n = w.len();
    let (mut num, mut den) = (0.0, 0.0);
    for k in 1..=n {
        let x = w[n - k]; // k = 1 is the newest value
        num += k as f64 * x;
        den += x;
    }
    if den == 0.0 {
        return 0.0;
    }
    (n as f64 + 1.0) / 2.0 - num / den
}

#[test]
fn cog_matches_definition_for_any_sign() {
    let mut xs = vec![1.0, 2.0, 3.0, 4.0, 5.0]; // positive prefix
    xs.extend([-1.0, -2.0, -4.0, -8.0, -3.0, -5.0, 2.0, -7.0, 0.5, -0.25]); // returns / oscillator-like data
    xs.extend([1.0, -1.0, 2.0, -2.0]); // zero-sum window -> 0
    for n in [3usize, 4, 5] {
        let mut cog = CenterOfGravity::new(Echo::new(), n);
        for (t, x) in xs.iter().enumerate() {
            cog.update(*x);
            if t + 1 < n {
                continue;
            }
            let w = &xs[t + 1 - n..=t];
            let want = cog_reference(w);
            let got = cog.last().expect("full window has a value");
            assert!(
                (got - want).abs() <= 1e-9 * (1.0 + want.abs()),
                "N={n} t={t}: CoG = {got}, definition gives {want}; window = {w:?}"
            );
        }
    }
}
