//! C12 demo (e4): "Replacing every input x by a*x + b with a > 0 leaves ... Vsct ... unchanged;
//! decided ... bit-exactly in f64 for a a power of two".
//!
//! Two instances are fed x and a*x (a = 2^-40 and 2^40, exact in f64, far away from under/overflow);
//! their outputs must coincide, and both must equal the definition (x - mean)/std of the window.

use sliding_features::{View, pure_functions::Echo, sliding_windows::Vsct};

fn series() -> Vec<f64> {
    let mut v = Vec::new();
    let mut s = 0xD1B54A32D192ED03u64;
    for _ in 0..200 {
        s = s.wrapping_mul(6364136223846793005).wrapping_add(1442695040888963407);
        // multiples of 1/64 in [-8, 8): exactly representable, so scaling by 2^k is exact everywhere
        v.push((((s >> 40) % 1024) as f64 - 512.0) / 64.0);
    }
    v
}

/// (x_t - mean) / std over the window (sample standard deviation, as WelfordOnline reports), 0 when flat.
fn reference(w: &[f64]) -> f64 {
    let n = w.len() as f64;
    let mean = w.iter().sum::<f64>() / n;
    let var = w.iter().map(|x| (x - mean) * (x - mean)).sum::<f64>() / (n - 1.0);
    if var <= 0.0 {
        return 0.0;
    }
    (w.last().unwrap() - mean) / var.sqrt()
}

#[test]
fn vsct_is_invariant_under_positive_scaling() {
    let xs = series();
    let n = 8usize;
    for a in [2f64.powi(-40), 2f64.powi(40)] {
        let mut base = Vsct::new(Echo::new(), n);
        let mut scaled = Vsct::new(Echo::new(), n);
        for (t, x) in xs.iter().enumerate() {
            base.update(*x);
            scaled.update(a * *x);
            let (b, s) = (base.last(), scaled.last());
            assert_eq!(b.is_some(), s.is_some(), "t={t}: readiness differs under scaling by {a}");
            let (Some(b), Some(s)) = (b, s) else { continue };
            assert!(
                (b - s).abs() <= 1e-9 * (1.0 + b.abs()),
                "t={t}: Vsct(x) = {b} but Vsct({a} * x) = {s}: not invariant under a change of units"
            );
            if t + 1 >= n {
                let want = reference(&xs[t + 1 - n..=t]);
                assert!((b - want).abs() <= 1e-9 * (1.0 + want.abs()), "t={t}: Vsct = {b}, definition = {want}");
                assert!((s - want).abs() <= 1e-9 * (1.0 + want.abs()), "t={t}: Vsct(a*x) = {s}, definition = {want}");
            }
        }
    }
}
