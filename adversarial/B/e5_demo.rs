//! C13 (and C15) demo (e5): "After any number of updates WelfordRolling's mean() and last() equal the
//! arithmetic mean and the population standard deviation of all values delivered so far ... for
//! streams of any length"; and (C15) no update() panics on a finite in-domain stream, with debug
//! assertions enabled as well as disabled.
//!
//! The stream alternates 1.0, 3.0, so the batch statistics are known exactly from the definition:
//! the sums below are exact in f64 (integers far below 2^53).
//!
//! NOTE: the demo delivers a little more than 2^32 values; it takes a few minutes in the dev profile
//! (`cargo test --release --test e5_demo` is much faster and fails on the patched tree as well:
//! there the counter silently wraps to 0 instead of panicking).

use sliding_features::{View, pure_functions::Echo, rolling::WelfordRolling};

fn check(w: &WelfordRolling<f64, Echo<f64>>, count: u64, sum: f64, sum_sq: f64) {
    let n = count as f64;
    let mean = sum / n;
    let std = (sum_sq / n - mean * mean).max(0.0).sqrt();
    let got_mean = w.mean();
    let got_std = w.last().expect("reports after the first value");
    assert!(
        (got_mean - mean).abs() <= 1e-6,
        "after {count} values: mean() = {got_mean}, batch mean = {mean}"
    );
    assert!(
        (got_std - std).abs() <= 1e-6,
        "after {count} values: last() = {got_std}, batch population std = {std}"
    );
}

#[test]
fn welford_rolling_equals_batch_statistics_for_long_streams() {
    let mut w: WelfordRolling<f64, Echo<f64>> = WelfordRolling::new(Echo::new());
    let total: u64 = (1u64 << 32) + 1000;
    let (mut sum, mut sum_sq) = (0.0f64, 0.0f64);
    for i in 0..total {
        let x = if i % 2 == 0 { 1.0 } else { 3.0 };
        w.update(x);
        sum += x;
        sum_sq += x * x;
        let count = i + 1;
        // check densely at the beginning and around 2^16 / 2^32, sparsely elsewhere
        if count <= 1000
            || count % (1 << 28) == 0
            || count.abs_diff(1 << 16) <= 8
            || count.abs_diff(1 << 32) <= 8
            || count == total
        {
            check(&w, count, sum, sum_sq);
        }
    }
}
