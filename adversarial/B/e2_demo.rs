//! C07 (and C06) demo (e2): NoiseEliminationTechnology stays in [-1, 1] (C07) because it IS
//! Kendall's tau between the values currently in its window and time, over all n(n-1)/2 pairs,
//! ties contributing 0 (C06). Reference computed from that definition.

use sliding_features::{View, pure_functions::Echo, sliding_windows::NoiseEliminationTechnology};

/// Kendall's tau of the window `w` (oldest first) against time.
fn kendall_tau(w: &[f64]) -> f64 {
    let n = w.len();
    let mut s = 0.0;
    for i in 0..n {
        for j in (i + 1)..n {
            // j is newer than i
            if w[j] > w[i] {
                s += 1.0;
            } else if w[j] < w[i] {
                s -= 1.0;
            }
        }
    }
    s / (0.5 * n as f64 * (n as f64 - 1.0))
}

fn series() -> Vec<f64> {
    let mut v: Vec<f64> = (0..12).map(|i| i as f64).collect(); // monotone run
    v.extend((0..12).map(|i| 30.0 - 2.0 * i as f64)); // falling run
    v.extend([5.0, 5.0, 5.0, 6.0, 6.0, 4.0, 4.0, 4.0]); // ties
    let mut s = 0x2545F4914F6CDD1Du64;
    for _ in 0..100 {
        s = s.wrapping_mul(6364136223846793005).wrapping_add(1442695040888963407);
        v.push(((s >> 40) % 17) as f64 - 8.0);
    }
    v
}

#[test]
fn net_is_kendall_tau_and_stays_in_unit_range() {
    let xs = series();
    for n in [3usize, 5, 8, 10] {
        let mut net = NoiseEliminationTechnology::new(Echo::new(), n);
        for (t, x) in xs.iter().enumerate() {
            net.update(*x);
            let Some(got) = net.last() else { continue };
            // C07: documented range
            assert!(
                (-1.0 - 1e-12..=1.0 + 1e-12).contains(&got),
                "N={n} t={t}: NET = {got} is outside [-1, 1]"
            );
            // C06: once the window is full it equals Kendall's tau of the window
            if t + 1 >= n {
                let want = kendall_tau(&xs[t + 1 - n..=t]);
                assert!(
                    (got - want).abs() <= 1e-12,
                    "N={n} t={t}: NET = {got}, Kendall's tau of the window = {want}"
                );
            }
        }
    }
}
