//! C04 demo (e1): "Ema follows e_0 = x_0, e_t = w*x_t + (1-w)*e_(t-1) with w = alpha/(N+1)
//! (default alpha = 2) for every input including zeros and sign changes", observed through
//! View::last after every update (Ema reports from the N-th delivered value on).
//!
//! The reference below is computed straight from that definition.

use sliding_features::{View, pure_functions::Echo, sliding_windows::Ema};

fn series() -> Vec<f64> {
    // zeros, sign changes, a constant stretch, a jump
    let mut v = vec![
        4.0, 0.0, -2.5, 7.25, 0.0, 0.0, 3.0, -1.0, 12.0, 12.0, 12.0, -6.5, 0.5, 1.5, 100.0, -3.0,
    ];
    let mut s = 0x9E3779B97F4A7C15u64;
    for _ in 0..64 {
        s = s.wrapping_mul(6364136223846793005).wrapping_add(1442695040888963407);
        v.push(((s >> 33) as f64) / (1u64 << 31) as f64 * 20.0 - 10.0);
    }
    v
}

#[test]
fn ema_follows_its_recursion_from_the_first_value_on() {
    let xs = series();
    for n in 1..=12usize {
        let w = 2.0 / (n as f64 + 1.0);
        let mut ema = Ema::new(Echo::new(), n);
        let mut reference = 0.0;
        for (t, x) in xs.iter().enumerate() {
            // definition: e_0 = x_0, e_t = w x_t + (1 - w) e_(t-1)
            reference = if t == 0 { *x } else { w * *x + (1.0 - w) * reference };
            ema.update(*x);
            if t + 1 < n {
                assert!(ema.last().is_none(), "N={n}: value reported before the {n}-th sample");
                continue;
            }
            let got = ema.last().expect("Ema reports from the N-th value on");
            assert!(
                (got - reference).abs() <= 1e-12 * (1.0 + reference.abs()),
                "N={n} t={t}: Ema reports {got}, the recursion e_0=x_0, e_t=w*x_t+(1-w)*e_(t-1) gives {reference}"
            );
        }
    }
}
