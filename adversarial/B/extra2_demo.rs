//! C15 demo (extra2): "any sequence of update() and last() calls with finite inputs of moderate
//! magnitude ... completes without panicking ... This includes ... constant streams, and streams
//! with ties and zeros."  Roc is fed a stream that contains zeros.

use sliding_features::{View, pure_functions::Echo, sliding_windows::Roc};

#[test]
fn roc_accepts_streams_with_zeros() {
    for n in [1usize, 2, 3, 5] {
        let mut roc = Roc::new(Echo::new(), n);
        let xs: [f64; 14] = [1.0, 2.0, 0.0, 3.0, 0.0, 0.0, 4.0, 5.0, -1.0, 0.0, 2.0, 2.0, 2.0, 7.0];
        for (t, x) in xs.iter().enumerate() {
            roc.update(*x); // must not panic
            if let Some(v) = roc.last() {
                assert!(v.is_finite(), "N={n} t={t}: Roc = {v}");
            }
            // where the base x_(t-N) exists and is non-zero the value is 100 (x_t - x_(t-N)) / x_(t-N)
            if t >= n && xs[t - n] != 0.0 {
                let want = (x - xs[t - n]) / xs[t - n] * 100.0;
                let got = roc.last().expect("has a value");
                assert!((got - want).abs() <= 1e-9 * (1.0 + want.abs()), "N={n} t={t}: Roc = {got}, definition {want}");
            }
        }
    }
    // a stream that starts with a zero
    let mut roc = Roc::new(Echo::new(), 4);
    for x in [0.0f64, 1.0, 2.0, 3.0, 4.0, 5.0] {
        roc.update(x);
        let _ = roc.last();
    }
}
