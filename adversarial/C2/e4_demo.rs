//! C11 demo: ReFlex equals a batch re-evaluation of its defining equations:
//! SuperSmoother (a1 = exp(-8.88442402435/N), b1 = 2 a1 cos(4.44221201218/N)), then the slope-corrected
//! mean deviation over the window of N filter values (current one included) divided by the root of its
//! 0.04/0.96 leaky mean square.
use sliding_features::pure_functions::Echo;
use sliding_features::sliding_windows::ReFlex;
use sliding_features::View;

fn batch(xs: &[f64], n: usize) -> Vec<Option<f64>> {
    let nf = n as f64;
    let a1 = (-8.88442402435 / nf).exp();
    let b1 = 2.0 * a1 * (4.44221201218 / nf).cos();
    let c3 = -a1 * a1;
    let c1 = 1.0 - b1 - c3;
    let mut filts: Vec<f64> = Vec::new();
    let mut ms = 0.0;
    let mut out = None;
    let mut res = Vec::new();
    for t in 0..xs.len() {
        let prev_x = if t == 0 { xs[0] } else { xs[t - 1] };
        let f1 = if t >= 1 { filts[t - 1] } else { 0.0 };
        let f2 = if t >= 2 { filts[t - 2] } else { 0.0 };
        let filt = c1 * (xs[t] + prev_x) / 2.0 + b1 * f1 + c3 * f2;
        filts.push(filt);
        let lo = (t + 1).saturating_sub(n);
        let w = &filts[lo..=t];
        let slope = (w[0] - filt) / nf;
        let mut d = 0.0;
        for i in 0..w.len() {
            d += (filt + i as f64 * slope) - w[w.len() - 1 - i];
        }
        d /= nf;
        ms = 0.04 * d * d + 0.96 * ms;
        if ms > 0.0 {
            out = Some(d / ms.sqrt());
        }
        res.push(out);
    }
    res
}

#[test]
fn reflex_matches_batch_definition() {
    let xs: Vec<f64> = (0..300)
        .map(|i| 100.0 + 0.05 * i as f64 + 3.0 * (i as f64 * 0.21).sin() + ((i * 7) % 11) as f64 * 0.13)
        .collect();
    for n in [4usize, 10, 20] {
        let want = batch(&xs, n);
        let mut rf = ReFlex::new(Echo::new(), n);
        for (t, v) in xs.iter().enumerate() {
            rf.update(*v);
            match (rf.last(), want[t]) {
                (None, None) => {}
                (Some(g), Some(w)) => assert!(
                    (g - w).abs() <= 1e-7 * (1.0 + w.abs()),
                    "N={n}, step {t}: ReFlex reports {g}, the defining equations give {w}"
                ),
                (g, w) => panic!("N={n}, step {t}: readiness differs: {g:?} vs {w:?}"),
            }
        }
    }
}
