//! C11 demo: PolarizedFractalEfficiency equals the supplied moving average of the signed ratio
//! sqrt((x_t - x_(t-N+1))^2 + N^2) / sum over the N-2 most recent steps of sqrt(d^2 + 1),
//! negative when the LAST STEP is down.
use sliding_features::pure_functions::Echo;
use sliding_features::sliding_windows::PolarizedFractalEfficiency;
use sliding_features::View;

fn batch(xs: &[f64], n: usize) -> Vec<Option<f64>> {
    let mut out = Vec::new();
    for t in 0..xs.len() {
        if t + 1 < n {
            out.push(None);
            continue;
        }
        let mut s = 0.0;
        for i in 0..n - 2 {
            let d = xs[t - i] - xs[t - i - 1];
            s += (d * d + 1.0).sqrt();
        }
        let dx = xs[t] - xs[t + 1 - n];
        let mut p = (dx * dx + (n * n) as f64).sqrt() / s;
        if xs[t] < xs[t - 1] {
            p = -p;
        }
        out.push(Some(p)); // moving average = Echo
    }
    out
}

#[test]
fn pfe_sign_follows_the_last_step() {
    // a zig-zag on a slow up-trend: the last step is frequently against the net move over the window
    let xs: Vec<f64> = (0..60)
        .map(|i| 50.0 + 0.4 * i as f64 + if i % 2 == 0 { 1.5 } else { -1.5 } + ((i * 5) % 7) as f64 * 0.1)
        .collect();
    for n in [3usize, 4, 6, 9] {
        let want = batch(&xs, n);
        let mut pfe = PolarizedFractalEfficiency::new(Echo::new(), Echo::new(), n);
        for (t, v) in xs.iter().enumerate() {
            pfe.update(*v);
            match (pfe.last(), want[t]) {
                (None, None) => {}
                (Some(g), Some(w)) => assert!(
                    (g - w).abs() <= 1e-12,
                    "N={n}, step {t}: PFE reports {g}, definition gives {w} (last step {} -> {})",
                    xs[t - 1], xs[t]
                ),
                (g, w) => panic!("N={n}, step {t}: readiness differs: {g:?} vs {w:?}"),
            }
        }
    }
}
