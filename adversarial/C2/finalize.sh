#!/bin/sh
# usage: finalize.sh eN "C09 C10 ..."   (worktree currently has the patch applied in src/, demo at /tmp/rt2c_out/eN_demo.rs)
set -e
n=$1; props=$2
cd /tmp/wt_rt2c
git diff -- src > /tmp/rt2c_out/$n.diff
echo "== suite with patch"; CARGO_NET_OFFLINE=true cargo test --offline 2>&1 | grep "test result" | head -1
cp /tmp/rt2c_out/${n}_demo.rs tests/${n}_demo.rs
echo "== demo with patch"; CARGO_NET_OFFLINE=true cargo test --offline --test ${n}_demo 2>&1 | grep -E "test result|panicked|^step|assert" | head -5
git stash -q -- src
echo "== demo on pristine"; CARGO_NET_OFFLINE=true cargo test --offline --test ${n}_demo 2>&1 | grep -E "test result|panicked" | head -3
git stash pop -q
rm -f tests/${n}_demo.rs
git checkout -q -- img 2>/dev/null || true
echo "== try_patch"; python3 /verif/tools/try_patch.py /tmp/rt2c_out/$n.diff $props | tee /tmp/rt2c_out/$n.try.txt
