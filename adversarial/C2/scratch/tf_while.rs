//! John Ehlers TrendFlex Indicators
//! from: <https://financial-hacker.com/petra-on-programming-a-new-zero-lag-indicator/>

use getset::CopyGetters;
use num::Float;
use std::collections::VecDeque;

use crate::View;

/// John Ehlers TrendFlex Indicators
/// from: <https://financial-hacker.com/petra-on-programming-a-new-zero-lag-indicator/>
#[derive(Debug, Clone, CopyGetters)]
pub struct TrendFlex<T, V> {
    view: V,
    /// The sliding window length.
    #[getset(get_copy = "pub")]
    window_len: usize,
    last_val: T,
    last_m: T,
    q_filts: VecDeque<T>,
    // running sum of `q_filts`, so that update() does not have to walk the window
    filt_sum: T,
    out: Option<T>,
}

impl<T, V> TrendFlex<T, V>
where
    V: View<T>,
    T: Float,
{
    /// Create a new TrendFlex Indicator with a chained View
    /// and a given sliding window length
    #[inline]
    pub fn new(view: V, window_len: usize) -> Self {
        TrendFlex {
            view,
            window_len,
            last_val: T::zero(),
            last_m: T::zero(),
            q_filts: VecDeque::with_capacity(window_len),
            filt_sum: T::zero(),
            out: None,
        }
    }
}

impl<T, V> View<T> for TrendFlex<T, V>
where
    V: View<T>,
    T: Float,
{
    fn update(&mut self, val: T) {
        debug_assert!(val.is_finite(), "value must be finite");
        self.view.update(val);
        let Some(val) = self.view.last() else { return };
        debug_assert!(val.is_finite(), "value must be finite");

        if self.q_filts.is_empty() {
            self.last_val = val;
        }
        while self.q_filts.len() >= self.window_len {
            if let Some(oldest) = self.q_filts.pop_front() {
                self.filt_sum = self.filt_sum - oldest;
            }
        }
        let window_len = T::from(self.window_len).expect("can convert");
        let two = T::from(2.0).expect("can convert");
        let a1 = (T::from(-8.88442402435).expect("can convert") / window_len).exp();
        let b1 = two * a1 * (T::from(4.44221201218).expect("can convert") / window_len).cos();
        let c3 = -a1 * a1;
        let c1 = T::one() - b1 - c3;

        let l = self.q_filts.len();
        let mut filt = T::zero();
        if l == 0 {
            filt = c1 * (val + self.last_val) / two
        } else if l == 1 {
            let filt1 = *self.q_filts.get(l - 1).unwrap();
            filt = c1 * (val + self.last_val) / two + b1 * filt1
        } else if l > 1 {
            let filt2 = *self.q_filts.get(l - 2).unwrap();
            let filt1 = *self.q_filts.get(l - 1).unwrap();
            filt = c1 * (val + self.last_val) / two + b1 * filt1 + c3 * filt2;
        }
        self.last_val = val;
        self.q_filts.push_back(filt);

        self.filt_sum = self.filt_sum + filt;

        // sum of (filt - q[i]) over the window = n * filt - sum(q)
        let n = T::from(self.q_filts.len()).expect("can convert");
        let mut d_sum = n * filt - self.filt_sum;
        d_sum = d_sum / window_len;

        // normalize in terms of standard deviation;
        let ms0 = T::from(0.04).expect("can convert") * d_sum.powi(2)
            + T::from(0.96).expect("can convert") * self.last_m;
        self.last_m = ms0;
        if ms0 > T::zero() {
            let out = d_sum / ms0.sqrt();
            debug_assert!(out.is_finite(), "value must be finite");
            self.out = Some(out);
        } else {
            self.out = Some(T::zero());
        }
    }

    #[inline(always)]
    fn last(&self) -> Option<T> {
        self.out
    }
}

#[cfg(test)]
mod tests {
    use super::*;
    use crate::plot::plot_values;
    use crate::pure_functions::Echo;
    use crate::test_data::TEST_DATA;

    #[test]
    fn trend_flex_plot() {
        let mut tf = TrendFlex::new(Echo::new(), 16);
        let mut out: Vec<f64> = Vec::new();
        for v in &TEST_DATA {
            tf.update(*v);
            if let Some(val) = tf.last() {
                out.push(val);
            }
        }
        let filename = "img/trend_flex.png";
        plot_values(out, filename).unwrap();
    }
}
