//! C11 demo: EhlersFisherTransform equals a batch re-evaluation of its defining equations
//! (min-max normalisation over the window of the last N values including the current one,
//! smoothing, clamp to +-0.99, 0.5*ln((1+v)/(1-v)) + 0.5*previous; first output 0).
use sliding_features::pure_functions::Echo;
use sliding_features::sliding_windows::EhlersFisherTransform;
use sliding_features::View;

fn batch(xs: &[f64], n: usize) -> Vec<f64> {
    let mut out: Vec<f64> = Vec::new();
    for t in 0..xs.len() {
        let lo_idx = (t + 1).saturating_sub(n);
        let w = &xs[lo_idx..=t]; // the last n values, current one included
        let high = w.iter().cloned().fold(f64::MIN, f64::max);
        let low = w.iter().cloned().fold(f64::MAX, f64::min);
        if high == low {
            out.push(0.0);
            continue;
        }
        // smoothing view = Echo (identity)
        let v = (2.0 * ((xs[t] - low) / (high - low) - 0.5)).clamp(-0.99, 0.99);
        let prev = *out.last().unwrap();
        out.push(0.5 * ((1.0 + v) / (1.0 - v)).ln() + 0.5 * prev);
    }
    out
}

#[test]
fn fisher_transform_matches_batch_definition() {
    let mut seed = 0x2545F4914F6CDD1Du64;
    let mut xs = Vec::new();
    let mut x = 100.0;
    for _ in 0..80 {
        seed ^= seed << 13;
        seed ^= seed >> 7;
        seed ^= seed << 17;
        x += ((seed >> 11) as f64 / (1u64 << 53) as f64 - 0.5) * 4.0;
        xs.push(x);
    }
    for n in [2usize, 3, 5, 8] {
        let want = batch(&xs, n);
        let mut eft = EhlersFisherTransform::new(Echo::new(), Echo::new(), n);
        for (t, v) in xs.iter().enumerate() {
            eft.update(*v);
            let got = eft.last().unwrap();
            assert!(
                (got - want[t]).abs() <= 1e-12 * (1.0 + want[t].abs()),
                "N={n}, step {t}: EFT reports {got}, the defining equations over the last {n} values give {}",
                want[t]
            );
        }
    }
}
