//! C09 demo (TrendFlex): fading memory.
//! Two bounded finite streams with a common tail must produce outputs that converge to each other:
//! TrendFlex's only memory besides its window of N filter values is the two-pole smoother
//! (pole radius exp(-8.88/N) < 1) and the 0.96-leaky mean square.
use sliding_features::pure_functions::Echo;
use sliding_features::sliding_windows::TrendFlex;
use sliding_features::View;

struct Lcg(u64);
impl Lcg {
    fn next(&mut self) -> f64 {
        self.0 = self.0.wrapping_mul(6364136223846793005).wrapping_add(1442695040888963407);
        ((self.0 >> 11) as f64) / ((1u64 << 53) as f64)
    }
}

fn run(n: usize, prefix: &[f64], tail: &[f64]) -> Vec<f64> {
    let mut tf = TrendFlex::new(Echo::new(), n);
    for v in prefix {
        tf.update(*v);
        assert!(tf.last().map_or(true, |o| o.is_finite() && o.abs() <= 5.0 + 1e-9));
    }
    tail.iter()
        .map(|v| {
            tf.update(*v);
            let o = tf.last().expect("warmed up");
            assert!(o.is_finite() && o.abs() <= 5.0 + 1e-9, "output {o} out of the stream-independent bound");
            o
        })
        .collect()
}

#[test]
fn trend_flex_forgets_a_large_prefix() {
    const TAIL: usize = 6000;
    const SETTLE: usize = 4000;
    let mut rng = Lcg(7);
    let tail: Vec<f64> = (0..TAIL).map(|i| 0.01 * (i as f64 * 0.37).sin() + 0.003 * (rng.next() - 0.5)).collect();
    for n in [3usize, 5, 8, 16, 30] {
        let mut rng = Lcg(n as u64);
        // bounded and finite, but large and irregular
        let prefix_a: Vec<f64> = (0..200).map(|_| (rng.next() - 0.5) * 2.0e15).collect();
        let prefix_b: Vec<f64> = (0..200).map(|_| (rng.next() - 0.5) * 0.01).collect();
        let a = run(n, &prefix_a, &tail);
        let b = run(n, &prefix_b, &tail);
        let spread = b[SETTLE..].iter().fold(0.0f64, |m, v| m.max(v.abs()));
        assert!(spread > 0.1, "degenerate reference output for N={n}");
        let worst = (SETTLE..TAIL).fold(0.0f64, |m, i| m.max((a[i] - b[i]).abs()));
        assert!(
            worst < 1e-6,
            "N={n}: {SETTLE} common values after the streams merged the outputs still differ by {worst}"
        );
    }
}
