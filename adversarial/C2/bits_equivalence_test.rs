use sliding_features::pure_functions::Echo;
use sliding_features::sliding_windows::*;
use sliding_features::View;

fn series() -> Vec<f64> {
    let mut seed = 0x9E3779B97F4A7C15u64;
    let mut x = 100.0;
    (0..3000).map(|i| {
        seed ^= seed << 13; seed ^= seed >> 7; seed ^= seed << 17;
        x += ((seed >> 11) as f64 / (1u64 << 53) as f64 - 0.5) * 3.0;
        if i % 97 > 90 { x } else { x + (i % 5) as f64 * 0.01 }
    }).collect()
}
fn digest<V: View<f64>>(mut v: V, xs: &[f64]) -> u64 {
    let mut h = 0xcbf29ce484222325u64;
    for x in xs {
        v.update(*x);
        let b = match v.last() { Some(y) => y.to_bits(), None => 0xdead };
        h = (h ^ b).wrapping_mul(0x100000001b3);
    }
    h
}
#[test]
fn bits() {
    let xs = series();
    let mut flat = xs.clone();
    for k in 500..560 { flat[k] = flat[499]; }
    for data in [&xs, &flat] {
        for n in [3usize, 4, 5, 6, 7, 10, 16, 33, 100] {
            println!("SS {n} {:016x}", digest(SuperSmoother::new(Echo::new(), n), data));
            println!("RF {n} {:016x}", digest(RoofingFilter::new(Echo::new(), n, 5), data));
            println!("TF {n} {:016x}", digest(TrendFlex::new(Echo::new(), n), data));
            println!("CC {n} {:016x}", digest(CyberCycle::new(Echo::new(), n), data));
            println!("LR {n} {:016x}", digest(LaguerreRSI::new(Echo::new(), n), data));
            println!("EF {n} {:016x}", digest(EhlersFisherTransform::new(Echo::new(), Ema::new(Echo::new(), 4), n), data));
        }
    }
}
