//! C09 demo: fading memory of EhlersFisherTransform.
//! Two streams that become identical from some point on must produce outputs that converge
//! to each other (the effect of any early value dies out).
use sliding_features::pure_functions::Echo;
use sliding_features::sliding_windows::{EhlersFisherTransform, Ema};
use sliding_features::View;

fn run(prefix: &[f64], tail: &[f64]) -> Vec<f64> {
    let mut eft = EhlersFisherTransform::new(Echo::new(), Ema::new(Echo::new(), 3), 5);
    let mut out = Vec::new();
    for v in prefix.iter().chain(tail.iter()) {
        eft.update(*v);
        out.push(eft.last().expect("EFT reports from the first value"));
    }
    out
}

#[test]
fn fisher_transform_forgets_its_prefix() {
    // stream A climbs, stream B falls; afterwards both see the same (quiet) tail
    let prefix_a: Vec<f64> = (0..40).map(|i| 100.0 + i as f64 + ((i * 7) % 5) as f64 * 0.3).collect();
    let prefix_b: Vec<f64> = (0..40).map(|i| 100.0 - i as f64 - ((i * 3) % 4) as f64 * 0.2).collect();
    let tail = vec![120.0; 400];

    let a = run(&prefix_a, &tail);
    let b = run(&prefix_b, &tail);

    assert!(a.iter().chain(b.iter()).all(|x| x.is_finite() && x.abs() <= 5.3));
    // the two runs did differ while their inputs differed
    assert!((a[39] - b[39]).abs() > 0.5, "prefixes must drive the outputs apart: {} vs {}", a[39], b[39]);
    // ... and 400 common values later nothing of that may be left
    let n = a.len();
    for k in n - 100..n {
        assert!(
            (a[k] - b[k]).abs() < 1e-9,
            "step {k}: outputs of two streams with a common tail of {} values still differ: {} vs {}",
            k + 1 - 40, a[k], b[k]
        );
    }
}
