//! sfa-driver: a rustc_private driver that dumps a fact base (items, a structured IR of every
//! function body lowered from type-checked HIR, and a MIR census of panic edges and calls) as JSON.
//!
//! It is injected with RUSTC_WORKSPACE_WRAPPER; for every crate other than the one named in
//! SFA_CRATE (default `sliding_features`) it behaves exactly like rustc.
#![feature(rustc_private)]

extern crate rustc_abi;
extern crate rustc_ast;
extern crate rustc_driver;
extern crate rustc_hir;
extern crate rustc_interface;
extern crate rustc_middle;
extern crate rustc_session;
extern crate rustc_span;

mod json;
use json::J;

use rustc_driver::Compilation;
use rustc_hir as hir;
use rustc_hir::def::{DefKind, Res};
use rustc_hir::def_id::{DefId, LocalDefId};
use rustc_middle::mir;
use rustc_middle::ty::print::with_no_trimmed_paths;
use rustc_middle::ty::{self, Ty, TyCtxt, TypeckResults};
use rustc_span::{ExpnKind, Span};

struct Cb;

impl rustc_driver::Callbacks for Cb {
    fn after_analysis<'tcx>(
        &mut self,
        _compiler: &rustc_interface::interface::Compiler,
        tcx: TyCtxt<'tcx>,
    ) -> Compilation {
        let want = std::env::var("SFA_CRATE").unwrap_or_else(|_| "sliding_features".to_string());
        let name = tcx.crate_name(rustc_hir::def_id::LOCAL_CRATE).to_string();
        if name != want {
            return Compilation::Continue;
        }
        let out = match std::env::var("SFA_FACTS_OUT") {
            Ok(p) => p,
            Err(_) => return Compilation::Continue,
        };
        let facts = with_no_trimmed_paths!(Extract { tcx }.run(&name));
        let mut s = String::new();
        facts.write(&mut s);
        std::fs::write(&out, s).expect("cannot write facts");
        Compilation::Continue
    }
}

fn main() {
    let mut args: Vec<String> = std::env::args().collect();
    // RUSTC_WORKSPACE_WRAPPER passes the real rustc as argv[1].
    if args.len() > 1 && (args[1].ends_with("rustc") || args[1].contains("/rustc")) {
        args.remove(1);
    }
    rustc_driver::run_compiler(&args, &mut Cb);
}

struct Extract<'tcx> {
    tcx: TyCtxt<'tcx>,
}

fn s(x: impl Into<String>) -> J {
    J::Str(x.into())
}

impl<'tcx> Extract<'tcx> {
    fn run(&self, crate_name: &str) -> J {
        let tcx = self.tcx;
        let mut structs = Vec::new();
        let mut impls = Vec::new();
        let mut statics = Vec::new();
        let mut traits = Vec::new();
        let mut unsafes = Vec::new();
        let mut foreign = Vec::new();
        let mut other_items = Vec::new();

        for id in tcx.hir_free_items() {
            let item = tcx.hir_item(id);
            let def_id = id.owner_id.def_id;
            let path = tcx.def_path_str(def_id.to_def_id());
            match &item.kind {
                hir::ItemKind::Struct(..) | hir::ItemKind::Enum(..) | hir::ItemKind::Union(..) => {
                    structs.push(self.adt_json(def_id, item));
                }
                hir::ItemKind::Impl(imp) => {
                    impls.push(self.impl_json(def_id, item, imp));
                    if let Some(tr) = &imp.of_trait {
                        if matches!(tr.safety, hir::Safety::Unsafe) {
                            unsafes.push(J::obj(vec![
                                ("what", s("unsafe impl")),
                                ("where", self.span_json(item.span)),
                                ("mac", self.mac_json(item.span)),
                            ]));
                        }
                    }
                }
                hir::ItemKind::Static(m, _, _, _) => {
                    let ty = tcx.type_of(def_id).instantiate_identity().skip_norm_wip();
                    statics.push(J::obj(vec![
                        ("path", s(path)),
                        ("mutable", J::Bool(matches!(m, hir::Mutability::Mut))),
                        ("ty", self.ty_json(ty)),
                        ("ty_str", s(ty.to_string())),
                        ("where", self.span_json(item.span)),
                        ("mac", self.mac_json(item.span)),
                    ]));
                }
                hir::ItemKind::Trait { .. } => {
                    let mut methods = Vec::new();
                    for ai in tcx.associated_items(def_id.to_def_id()).in_definition_order() {
                        if let ty::AssocKind::Fn { .. } = ai.kind {
                            let sig = tcx.fn_sig(ai.def_id).instantiate_identity().skip_norm_wip();
                            methods.push(J::obj(vec![
                                ("name", s(ai.name().to_string())),
                                ("sig", s(format!("{:?}", sig))),
                                (
                                    "inputs",
                                    J::Arr(
                                        sig.skip_binder()
                                            .inputs()
                                            .iter()
                                            .map(|t| s(t.to_string()))
                                            .collect(),
                                    ),
                                ),
                                ("output", s(sig.skip_binder().output().to_string())),
                            ]));
                        }
                    }
                    traits.push(J::obj(vec![("path", s(path)), ("methods", J::Arr(methods))]));
                }
                hir::ItemKind::ForeignMod { .. } => {
                    foreign.push(J::obj(vec![("where", self.span_json(item.span))]));
                }
                hir::ItemKind::Fn { .. }
                | hir::ItemKind::Mod(..)
                | hir::ItemKind::Use(..)
                | hir::ItemKind::ExternCrate(..) => {}
                _ => {
                    let kind = tcx.def_kind(def_id);
                    let ty_str = if matches!(kind, DefKind::Const { .. }) {
                        tcx.type_of(def_id).instantiate_identity().skip_norm_wip().to_string()
                    } else {
                        String::new()
                    };
                    other_items.push(J::obj(vec![
                        ("path", s(path)),
                        ("kind", s(format!("{:?}", kind))),
                        ("ty_str", s(ty_str)),
                        ("where", self.span_json(item.span)),
                        ("mac", self.mac_json(item.span)),
                    ]));
                }
            }
        }

        let mut fns = Vec::new();
        let mut consts = Vec::new();
        for owner in tcx.hir_body_owners() {
            let kind = tcx.def_kind(owner);
            match kind {
                DefKind::Fn | DefKind::AssocFn => {
                    fns.push(self.fn_json(owner, &mut unsafes));
                }
                DefKind::Const { .. } | DefKind::AssocConst { .. } => {
                    // value expression of a (module-level or associated) constant, so that the analyses can fold it
                    let body = tcx.hir_body_owned_by(owner);
                    let typeck = tcx.typeck(owner);
                    let cx = BodyCx { ex: self, typeck, owner, unsafes: std::cell::RefCell::new(Vec::new()) };
                    consts.push(J::obj(vec![
                        ("def", s(tcx.def_path_str(owner.to_def_id()))),
                        ("body", cx.expr(body.value)),
                    ]));
                }
                DefKind::Closure => {}
                _ => {}
            }
        }
        // MIR census for fns and closures
        let mut mirs = Vec::new();
        for owner in tcx.hir_body_owners() {
            let kind = tcx.def_kind(owner);
            if matches!(kind, DefKind::Fn | DefKind::AssocFn | DefKind::Closure) {
                mirs.push(self.mir_json(owner));
            }
        }

        J::obj(vec![
            ("crate", s(crate_name)),
            ("nonce", s(std::env::var("SFA_NONCE").unwrap_or_default())),
            ("adts", J::Arr(structs)),
            ("impls", J::Arr(impls)),
            ("statics", J::Arr(statics)),
            ("traits", J::Arr(traits)),
            ("unsafes", J::Arr(unsafes)),
            ("foreign_mods", J::Arr(foreign)),
            ("other_items", J::Arr(other_items)),
            ("consts", J::Arr(consts)),
            ("fns", J::Arr(fns)),
            ("mir", J::Arr(mirs)),
        ])
    }

    // ---------- spans / macros ----------

    fn span_json(&self, sp: Span) -> J {
        let sm = self.tcx.sess.source_map();
        let sp = sp.source_callsite();
        let lo = sm.lookup_char_pos(sp.lo());
        let hi = sm.lookup_char_pos(sp.hi());
        let file = match &lo.file.name {
            rustc_span::FileName::Real(r) => match r.local_path() {
                Some(p) => p.to_string_lossy().to_string(),
                None => format!("{:?}", r),
            },
            other => format!("{:?}", other),
        };
        J::Arr(vec![
            s(file),
            J::Num(lo.line as i64),
            J::Num(lo.col.0 as i64 + 1),
            J::Num(hi.line as i64),
            J::Num(hi.col.0 as i64 + 1),
        ])
    }

    /// Expansion chain of a span, innermost first: macro names and desugaring kinds.
    fn mac_chain(&self, sp: Span) -> Vec<String> {
        let mut out = Vec::new();
        let mut sp = sp;
        let mut guard = 0;
        while sp.from_expansion() && guard < 32 {
            let data = sp.ctxt().outer_expn_data();
            match data.kind {
                ExpnKind::Macro(k, name) => out.push(format!("{}:{}", k.descr(), name)),
                ExpnKind::Desugaring(d) => out.push(format!("desugar:{:?}", d)),
                ExpnKind::AstPass(p) => out.push(format!("astpass:{:?}", p)),
                ExpnKind::Root => break,
            }
            sp = data.call_site;
            guard += 1;
        }
        out
    }

    fn mac_json(&self, sp: Span) -> J {
        J::Arr(self.mac_chain(sp).into_iter().map(J::Str).collect())
    }

    // ---------- types ----------

    fn ty_json(&self, t: Ty<'tcx>) -> J {
        match t.kind() {
            ty::Bool => J::obj(vec![("prim", s("bool"))]),
            ty::Char => J::obj(vec![("prim", s("char"))]),
            ty::Int(i) => J::obj(vec![("prim", s(i.name_str()))]),
            ty::Uint(i) => J::obj(vec![("prim", s(i.name_str()))]),
            ty::Float(f) => J::obj(vec![("prim", s(f.name_str()))]),
            ty::Str => J::obj(vec![("prim", s("str"))]),
            ty::Never => J::obj(vec![("prim", s("!"))]),
            ty::Param(p) => J::obj(vec![("param", s(p.name.to_string()))]),
            ty::Adt(def, args) => {
                let mut targs = Vec::new();
                for a in args.iter() {
                    if let Some(t) = a.as_type() {
                        targs.push(self.ty_json(t));
                    }
                }
                J::obj(vec![
                    ("adt", s(self.tcx.def_path_str(def.did()))),
                    ("local", J::Bool(def.did().is_local())),
                    ("args", J::Arr(targs)),
                ])
            }
            ty::Ref(_, inner, m) => J::obj(vec![
                ("ref", self.ty_json(*inner)),
                ("mut", J::Bool(m.is_mut())),
            ]),
            ty::RawPtr(inner, m) => J::obj(vec![
                ("ptr", self.ty_json(*inner)),
                ("mut", J::Bool(m.is_mut())),
            ]),
            ty::Tuple(ts) => J::obj(vec![(
                "tuple",
                J::Arr(ts.iter().map(|t| self.ty_json(t)).collect()),
            )]),
            ty::Array(inner, len) => J::obj(vec![
                ("array", self.ty_json(*inner)),
                ("len_str", s(format!("{}", len))),
            ]),
            ty::Slice(inner) => J::obj(vec![("slice", self.ty_json(*inner))]),
            other => J::obj(vec![("other", s(format!("{:?}", other)))]),
        }
    }

    // ---------- items ----------

    fn attr_names(&self, hir_id: hir::HirId) -> Vec<String> {
        let mut v = Vec::new();
        for a in self.tcx.hir_attrs(hir_id) {
            v.push(format!("{:?}", a).chars().take(120).collect::<String>());
        }
        v
    }

    fn generics_json(&self, def_id: DefId) -> (J, J) {
        let tcx = self.tcx;
        let g = tcx.generics_of(def_id);
        let mut names = Vec::new();
        for p in &g.own_params {
            names.push(s(p.name.to_string()));
        }
        let preds = tcx.predicates_of(def_id);
        let mut ps = Vec::new();
        for (p, _) in preds.predicates {
            ps.push(s(format!("{}", p)));
        }
        if let Some(parent) = preds.parent {
            for (p, _) in tcx.predicates_of(parent).predicates {
                ps.push(s(format!("{}", p)));
            }
        }
        (J::Arr(names), J::Arr(ps))
    }

    fn adt_json(&self, def_id: LocalDefId, item: &hir::Item<'tcx>) -> J {
        let tcx = self.tcx;
        let adt = tcx.adt_def(def_id);
        let mut variants = Vec::new();
        for v in adt.variants() {
            let mut fields = Vec::new();
            for f in v.fields.iter() {
                let t = tcx.type_of(f.did).instantiate_identity().skip_norm_wip();
                fields.push(J::obj(vec![
                    ("name", s(f.name.to_string())),
                    ("ty", self.ty_json(t)),
                    ("ty_str", s(t.to_string())),
                    ("pub", J::Bool(f.vis.is_public())),
                ]));
            }
            variants.push(J::obj(vec![
                ("name", s(v.name.to_string())),
                ("fields", J::Arr(fields)),
            ]));
        }
        let (gen, preds) = self.generics_json(def_id.to_def_id());
        J::obj(vec![
            ("path", s(tcx.def_path_str(def_id.to_def_id()))),
            ("name", s(item.kind.ident().map(|i| i.to_string()).unwrap_or_default())),
            ("kind", s(format!("{:?}", adt.adt_kind()))),
            ("variants", J::Arr(variants)),
            ("generics", gen),
            ("predicates", preds),
            ("where", self.span_json(item.span)),
            ("attrs", J::Arr(self.attr_names(item.hir_id()).into_iter().map(J::Str).collect())),
        ])
    }

    fn impl_json(&self, def_id: LocalDefId, item: &hir::Item<'tcx>, imp: &hir::Impl<'tcx>) -> J {
        let tcx = self.tcx;
        let self_ty = tcx.type_of(def_id).instantiate_identity().skip_norm_wip();
        let trait_path = match &imp.of_trait {
            Some(tr) => match tr.trait_ref.trait_def_id() {
                Some(d) => s(tcx.def_path_str(d)),
                None => J::Null,
            },
            None => J::Null,
        };
        let trait_ref = match tcx.impl_opt_trait_ref(def_id.to_def_id()) {
            Some(tr) => s(format!("{}", tr.instantiate_identity().skip_norm_wip())),
            None => J::Null,
        };
        let mut items = Vec::new();
        for ii in imp.items {
            let d = ii.owner_id.def_id;
            items.push(J::obj(vec![
                ("name", s(tcx.item_name(d.to_def_id()).to_string())),
                ("def", s(tcx.def_path_str(d.to_def_id()))),
                ("kind", s(format!("{:?}", tcx.def_kind(d)))),
            ]));
        }
        let (gen, preds) = self.generics_json(def_id.to_def_id());
        let mac = self.mac_chain(item.span);
        let derived = tcx.is_automatically_derived(def_id.to_def_id());
        J::obj(vec![
            ("def", s(tcx.def_path_str(def_id.to_def_id()))),
            ("self_ty", self.ty_json(self_ty)),
            ("self_ty_str", s(self_ty.to_string())),
            ("trait", trait_path),
            ("trait_ref", trait_ref),
            ("items", J::Arr(items)),
            ("generics", gen),
            ("predicates", preds),
            ("automatically_derived", J::Bool(derived)),
            ("mac", J::Arr(mac.into_iter().map(J::Str).collect())),
            ("where", self.span_json(item.span)),
        ])
    }

    // ---------- functions ----------

    fn fn_json(&self, owner: LocalDefId, unsafes: &mut Vec<J>) -> J {
        let tcx = self.tcx;
        let def_id = owner.to_def_id();
        let body = tcx.hir_body_owned_by(owner);
        let typeck = tcx.typeck(owner);
        let cx = BodyCx { ex: self, typeck, owner, unsafes: std::cell::RefCell::new(Vec::new()) };
        let mut params = Vec::new();
        for p in body.params {
            params.push(J::obj(vec![
                ("pat", cx.pat(p.pat)),
                ("ty", s(typeck.pat_ty(p.pat).to_string())),
            ]));
        }
        let sig = tcx.fn_sig(def_id).instantiate_identity().skip_norm_wip();
        if sig.skip_binder().safety().is_unsafe() {
            unsafes.push(J::obj(vec![
                ("what", s("unsafe fn")),
                ("fn", s(tcx.def_path_str(def_id))),
                ("where", self.span_json(tcx.def_span(def_id))),
                ("mac", self.mac_json(tcx.def_span(def_id))),
            ]));
        }
        let value = cx.expr(body.value);
        for u in cx.unsafes.borrow_mut().drain(..) {
            unsafes.push(u);
        }
        // enclosing impl
        let (impl_def, impl_self, impl_trait) = match tcx.opt_parent(def_id) {
            Some(p) if matches!(tcx.def_kind(p), DefKind::Impl { .. }) => {
                let st = tcx.type_of(p).instantiate_identity().skip_norm_wip();
                let tr = tcx
                    .impl_opt_trait_ref(p)
                    .map(|t| s(tcx.def_path_str(t.skip_binder().def_id)))
                    .unwrap_or(J::Null);
                let adt = match st.kind() {
                    ty::Adt(d, _) => s(tcx.def_path_str(d.did())),
                    _ => J::Null,
                };
                (s(tcx.def_path_str(p)), adt, tr)
            }
            _ => (J::Null, J::Null, J::Null),
        };
        let vis = if matches!(tcx.def_kind(def_id), DefKind::Fn | DefKind::AssocFn) {
            format!("{:?}", tcx.visibility(def_id))
        } else {
            String::new()
        };
        J::obj(vec![
            ("def", s(tcx.def_path_str(def_id))),
            ("name", s(tcx.item_name(def_id).to_string())),
            ("impl", impl_def),
            ("impl_adt", impl_self),
            ("impl_trait", impl_trait),
            ("vis", s(vis)),
            ("where", self.span_json(tcx.def_span(def_id))),
            ("mac", self.mac_json(tcx.def_span(def_id))),
            ("params", J::Arr(params)),
            ("inputs", J::Arr(sig.skip_binder().inputs().iter().map(|t| s(t.to_string())).collect())),
            ("output", s(sig.skip_binder().output().to_string())),
            ("body", value),
        ])
    }

    // ---------- MIR census ----------

    fn mir_json(&self, owner: LocalDefId) -> J {
        let tcx = self.tcx;
        let def_id = owner.to_def_id();
        let body: &mir::Body<'tcx> = tcx.optimized_mir(def_id);
        let mut asserts = Vec::new();
        let mut calls = Vec::new();
        for bb in body.basic_blocks.iter() {
            let Some(term) = &bb.terminator else { continue };
            let sp = term.source_info.span;
            match &term.kind {
                mir::TerminatorKind::Assert { msg, .. } => {
                    let kind = match &**msg {
                        mir::AssertKind::BoundsCheck { .. } => "BoundsCheck".to_string(),
                        mir::AssertKind::Overflow(op, _, _) => format!("Overflow({:?})", op),
                        mir::AssertKind::OverflowNeg(_) => "OverflowNeg".to_string(),
                        mir::AssertKind::DivisionByZero(_) => "DivisionByZero".to_string(),
                        mir::AssertKind::RemainderByZero(_) => "RemainderByZero".to_string(),
                        other => format!("{:?}", other).chars().take(60).collect(),
                    };
                    asserts.push(J::obj(vec![
                        ("kind", s(kind)),
                        ("sp", self.span_json(sp)),
                        ("mac", self.mac_json(sp)),
                    ]));
                }
                mir::TerminatorKind::Call { func, .. } => {
                    let callee = match func.const_fn_def() {
                        Some((d, args)) => {
                            let mut resolved = J::Null;
                            if let Ok(Some(inst)) = ty::Instance::try_resolve(
                                tcx,
                                ty::TypingEnv::post_analysis(tcx, def_id),
                                d,
                                args,
                            ) {
                                let rd = inst.def_id();
                                if rd != d {
                                    resolved = s(tcx.def_path_str(rd));
                                }
                            }
                            J::obj(vec![
                                ("def", s(tcx.def_path_str(d))),
                                ("resolved", resolved),
                                ("krate", s(tcx.crate_name(d.krate).to_string())),
                                ("self_ty", match args.types().next() { Some(t) => s(t.to_string()), None => J::Null }),
                            ])
                        }
                        None => J::obj(vec![("def", s("<indirect>")), ("expr", s(format!("{:?}", func)))]),
                    };
                    calls.push(J::obj(vec![
                        ("callee", callee),
                        ("sp", self.span_json(sp)),
                        ("mac", self.mac_json(sp)),
                    ]));
                }
                _ => {}
            }
        }
        J::obj(vec![
            ("def", s(tcx.def_path_str(def_id))),
            ("kind", s(format!("{:?}", tcx.def_kind(def_id)))),
            ("asserts", J::Arr(asserts)),
            ("calls", J::Arr(calls)),
        ])
    }
}

struct BodyCx<'a, 'tcx> {
    ex: &'a Extract<'tcx>,
    typeck: &'tcx TypeckResults<'tcx>,
    owner: LocalDefId,
    unsafes: std::cell::RefCell<Vec<J>>,
}

impl<'a, 'tcx> BodyCx<'a, 'tcx> {
    fn tcx(&self) -> TyCtxt<'tcx> {
        self.ex.tcx
    }

    fn hid(&self, id: hir::HirId) -> J {
        J::Num(id.local_id.as_u32() as i64)
    }

    fn res_json(&self, res: Res) -> Vec<(&'static str, J)> {
        match res {
            Res::Local(id) => vec![("k", s("local")), ("id", self.hid(id)), ("name", s(self.tcx().hir_name(id).to_string()))],
            Res::Def(kind, d) => vec![
                ("k", s("path")),
                ("def", s(self.tcx().def_path_str(d))),
                ("defkind", s(format!("{:?}", kind))),
            ],
            Res::SelfCtor(_) | Res::SelfTyAlias { .. } | Res::SelfTyParam { .. } => {
                vec![("k", s("path")), ("def", s("Self")), ("defkind", s("SelfCtor"))]
            }
            other => vec![("k", s("path")), ("def", s(format!("{:?}", other))), ("defkind", s("Other"))],
        }
    }

    fn callee_json(&self, d: DefId, hir_id: hir::HirId) -> J {
        let tcx = self.tcx();
        let args = self.typeck.node_args(hir_id);
        let mut resolved = J::Null;
        if !matches!(tcx.def_kind(d), DefKind::Fn | DefKind::AssocFn)
            || args.len() < tcx.generics_of(d).count()
        {
            // ctors / consts: nothing to resolve; incomplete args: cannot resolve
        } else if let Ok(Some(inst)) = ty::Instance::try_resolve(
            tcx,
            ty::TypingEnv::post_analysis(tcx, self.owner.to_def_id()),
            d,
            args,
        ) {
            let rd = inst.def_id();
            if rd != d {
                resolved = s(tcx.def_path_str(rd));
            }
        }
        let self_ty = match args.types().next() {
            Some(t) => s(t.to_string()),
            None => J::Null,
        };
        J::obj(vec![
            ("def", s(tcx.def_path_str(d))),
            ("resolved", resolved),
            ("krate", s(tcx.crate_name(d.krate).to_string())),
            ("self_ty", self_ty),
            ("targs", J::Arr(args.types().map(|t| s(t.to_string())).collect())),
        ])
    }

    fn block(&self, b: &hir::Block<'tcx>) -> J {
        if let hir::BlockCheckMode::UnsafeBlock(_) = b.rules {
            self.unsafes.borrow_mut().push(J::obj(vec![
                ("what", s("unsafe block")),
                ("fn", s(self.tcx().def_path_str(self.owner.to_def_id()))),
                ("where", self.ex.span_json(b.span)),
                ("mac", self.ex.mac_json(b.span)),
            ]));
        }
        let mut stmts = Vec::new();
        for st in b.stmts {
            stmts.push(self.stmt(st));
        }
        let mut v = vec![("k", s("block")), ("stmts", J::Arr(stmts))];
        if let Some(e) = b.expr {
            v.push(("expr", self.expr(e)));
        }
        v.push(("sp", self.ex.span_json(b.span)));
        let mac = self.ex.mac_chain(b.span);
        if !mac.is_empty() {
            v.push(("mac", J::Arr(mac.into_iter().map(J::Str).collect())));
        }
        J::obj(v)
    }

    fn stmt(&self, st: &hir::Stmt<'tcx>) -> J {
        match &st.kind {
            hir::StmtKind::Let(l) => {
                let mut v = vec![("k", s("let")), ("pat", self.pat(l.pat))];
                v.push(("ty", s(self.typeck.pat_ty(l.pat).to_string())));
                if let Some(i) = l.init {
                    v.push(("init", self.expr(i)));
                }
                if let Some(e) = l.els {
                    v.push(("els", self.block(e)));
                }
                v.push(("sp", self.ex.span_json(l.span)));
                let mac = self.ex.mac_chain(l.span);
                if !mac.is_empty() {
                    v.push(("mac", J::Arr(mac.into_iter().map(J::Str).collect())));
                }
                J::obj(v)
            }
            hir::StmtKind::Item(_) => J::obj(vec![("k", s("item"))]),
            hir::StmtKind::Expr(e) => J::obj(vec![("k", s("expr")), ("e", self.expr(e))]),
            hir::StmtKind::Semi(e) => J::obj(vec![("k", s("semi")), ("e", self.expr(e))]),
        }
    }

    fn pat(&self, p: &hir::Pat<'tcx>) -> J {
        let mut v: Vec<(&'static str, J)> = match &p.kind {
            hir::PatKind::Wild | hir::PatKind::Missing => vec![("k", s("wild"))],
            hir::PatKind::Binding(mode, id, ident, sub) => {
                let mut v = vec![
                    ("k", s("bind")),
                    ("id", self.hid(*id)),
                    ("name", s(ident.to_string())),
                    ("by_ref", J::Bool(matches!(mode.0, hir::ByRef::Yes(..)))),
                    ("mutable", J::Bool(mode.1.is_mut())),
                ];
                if let Some(sp) = sub {
                    v.push(("sub", self.pat(sp)));
                }
                v
            }
            hir::PatKind::Struct(qp, fields, _) => {
                let res = self.typeck.qpath_res(qp, p.hir_id);
                let mut fs = Vec::new();
                for f in *fields {
                    fs.push(J::obj(vec![("name", s(f.ident.to_string())), ("pat", self.pat(f.pat))]));
                }
                vec![("k", s("pstruct")), ("path", J::obj(self.res_json(res))), ("fields", J::Arr(fs))]
            }
            hir::PatKind::TupleStruct(qp, pats, _) => {
                let res = self.typeck.qpath_res(qp, p.hir_id);
                vec![
                    ("k", s("ptuplestruct")),
                    ("path", J::obj(self.res_json(res))),
                    ("pats", J::Arr(pats.iter().map(|p| self.pat(p)).collect())),
                ]
            }
            hir::PatKind::Or(pats) => vec![("k", s("por")), ("pats", J::Arr(pats.iter().map(|p| self.pat(p)).collect()))],
            hir::PatKind::Tuple(pats, _) => vec![("k", s("ptuple")), ("pats", J::Arr(pats.iter().map(|p| self.pat(p)).collect()))],
            hir::PatKind::Ref(inner, _, _) | hir::PatKind::Box(inner) | hir::PatKind::Deref(inner) => {
                vec![("k", s("pref")), ("pat", self.pat(inner))]
            }
            hir::PatKind::Expr(pe) => match &pe.kind {
                hir::PatExprKind::Path(qp) => {
                    let res = self.typeck.qpath_res(qp, pe.hir_id);
                    vec![("k", s("ppath")), ("path", J::obj(self.res_json(res)))]
                }
                hir::PatExprKind::Lit { lit, negated } => {
                    let mut v = self.lit_json(lit);
                    v[0] = ("k", s("plit"));
                    v.push(("negated", J::Bool(*negated)));
                    v
                }
                #[allow(unreachable_patterns)]
                _ => vec![("k", s("pother"))],
            },
            hir::PatKind::Slice(before, mid, after) if mid.is_none() && after.is_empty() => {
                // fixed-length array / slice pattern `[a, b, c]`
                vec![("k", s("pslice")), ("pats", J::Arr(before.iter().map(|p| self.pat(p)).collect()))]
            }
            hir::PatKind::Slice(before, Some(mid), after) if matches!(mid.kind, hir::PatKind::Wild) => {
                // `[a, b, .., y, z]`: elements from the front and from the back, the rest ignored
                vec![
                    ("k", s("pslice")),
                    ("pats", J::Arr(before.iter().map(|p| self.pat(p)).collect())),
                    ("rest", J::Bool(true)),
                    ("after", J::Arr(after.iter().map(|p| self.pat(p)).collect())),
                ]
            }
            other => vec![("k", s("pother")), ("dbg", s(format!("{:?}", other).chars().take(80).collect::<String>()))],
        };
        v.push(("ty", s(self.typeck.pat_ty(p).to_string())));
        J::obj(v)
    }

    fn lit_json(&self, lit: &hir::Lit) -> Vec<(&'static str, J)> {
        use rustc_ast::LitKind;
        match &lit.node {
            LitKind::Int(n, _) => vec![("k", s("lit")), ("lit", s("int")), ("v", s(n.get().to_string()))],
            LitKind::Float(sym, _) => vec![("k", s("lit")), ("lit", s("float")), ("v", s(sym.to_string()))],
            LitKind::Bool(b) => vec![("k", s("lit")), ("lit", s("bool")), ("v", J::Bool(*b))],
            LitKind::Str(sym, _) => vec![("k", s("lit")), ("lit", s("str")), ("v", s(sym.to_string()))],
            other => vec![("k", s("lit")), ("lit", s("other")), ("v", s(format!("{:?}", other)))],
        }
    }

    fn expr(&self, e: &hir::Expr<'tcx>) -> J {
        let tcx = self.tcx();
        let mut v: Vec<(&'static str, J)> = match &e.kind {
            hir::ExprKind::DropTemps(inner) | hir::ExprKind::Use(inner, _) | hir::ExprKind::Type(inner, _) => {
                return self.expr(inner);
            }
            hir::ExprKind::Lit(l) => self.lit_json(l),
            hir::ExprKind::Path(qp) => {
                let res = self.typeck.qpath_res(qp, e.hir_id);
                let mut v = self.res_json(res);
                // for associated fn / const paths through a type parameter (T::zero) record the resolved def
                if let Res::Def(DefKind::AssocFn | DefKind::Fn | DefKind::AssocConst { .. } | DefKind::Ctor(..), d) = res {
                    v.push(("callee", self.callee_json(d, e.hir_id)));
                }
                v
            }
            hir::ExprKind::Field(base, ident) => vec![("k", s("field")), ("base", self.expr(base)), ("name", s(ident.to_string()))],
            hir::ExprKind::MethodCall(seg, recv, args, _) => {
                let callee = match self.typeck.type_dependent_def_id(e.hir_id) {
                    Some(d) => self.callee_json(d, e.hir_id),
                    None => J::Null,
                };
                let mut all = vec![self.expr(recv)];
                for a in *args {
                    all.push(self.expr(a));
                }
                vec![
                    ("k", s("call")),
                    ("method", s(seg.ident.to_string())),
                    ("callee", callee),
                    ("args", J::Arr(all)),
                    ("recv_ty", s(self.typeck.expr_ty(recv).to_string())),
                    ("recv_ty_adj", s(self.typeck.expr_ty_adjusted(recv).to_string())),
                ]
            }
            hir::ExprKind::Call(f, args) => {
                let mut callee = J::Null;
                let mut ctor = false;
                if let hir::ExprKind::Path(qp) = &f.kind {
                    let res = self.typeck.qpath_res(qp, f.hir_id);
                    if let Res::Def(kind, d) = res {
                        callee = self.callee_json(d, f.hir_id);
                        ctor = matches!(kind, DefKind::Ctor(..));
                    } else if let Res::SelfCtor(_) = res {
                        ctor = true;
                    }
                }
                let mut v = vec![
                    ("k", s(if ctor { "ctor" } else { "call" })),
                    ("callee", callee),
                    ("args", J::Arr(args.iter().map(|a| self.expr(a)).collect())),
                ];
                if matches!(v[1].1, J::Null) {
                    v.push(("fexpr", self.expr(f)));
                }
                v
            }
            hir::ExprKind::Binary(op, l, r) => {
                let callee = match self.typeck.type_dependent_def_id(e.hir_id) {
                    Some(d) => self.callee_json(d, e.hir_id),
                    None => J::Null,
                };
                vec![
                    ("k", s("bin")),
                    ("op", s(format!("{:?}", op.node))),
                    ("l", self.expr(l)),
                    ("r", self.expr(r)),
                    ("callee", callee),
                ]
            }
            hir::ExprKind::Unary(op, inner) => {
                let callee = match self.typeck.type_dependent_def_id(e.hir_id) {
                    Some(d) => self.callee_json(d, e.hir_id),
                    None => J::Null,
                };
                vec![("k", s("un")), ("op", s(format!("{:?}", op))), ("e", self.expr(inner)), ("callee", callee)]
            }
            hir::ExprKind::AddrOf(_, m, inner) => vec![("k", s("addr")), ("mut", J::Bool(m.is_mut())), ("e", self.expr(inner))],
            hir::ExprKind::Assign(l, r, _) => vec![("k", s("assign")), ("l", self.expr(l)), ("r", self.expr(r))],
            hir::ExprKind::AssignOp(op, l, r) => {
                let callee = match self.typeck.type_dependent_def_id(e.hir_id) {
                    Some(d) => self.callee_json(d, e.hir_id),
                    None => J::Null,
                };
                vec![
                    ("k", s("assignop")),
                    ("op", s(format!("{:?}", op.node))),
                    ("l", self.expr(l)),
                    ("r", self.expr(r)),
                    ("callee", callee),
                ]
            }
            hir::ExprKind::Index(b, i, _) => {
                let callee = match self.typeck.type_dependent_def_id(e.hir_id) {
                    Some(d) => self.callee_json(d, e.hir_id),
                    None => J::Null,
                };
                vec![("k", s("index")), ("base", self.expr(b)), ("idx", self.expr(i)), ("callee", callee),
                     ("base_ty", s(self.typeck.expr_ty(b).to_string()))]
            }
            hir::ExprKind::If(c, t, el) => {
                let mut v = vec![("k", s("if")), ("cond", self.expr(c)), ("then", self.expr(t))];
                if let Some(el) = el {
                    v.push(("else", self.expr(el)));
                }
                v
            }
            hir::ExprKind::Let(l) => vec![("k", s("letexpr")), ("pat", self.pat(l.pat)), ("init", self.expr(l.init))],
            hir::ExprKind::Match(scrut, arms, src) => {
                // re-sugar `for` and `?`
                match src {
                    hir::MatchSource::ForLoopDesugar => {
                        if let Some(v) = self.resugar_for(scrut, arms) {
                            v
                        } else {
                            self.match_json(scrut, arms, "ForLoopDesugarUnrecognised")
                        }
                    }
                    hir::MatchSource::TryDesugar(_) => {
                        // scrut = Try::branch(inner)
                        let inner = match &scrut.kind {
                            hir::ExprKind::Call(_, args) if args.len() == 1 => Some(&args[0]),
                            _ => None,
                        };
                        match inner {
                            Some(i) => vec![("k", s("try")), ("e", self.expr(i))],
                            None => self.match_json(scrut, arms, "TryDesugarUnrecognised"),
                        }
                    }
                    hir::MatchSource::Normal | hir::MatchSource::Postfix => self.match_json(scrut, arms, "Normal"),
                    other => self.match_json(scrut, arms, &format!("{:?}", other)),
                }
            }
            hir::ExprKind::Block(b, _) => {
                let mut j = self.block(b);
                // attach ty below
                if let J::Obj(ref mut fields) = j {
                    fields.push(("ty".to_string(), s(self.typeck.expr_ty(e).to_string())));
                }
                return j;
            }
            hir::ExprKind::Loop(b, _, src, _) => vec![("k", s("loop")), ("src", s(format!("{:?}", src))), ("body", self.block(b))],
            hir::ExprKind::Break(_, val) => {
                let mut v = vec![("k", s("break"))];
                if let Some(x) = val {
                    v.push(("e", self.expr(x)));
                }
                v
            }
            hir::ExprKind::Continue(_) => vec![("k", s("continue"))],
            hir::ExprKind::Ret(val) => {
                let mut v = vec![("k", s("ret"))];
                if let Some(x) = val {
                    v.push(("e", self.expr(x)));
                }
                v
            }
            hir::ExprKind::Closure(c) => {
                let body = tcx.hir_body(c.body);
                let mut params = Vec::new();
                for p in body.params {
                    params.push(self.pat(p.pat));
                }
                vec![
                    ("k", s("closure")),
                    ("params", J::Arr(params)),
                    ("body", self.expr(body.value)),
                    ("def", s(tcx.def_path_str(c.def_id.to_def_id()))),
                ]
            }
            hir::ExprKind::Tup(es) => vec![("k", s("tuple")), ("es", J::Arr(es.iter().map(|x| self.expr(x)).collect()))],
            hir::ExprKind::Array(es) => vec![("k", s("array")), ("es", J::Arr(es.iter().map(|x| self.expr(x)).collect()))],
            hir::ExprKind::Repeat(x, _) => vec![("k", s("repeat")), ("e", self.expr(x))],
            hir::ExprKind::Cast(x, _) => vec![("k", s("cast")), ("e", self.expr(x))],
            hir::ExprKind::Struct(qp, fields, tail) => {
                let res = self.typeck.qpath_res(qp, e.hir_id);
                let mut fs = Vec::new();
                for f in *fields {
                    fs.push(J::obj(vec![("name", s(f.ident.to_string())), ("e", self.expr(f.expr))]));
                }
                let mut v = vec![("k", s("struct")), ("path", J::obj(self.res_json(res))), ("fields", J::Arr(fs))];
                if let hir::StructTailExpr::Base(b) = tail {
                    v.push(("base", self.expr(b)));
                }
                v
            }
            other => vec![
                ("k", s("other")),
                ("dbg", s(format!("{:?}", std::mem::discriminant(other)))),
                ("text", s(tcx.sess.source_map().span_to_snippet(e.span).unwrap_or_default().chars().take(80).collect::<String>())),
            ],
        };
        v.push(("ty", s(self.typeck.expr_ty(e).to_string())));
        v.push(("sp", self.ex.span_json(e.span)));
        let mac = self.ex.mac_chain(e.span);
        if !mac.is_empty() {
            v.push(("mac", J::Arr(mac.into_iter().map(J::Str).collect())));
        }
        J::obj(v)
    }

    fn match_json(&self, scrut: &hir::Expr<'tcx>, arms: &[hir::Arm<'tcx>], src: &str) -> Vec<(&'static str, J)> {
        let mut as_ = Vec::new();
        for a in arms {
            let mut v = vec![("pat", self.pat(a.pat)), ("body", self.expr(a.body))];
            if let Some(g) = a.guard {
                v.push(("guard", self.expr(g)));
            }
            as_.push(J::obj(v));
        }
        vec![("k", s("match")), ("src", s(src)), ("scrut", self.expr(scrut)), ("arms", J::Arr(as_))]
    }

    /// `for pat in iter { body }` is lowered to
    /// `match IntoIterator::into_iter(iter) { mut it => loop { match Iterator::next(&mut it) { None => break, Some(pat) => body } } }`
    fn resugar_for(&self, scrut: &hir::Expr<'tcx>, arms: &[hir::Arm<'tcx>]) -> Option<Vec<(&'static str, J)>> {
        let iter_expr = match &scrut.kind {
            hir::ExprKind::Call(_, args) if args.len() == 1 => &args[0],
            _ => return None,
        };
        if arms.len() != 1 {
            return None;
        }
        let hir::ExprKind::Loop(blk, _, _, _) = &arms[0].body.kind else { return None };
        // the loop block has one stmt/expr: the inner match
        let inner: &hir::Expr<'tcx> = if let Some(e) = blk.expr {
            e
        } else if blk.stmts.len() == 1 {
            match &blk.stmts[0].kind {
                hir::StmtKind::Expr(e) | hir::StmtKind::Semi(e) => e,
                _ => return None,
            }
        } else {
            return None;
        };
        let hir::ExprKind::Match(_, inner_arms, _) = &inner.kind else { return None };
        if inner_arms.len() != 2 {
            return None;
        }
        // the `Some(pat)` arm
        for a in *inner_arms {
            let item_pat: Option<&hir::Pat<'tcx>> = match &a.pat.kind {
                hir::PatKind::TupleStruct(_, pats, _) if pats.len() == 1 => Some(&pats[0]),
                hir::PatKind::Struct(_, fields, _) if fields.len() == 1 => Some(fields[0].pat),
                _ => None,
            };
            if let Some(ip) = item_pat {
                return Some(vec![
                    ("k", s("for")),
                    ("pat", self.pat(ip)),
                    ("iter", self.expr(iter_expr)),
                    ("body", self.expr(a.body)),
                ]);
            }
        }
        None
    }
}
