use sliding_features::{View, pure_functions::*, sliding_windows::*};
fn run<V: View<f64>>(mut v: V, xs: &[f64]) -> Vec<Option<f64>> {
    xs.iter().map(|x| { v.update(*x); v.last() }).collect()
}
fn main() {
    println!("F1 Sma(3) 1,2,3,4 -> {:?} (want last 3.0)", run(Sma::new(Echo::new(), 3), &[1.,2.,3.,4.,5.]));
    println!("F2 Ema(2) 0,0,6 -> {:?} (want last 4.0)", run(Ema::new(Echo::new(), 2), &[0.,0.,6.]));
    println!("F3 Cumulative(3) 1,2,3,4 -> {:?} (want 1,3,6,9)", run(Cumulative::new(Echo::new(), 3), &[1.,2.,3.,4.]));
    let mut w = WelfordOnline::new(Echo::new(), 3);
    for x in [1.,2.,3.,10.] { w.update(x); }
    println!("F4 Welford(3) 1,2,3,10 mean {:?} std {:?} (want mean 5, std 4.3589)", w.mean(), w.last());
    println!("F5 HLN(3) 0,5,6,7,6.5 -> {:?} (want last 0.0)", run(HLNormalizer::new(Echo::new(), 3), &[0.,5.,6.,7.,6.5]));
    println!("F6 NET(5) 1..7 -> {:?} (want 1.0 on full window)", run(NoiseEliminationTechnology::new(Echo::new(), 5), &[1.,2.,3.,4.,5.,6.,7.]));
    println!("F6 NET(4) ties -> {:?} (want 0)", run(NoiseEliminationTechnology::new(Echo::new(), 4), &[1.,1.,1.,1.,1.]));
    let xs: Vec<f64> = (0..400).map(|i| 100.0 + ((i*7919)%13) as f64).collect();
    let r = std::panic::catch_unwind(|| run(ReFlex::new(Echo::new(), 4), &xs));
    println!("F7 ReFlex(4) 400 bounded values -> {:?}", r.map(|v| v[v.len()-3..].to_vec()));
    let mut lf = LaguerreFilter::new(Echo::new(), 0.5);
    for x in &xs { lf.update(*x); }
    println!("F8 LaguerreFilter dbg len {}", format!("{:?}", lf).len());
    let mut e = EhlersFisherTransform::new(Echo::new(), Ema::new(Echo::new(), 2), 5);
    for x in &xs { e.update(*x); }
    println!("F9 EFT dbg len {}", format!("{:?}", e).len());
    for (name, f) in [
        ("CyberCycle(1)", Box::new(|| { run(CyberCycle::new(Echo::new(), 1), &[1.,2.,3.,4.]); }) as Box<dyn Fn() + std::panic::UnwindSafe>),
        ("CyberCycle(2)", Box::new(|| { run(CyberCycle::new(Echo::new(), 2), &[1.,2.,3.,4.]); })),
        ("PFE(1)", Box::new(|| { run(PolarizedFractalEfficiency::new(Echo::new(), Ema::new(Echo::new(),2), 1), &[1.,2.,3.,4.]); })),
        ("PFE(2)", Box::new(|| { run(PolarizedFractalEfficiency::new(Echo::new(), Ema::new(Echo::new(),2), 2), &[1.,2.,3.,4.]); })),
        ("EFT(1)", Box::new(|| { run(EhlersFisherTransform::new(Echo::new(), Ema::new(Echo::new(),2), 1), &[1.,2.,3.,4.]); })),
        ("Roofing(1,2)", Box::new(|| { let xs: Vec<f64> = (0..600).map(|i| 100.0 + ((i*7919)%13) as f64).collect(); run(RoofingFilter::new(Echo::new(), 1, 2), &xs); })),
    ] {
        let r = std::panic::catch_unwind(f);
        println!("F10 {} panics: {}", name, r.is_err());
    }
    println!("F11 CyberCycle(4) const 2 -> {:?}", run(CyberCycle::new(Echo::new(), 4), &[2.0; 60]).last());
    println!("F11 CyberCycle(5) const 2 -> {:?}", run(CyberCycle::new(Echo::new(), 5), &[2.0; 60]).last());
    println!("F11 CyberCycle(6) const 2 -> {:?}", run(CyberCycle::new(Echo::new(), 6), &[2.0; 200]).last());
}
