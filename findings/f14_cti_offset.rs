// F14 (C12, offset clause): CorrelationTrendIndicator before its window is full.
// Run as an example of the crate: cp findings/f14_cti_offset.rs <scratch copy>/examples/ && cargo run --offline --example f14_cti_offset
// On the pinned tree: step 2: 0.870388 vs 0.626372, step 3: 0.968330 vs 0.677880, equal from step 4 (window full) on.
use sliding_features::{pure_functions::Echo, sliding_windows::CorrelationTrendIndicator, View};
fn run(xs: &[f64], n: usize) -> Vec<Option<f64>> {
    let mut v = CorrelationTrendIndicator::new(Echo::new(), n);
    xs.iter().map(|x| { v.update(*x); v.last() }).collect()
}
fn main() {
    let a = [1.0, 2.0, 4.0, 3.0, 5.0];
    let b: Vec<f64> = a.iter().map(|x| x + 10.0).collect();
    let (ra, rb) = (run(&a, 4), run(&b, 4));
    let mut bad = false;
    for (i, (p, q)) in ra.iter().zip(rb.iter()).enumerate() {
        let (p, q) = (p.unwrap(), q.unwrap());
        println!("step {}: CTI(x) = {:.6}  CTI(x+10) = {:.6}", i + 1, p, q);
        if (p - q).abs() > 1e-9 { bad = true; }
    }
    if bad { println!("FAIL: CTI changes under a common offset"); std::process::exit(1); }
    println!("PASS");
}
