"""C14 — combinators are pointwise, stateless functions of their children.

S1  statelessness by type (no field can hold an earlier value), parameters never written
S2  operator identity and operand provenance of last∘update against the spec table
S2b Some exactly when every child is Some (no extra None cases, no early Some)
S3  cache freshness: the reported value has no dependence on the pre-update state
"""
from .model import model
from .vg import tstr, subterms, TRUE, NONE, is_some, op
from .terms import cases, eval3, free_ins, relation

# spec table transcribed from the property statement (the oracle)
SPEC = {
    'Add': ('binop', 'add', True), 'Subtract': ('binop', 'sub', False), 'Multiply': ('binop', 'mul', True),
    'Divide': ('binop', 'div', False), 'Tanh': ('unop', 'tanh'), 'GTE': ('clip', 'max'), 'LTE': ('clip', 'min'),
    'Echo': ('echo',), 'Constant': ('constant',),
}


def child_atoms(t):
    return {x for x in subterms(t) if x[0] in ('child', 'childlast')}


def run_c14(F, R):
    R.trust('rustc front end (resolved operators/callees, field places); value-graph builder sfa/vg.py')
    R.trust('spec table SPEC in sfa/e_c14.py transcribed from the property statement')
    R.assume('children are views of this crate (deterministic, C17); inputs finite (no NaN), so !(a<b) == (a>=b)')
    views = {v.name: v for v in F.views}
    for name, spec in SPEC.items():
        v = views.get(name)
        if v is None:
            R.violation('S0', name, 'combinator %s not found in the catalogue' % name)
            continue
        m = model(F, v)
        kids = [f.name for f in v.children_fields()]
        # ---- S1 statelessness by type
        cells = [f for f in v.fields if f.role in ('cell', 'buffer')]
        if spec[0] in ('binop', 'unop'):
            # a cache is not a violation by itself: with state fields the claim rests on S3 (freshness) below
            R.ob('S1', name, True, 'fields are children and PhantomData only: nothing can hold an earlier value' if not cells else
                 'has state field(s) %s: statelessness is decided by S3 (freshness of last∘update)' % [f.name for f in cells], v.file)
        elif spec[0] == 'clip':
            params = [f.name for f in cells if f.name in m.params]
            caches = [f.name for f in cells if f.name not in m.params]
            bufs = [f.name for f in cells if f.role == 'buffer']
            R.ob('S1', name, len(params) == 1 and len(caches) <= 1 and not bufs,
                 'one clip parameter %s (never written outside new), cache cell(s) %s' % (params, caches), v.file)
        elif spec[0] == 'constant':
            R.ob('S1', name, len(cells) == 1 and cells[0].name in m.params and not kids, 'one parameter field, never written', v.file)
        elif spec[0] == 'echo':
            R.ob('S1', name, len(cells) == 1 and not kids and cells[0].role == 'cell', 'one cache cell', v.file)
        # ---- S5 the parameter the operator is applied with is the constructor's argument itself
        if spec[0] in ('clip', 'constant'):
            for mm in m.ctor_models:
                if mm['init'] is None:
                    R.violation('S5', '%s::%s' % (name, mm['fn'].name), 'constructor result is not a plain struct expression: parameter cannot be traced')
                    continue
                for p_ in m.params:
                    t = mm['init'].get(p_)
                    ok5 = isinstance(t, tuple) and t and t[0] == 'arg'
                    R.ob('S5', '%s::%s:%s' % (name, mm['fn'].name, p_), ok5,
                         'parameter `%s` is stored exactly as passed (%s)' % (p_, tstr(t)) if ok5 else
                         'parameter `%s` is stored as %s, not as the argument itself: the operator is applied with a different constant' % (p_, tstr(t)[:80] if t else '?'),
                         mm['fn'].file)
        # ---- value of last() right after update()
        val = m.last_after_update()
        try:
            cs = cases(val)
        except OverflowError:
            R.violation('S2', name, 'last∘update has too many cases to enumerate')
            continue
        lasts = sorted({x for x in subterms(val) if x[0] == 'childlast'}, key=str)
        ok2 = True
        ok2b = True
        ok3 = True
        n_some = 0
        for conds, leaf in cs:
            # reachability of this case when all children report / when some child does not
            all_some = {is_some(c): True for c in lasts}
            reach_all = all(eval3(c, all_some) is not False for c in conds)
            if leaf == NONE or leaf[0] == 'none':
                if kids and reach_all and spec[0] != 'echo':
                    ok2b = False
                    R.violation('S2b', name + ':none-while-children-report', 'last() can be None although every child has an output: case %s' % [tstr(c) for c in conds][:4], v.file)
                continue
            if not reach_all:
                # a path on which some child has no output: the wrapper keeps its answer (C01 R3 / C08) -- but a stateless
                # binary/unary combinator has no answer to keep: it must report nothing there, not the output of the child that is ready
                if spec[0] in ('binop', 'unop') and leaf != ('in', None):
                    import itertools
                    leaf_some = leaf[0] == 'some' or leaf[0] in ('childlast',) or (leaf[0] == 'phi')
                    if leaf_some and not any(f for f in free_ins(leaf)):
                        for combo in itertools.product((True, False), repeat=len(lasts)):
                            if all(combo):
                                continue
                            asg = {is_some(c): b_ for c, b_ in zip(lasts, combo)}
                            if any(eval3(cc, asg) is False for cc in conds):
                                continue
                            pres = True if leaf[0] == 'some' else eval3(is_some(leaf), asg)
                            if pres is not False:
                                ok2b = False
                                missing = [c[1] for c, b_ in zip(lasts, combo) if not b_]
                                R.violation('S2b', name + ':some-without-' + ','.join(missing), 'last() can be Some (%s) while child `%s` has no output' % (tstr(leaf)[:50], ','.join(missing)), v.file)
                                break
                continue
            if leaf[0] != 'some':
                ok2 = False
                R.violation('S2', name + ':shape', 'last∘update is not Some(..)/None here: %s' % tstr(leaf)[:120], v.file)
                continue
            n_some += 1
            for c in lasts:
                asg = dict(all_some)
                asg[is_some(c)] = False
                if all(eval3(cc, asg) is not False for cc in conds):
                    ok2b = False
                    R.violation('S2b', name + ':some-without-' + c[1], 'last() can be Some while child `%s` has no output' % c[1], v.file)
            x = leaf[1]
            # S3: no dependence on pre-update state other than parameters
            stale = sorted(f for f in free_ins(x) if f not in m.params)
            stale_c = sorted(f for c in conds for f in free_ins(c) if f not in m.params)
            if stale or stale_c:
                ok3 = False
                R.violation('S3', name + ':stale:' + ','.join(stale or stale_c), 'reported value depends on state from before this update (%s): %s' % (
                    stale or stale_c, tstr(x)[:160]), v.file)
            # children must be read after this update (epoch >= 1)
            for a in child_atoms(x):
                if a[2] < 1 and spec[0] not in ('echo', 'constant'):
                    ok3 = False
                    R.violation('S3', name + ':child-not-updated', 'child `%s` is read without having been updated in this step' % a[1], v.file)
            # ---- S2 operator identity
            if spec[0] == 'binop':
                a, b = ('child', 'a', 1), ('child', 'b', 1)
                if len(kids) == 2:
                    a, b = ('child', kids[0], 1), ('child', kids[1], 1)
                want = [op(spec[1], a, b)] + ([op(spec[1], b, a)] if spec[2] else [])
                if x not in want:
                    ok2 = False
                    R.violation('S2', name + ':operator', 'reports %s, expected %s' % (tstr(x)[:120], tstr(want[0])), v.file)
            elif spec[0] == 'unop':
                want = op(spec[1], ('child', kids[0], 1)) if kids else None
                if x != want:
                    ok2 = False
                    R.violation('S2', name + ':operator', 'reports %s, expected %s' % (tstr(x)[:120], tstr(want)), v.file)
            elif spec[0] == 'clip':
                child = ('child', kids[0], 1) if kids else None
                clips = [('in', p) for p in m.params]
                clip = clips[0] if clips else None
                if x == op(spec[1], child, clip) or x == op(spec[1], clip, child):
                    continue
                allowed = {'>', '=', '<'}
                for c in conds:
                    r = relation(c, child, clip)
                    if r is not None:
                        allowed &= r
                good = False
                if spec[1] == 'max':
                    good = (x == child and allowed <= {'>', '='}) or (x == clip and allowed <= {'<', '='})
                else:
                    good = (x == child and allowed <= {'<', '='}) or (x == clip and allowed <= {'>', '='})
                if not good:
                    ok2 = False
                    R.violation('S2', name + ':clip', 'reports %s when child ? clip in %s: not %s(child, clip)' % (tstr(x)[:80], sorted(allowed), spec[1]), v.file)
            elif spec[0] == 'echo':
                if x != ('arg', 'val') and not (x[0] == 'arg'):
                    ok2 = False
                    R.violation('S2', name + ':echo', 'reports %s, expected the latest input' % tstr(x)[:80], v.file)
            elif spec[0] == 'constant':
                if not (x[0] == 'in' and x[1] in m.params):
                    ok2 = False
                    R.violation('S2', name + ':constant', 'reports %s, expected its constant' % tstr(x)[:80], v.file)
        if n_some == 0:
            ok2 = False
            R.violation('S2', name + ':never-some', 'last∘update never reports a value')
        R.ob('S2', name, ok2, 'every Some case of last∘update is the specified %s of the children\'s current outputs (%d cases)' % (spec[1] if len(spec) > 1 else spec[0], len(cs)), v.file)
        R.ob('S2b', name, ok2b, 'Some exactly when every child reports', v.file)
        R.ob('S3', name, ok3, 'the reported value has no dependence on pre-update state (parameters excepted)', v.file)
        # constant: constructor stores its argument
        if spec[0] == 'constant':
            ok = any(init and init.get(m.params[0]) == ('arg', 'val') or (init and m.params and init.get(m.params[0], ('x',))[0] == 'arg') for _, init, _ in m.inits()) if m.params else False
            R.ob('S2', name + ':ctor', ok, 'constructor stores its argument in the constant field', v.file)
    # S4: every child is updated on every path of update() (a child that misses inputs would report a stale / shifted value)
    from .e2_protocol import UpdateProtocol
    for name in SPEC:
        v = views.get(name)
        if v is None or not v.children_fields():
            continue
        start = len(R.obligations)
        UpdateProtocol(v, R).run()
        failed = [o for o in R.obligations[start:] if not o[2]]
        if failed:
            # same arbitration as in C01: the value-graph reading of the protocol decides when the syntactic walker does not
            # recognise the spelling
            from .e2_protocol import vg_protocol
            okv, whyv = vg_protocol(F, v)
            if okv:
                kept = [o for o in R.obligations[start:] if o[2]]
                del R.obligations[start:]
                R.obligations.extend(kept)
                failed = []
        R.ob('S4', name, not failed, 'every path of update() forwards the input to every child exactly once', v.file)
    R.floor('S1', 9)
    R.floor('S2', 10)
    R.floor('S2b', 9)
    R.floor('S3', 9)
    R.decline('`>=` versus `>` in the clips (observationally equal except for the sign of zero) is not policed')
