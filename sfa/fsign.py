"""Float sign / interval analysis over value-graph terms (the float half of the bounds domain).

All stream-derived floats are (-inf, +inf). Knowledge comes from literals, library facts (exp > 0, sqrt >= 0,
x² >= 0, abs >= 0, clamp, tanh), integer lower bounds of T::from(usize) operands (via the integer
entailment), and guards on the path condition (e != 0, e > 0, a == b excluded, …) matched by value numbering.
"""
import math
from .vg import subterms, tstr, op, lit, neg_cond, TRUE

INF = float('inf')


class Iv:
    __slots__ = ('lo', 'hi', 'lo_open', 'hi_open', 'nz')

    def __init__(self, lo=-INF, hi=INF, lo_open=False, hi_open=False, nz=False):
        self.lo, self.hi, self.lo_open, self.hi_open, self.nz = lo, hi, lo_open, hi_open, nz

    def __repr__(self):
        return '%s%s, %s%s%s' % ('(' if self.lo_open else '[', self.lo, self.hi, ')' if self.hi_open else ']', ' nz' if self.nz else '')

    def contains_zero(self):
        if self.nz:
            return False
        if self.lo > 0 or self.hi < 0:
            return False
        if self.lo == 0 and self.lo_open:
            return False
        if self.hi == 0 and self.hi_open:
            return False
        return True

    def positive(self):
        return self.lo > 0 or (self.lo == 0 and (self.lo_open or self.nz))

    def nonneg(self):
        return self.lo >= 0

    def meet(self, o):
        r = Iv(self.lo, self.hi, self.lo_open, self.hi_open, self.nz or o.nz)
        if o.lo > r.lo or (o.lo == r.lo and o.lo_open):
            r.lo, r.lo_open = o.lo, o.lo_open
        if o.hi < r.hi or (o.hi == r.hi and o.hi_open):
            r.hi, r.hi_open = o.hi, o.hi_open
        return r

    def hull(self, o):
        r = Iv()
        if self.lo < o.lo or (self.lo == o.lo and not self.lo_open):
            r.lo, r.lo_open = self.lo, self.lo_open
        else:
            r.lo, r.lo_open = o.lo, o.lo_open
        if self.hi > o.hi or (self.hi == o.hi and not self.hi_open):
            r.hi, r.hi_open = self.hi, self.hi_open
        else:
            r.hi, r.hi_open = o.hi, o.hi_open
        r.nz = (self.nz or not self.contains_zero()) and (o.nz or not o.contains_zero())
        return r


TOPI = Iv()


def _strip_opt(t):
    """Option-valued comparison operands: phi(c, Some(x), None) / Some(x) compare like x when both are Some."""
    if t[0] == 'some':
        return t[1]
    if t[0] == 'phi' and t[2][0] == 'some' and t[3][0] == 'none':
        return t[2][1]
    return t



def point(x):
    return Iv(x, x, False, False, x != 0)


def _mul(a, b):
    def m(x, y):
        if (x == 0 and abs(y) == INF) or (y == 0 and abs(x) == INF):
            return 0.0
        return x * y
    c = [(m(a.lo, b.lo), a.lo_open or b.lo_open), (m(a.lo, b.hi), a.lo_open or b.hi_open),
         (m(a.hi, b.lo), a.hi_open or b.lo_open), (m(a.hi, b.hi), a.hi_open or b.hi_open)]
    lo = min(c, key=lambda z: (z[0], z[1]))
    hi = max(c, key=lambda z: (z[0], not z[1]))
    r = Iv(lo[0], hi[0], lo[1], hi[1])
    r.nz = (a.nz or not a.contains_zero()) and (b.nz or not b.contains_zero())
    return r


def _add(x, y):
    lo = x.lo + y.lo if not (abs(x.lo) == INF or abs(y.lo) == INF) else (-INF if -INF in (x.lo, y.lo) else INF)
    hi = x.hi + y.hi if not (abs(x.hi) == INF or abs(y.hi) == INF) else (INF if INF in (x.hi, y.hi) else -INF)
    r = Iv(lo, hi, x.lo_open or y.lo_open, x.hi_open or y.hi_open)
    if x.nonneg() and y.nonneg() and (x.positive() or y.positive()):
        r.nz = True
        if r.lo == 0:
            r.lo_open = True
    if x.hi <= 0 and y.hi <= 0 and ((x.hi < 0 or x.hi_open or x.nz) or (y.hi < 0 or y.hi_open or y.nz)):
        r.nz = True
        if r.hi == 0:
            r.hi_open = True
    if (lo > 0 or (lo == 0 and r.lo_open)) or (hi < 0 or (hi == 0 and r.hi_open)):
        r.nz = True
    return r


def cos_of_const_over_int_nonzero(c, lb):
    """Is cos(c / n) != 0 for every integer n >= lb (lb >= 1)?  For n > 2c/pi the argument lies in (0, pi/2) where cos > 0;
    the finitely many smaller n are evaluated (closed-form constant, margin 1e-6)."""
    if lb < 1 or c <= 0:
        return False
    n = lb
    while c / n >= math.pi / 2 - 1e-6:
        if abs(math.cos(c / n)) < 1e-6:
            return False
        n += 1
        if n > 10000:
            return False
    return True


class FSign:
    def __init__(self, facts_conds, int_lb=None, loops=None, trip_pos=None):
        """facts_conds: list of condition terms known to hold. int_lb(term) -> largest small k with term >= k."""
        self.int_lb = int_lb or (lambda t: 0)
        self.loops = loops or {}
        self.trip_pos = trip_pos or (lambda L: False)
        self.facts = {}      # term -> Iv
        self.memo = {}
        known = set()

        def flat(c):
            if isinstance(c, tuple) and c and c[0] == 'op' and c[1] == 'and':
                for x in c[2]:
                    flat(x)
            elif isinstance(c, tuple):
                known.add(c)
        for c in facts_conds:
            flat(c)
        extra = []
        for c in list(known):
            # not(and(a, b, ..)) with all but one conjunct known true  =>  the remaining one is false
            if c[0] == 'op' and c[1] == 'not' and c[2][0][0] == 'op' and c[2][0][1] == 'and':
                rest = [x for x in c[2][0][2] if x not in known]
                if len(rest) == 1:
                    extra.append(neg_cond(rest[0]))
            if c[0] == 'op' and c[1] == 'or':
                rest = [x for x in c[2] if neg_cond(x) not in known]
                if len(rest) == 1:
                    extra.append(rest[0])
        for c in list(facts_conds) + extra:
            self.learn(c, True)
        # open disjunctions (for case splitting by the consumer)
        self.disjunctions = []
        for c in known:
            if c[0] == 'op' and c[1] == 'not' and c[2][0][0] == 'op' and c[2][0][1] == 'and':
                alts = [neg_cond(x) for x in c[2][0][2] if x not in known]
                if len(alts) > 1:
                    self.disjunctions.append(alts)
            if c[0] == 'op' and c[1] == 'or':
                alts = [x for x in c[2] if neg_cond(x) not in known]
                if len(alts) > 1:
                    self.disjunctions.append(alts)
        self._busy = set()

    def cases(self, limit=8):
        """FSign instances, one per combination of the open disjunctions' alternatives (at most `limit`), which together
        cover every state the facts admit."""
        import itertools
        ds = self.disjunctions[:3]
        combos = list(itertools.product(*ds)) if ds else []
        if not combos or len(combos) > limit:
            return [self]
        out = []
        for combo in combos:
            f = FSign([], self.int_lb, self.loops, self.trip_pos)
            f.facts = dict(self.facts)
            for c in combo:
                f.learn(c, True)
            out.append(f)
        return out

    def fact(self, t, iv):
        cur = self.facts.get(t)
        self.facts[t] = iv if cur is None else cur.meet(iv)

    def learn(self, c, pol):
        if not isinstance(c, tuple) or not c:
            return
        if c[0] == 'op' and c[1] == 'not':
            return self.learn(c[2][0], not pol)
        if c[0] == 'op' and c[1] == 'and' and pol:
            for x in c[2]:
                self.learn(x, True)
            return
        if c[0] == 'op' and c[1] == 'or' and not pol:
            for x in c[2]:
                self.learn(x, False)
            return
        if c[0] == 'op' and c[1] in ('eq', 'ne', 'lt', 'le', 'gt', 'ge') and len(c[2]) == 2:
            o = c[1]
            if not pol:
                o = {'eq': 'ne', 'ne': 'eq', 'lt': 'ge', 'le': 'gt', 'gt': 'le', 'ge': 'lt'}[o]
            a, b = _strip_opt(c[2][0]), _strip_opt(c[2][1])
            for (x, y, oo) in ((a, b, o), (b, a, {'lt': 'gt', 'le': 'ge', 'gt': 'lt', 'ge': 'le', 'eq': 'eq', 'ne': 'ne'}[o])):
                if y[0] == 'lit' and isinstance(y[1], (int, float)) and not isinstance(y[1], bool):
                    v = float(y[1])
                    if oo == 'gt':
                        self.fact(x, Iv(v, INF, True, False))
                    elif oo == 'ge':
                        self.fact(x, Iv(v, INF, False, False))
                    elif oo == 'lt':
                        self.fact(x, Iv(-INF, v, False, True))
                    elif oo == 'le':
                        self.fact(x, Iv(-INF, v, False, False))
                    elif oo == 'eq':
                        self.fact(x, point(v))
                    elif oo == 'ne' and v == 0:
                        self.fact(x, Iv(nz=True))
            # relational: a ? b  gives a fact on (a - b) and (b - a)
            d1, d2 = op('sub', a, b), op('sub', b, a)
            if o == 'ne':
                self.fact(d1, Iv(nz=True))
                self.fact(d2, Iv(nz=True))
            elif o == 'gt':
                self.fact(d1, Iv(0, INF, True, False))
                self.fact(d2, Iv(-INF, 0, False, True))
            elif o == 'ge':
                self.fact(d1, Iv(0, INF))
                self.fact(d2, Iv(-INF, 0))
            elif o == 'lt':
                self.fact(d2, Iv(0, INF, True, False))
                self.fact(d1, Iv(-INF, 0, False, True))
            elif o == 'le':
                self.fact(d2, Iv(0, INF))
                self.fact(d1, Iv(-INF, 0))

    def _seq_elem_rng(self, seq, depth=0):
        """Range of an arbitrary element of a sequence term: hull over the stored-element fact of the underlying buffer
        (('elems', ('in', q)), a derived fact: every value ever pushed lies in that range and the buffer starts empty) and
        the values pushed by the term itself. None if some part is unknown."""
        if depth > 12 or not isinstance(seq, tuple) or not seq:
            return None
        k = seq[0]
        if k == 'in':
            return self.facts.get(('elems', seq))
        if k in ('pop_front', 'pop_back', 'truncate', 'remove'):
            return self._seq_elem_rng(seq[1], depth + 1)
        if k in ('push_back', 'push_front'):
            a = self._seq_elem_rng(seq[1], depth + 1)
            if a is None:
                return None
            return a.hull(self.rng(seq[2]))
        if k == 'phi':
            a, b = self._seq_elem_rng(seq[2], depth + 1), self._seq_elem_rng(seq[3], depth + 1)
            if a is None or b is None:
                return None
            return a.hull(b)
        if k == 'seq_new':
            return Iv(INF, -INF)      # empty: neutral element of the hull
        return None

    def rng(self, t):
        k = id(t)
        h = self.memo.get(k)
        if h is not None and h[0] is t:
            return h[1]
        r = self._rng(t)
        f = self.facts.get(t)
        if f is not None:
            r = r.meet(f)
        busy = getattr(self, '_busy', None)
        if busy is not None and t not in busy and len(busy) < 4:
            busy.add(t)
            try:
                if t[0] == 'op' and t[1] == 'sub':
                    # transitivity:  x - y = (x - z) + (z - y)
                    x, y = t[2]
                    for key, f1 in list(self.facts.items()):
                        if key[0] == 'op' and key[1] == 'sub' and key[2][0] == x and key[2][1] != y:
                            z = key[2][1]
                            f2 = self.facts.get(('op', 'sub', (z, y)))
                            if f2 is not None:
                                r = r.meet(_add(f1, f2))
                else:
                    # x = (x - y) + y
                    for key, f1 in list(self.facts.items()):
                        if key[0] == 'op' and key[1] == 'sub' and key[2][0] == t and key[2][1][0] != 'lit':
                            r = r.meet(_add(f1, self.rng(key[2][1])))
            finally:
                busy.discard(t)
        self.memo[k] = (t, r)
        return r

    def _rng(self, t):
        k = t[0]
        if k == 'lit':
            if isinstance(t[1], (int, float)) and not isinstance(t[1], bool):
                return point(float(t[1]))
            return TOPI
        if k == 'op':
            n, a = t[1], t[2]
            if n == 'from_int':
                lb = self.int_lb(a[0])
                return Iv(float(lb), INF)
            if n == 'from_float':
                return self.rng(a[0])
            if n in ('add', 'sub'):
                x, y = self.rng(a[0]), self.rng(a[1])
                if n == 'sub':
                    y = Iv(-y.hi, -y.lo, y.hi_open, y.lo_open, y.nz)
                r = Iv(x.lo + y.lo if not (abs(x.lo) == INF or abs(y.lo) == INF) else (-INF if -INF in (x.lo, y.lo) else INF),
                       x.hi + y.hi if not (abs(x.hi) == INF or abs(y.hi) == INF) else (INF if INF in (x.hi, y.hi) else -INF),
                       x.lo_open or y.lo_open, x.hi_open or y.hi_open)
                return r
            if n == 'mul':
                if a[0] == a[1]:
                    x = self.rng(a[0])
                    r = Iv(0.0, INF)
                    r.nz = x.nz or not x.contains_zero()
                    if r.nz:
                        r.lo_open = True
                    return r
                return _mul(self.rng(a[0]), self.rng(a[1]))
            if n == 'div':
                # x / (x + y) with x, y >= 0 lies in [0, 1]
                den = a[1]
                if den[0] == 'op' and den[1] == 'add' and a[0] in den[2]:
                    other = den[2][1] if den[2][0] == a[0] else den[2][0]
                    if self.rng(a[0]).nonneg() and self.rng(other).nonneg() and not self.rng(den).contains_zero():
                        return Iv(0.0, 1.0)
                # (a - m) / (M - m) with m <= a <= M and M > m lies in [0, 1]; a constant factor on the numerator scales it
                num, scale = a[0], 1.0
                if num[0] == 'op' and num[1] == 'mul' and any(z[0] == 'lit' and isinstance(z[1], (int, float)) for z in num[2]):
                    lits = [z for z in num[2] if z[0] == 'lit']
                    rest = [z for z in num[2] if z[0] != 'lit']
                    if len(lits) == 1 and len(rest) == 1 and float(lits[0][1]) >= 0:
                        num, scale = rest[0], float(lits[0][1])
                if num[0] == 'op' and num[1] == 'sub' and den[0] == 'op' and den[1] == 'sub' and num[2][1] == den[2][1]:
                    top_minus = op('sub', den[2][0], num[2][0])
                    if self.rng(num).nonneg() and self.rng(top_minus).nonneg() and self.rng(den).positive():
                        return Iv(0.0, scale)
                x, y = self.rng(a[0]), self.rng(a[1])
                if y.contains_zero():
                    return TOPI
                if y.lo >= 0:
                    inv = Iv(0.0 if y.hi == INF else 1.0 / y.hi, INF if y.lo == 0 else 1.0 / y.lo, y.hi == INF or y.hi_open, y.lo == 0 or y.lo_open, True)
                elif y.hi <= 0:
                    inv = Iv(-INF if y.hi == 0 else 1.0 / y.hi, 0.0 if y.lo == -INF else 1.0 / y.lo, y.hi == 0 or y.hi_open, y.lo == -INF or y.lo_open, True)
                else:
                    return TOPI
                return _mul(x, inv)
            if n == 'neg':
                x = self.rng(a[0])
                return Iv(-x.hi, -x.lo, x.hi_open, x.lo_open, x.nz)
            if n == 'abs':
                x = self.rng(a[0])
                r = Iv(0.0, max(abs(x.lo), abs(x.hi)))
                r.nz = x.nz or not x.contains_zero()
                if r.nz:
                    r.lo_open = True
                return r
            if n == 'sqrt':
                x = self.rng(a[0])
                r = Iv(0.0, INF)
                if x.positive():
                    r.lo_open = True
                    r.nz = True
                    if x.lo > 0:
                        r.lo = math.sqrt(x.lo)
                        r.lo_open = x.lo_open
                if x.hi < INF and x.hi >= 0:
                    r.hi = math.sqrt(x.hi)
                return r
            if n == 'exp':
                return Iv(0.0, INF, True, False, True)
            if n == 'powi':
                kx = a[1]
                x = self.rng(a[0])
                if kx[0] == 'lit' and isinstance(kx[1], int) and kx[1] % 2 == 0 and kx[1] > 0:
                    r = Iv(0.0, INF)
                    r.nz = x.nz or not x.contains_zero()
                    if r.nz:
                        r.lo_open = True
                    return r
                return TOPI
            if n == 'cos' and a[0][0] == 'op' and a[0][1] == 'div' and a[0][2][0][0] == 'lit' and a[0][2][1][0] == 'op' and a[0][2][1][1] == 'from_int':
                cst = a[0][2][0][1]
                lb = self.int_lb(a[0][2][1][2][0])
                if isinstance(cst, (int, float)) and cos_of_const_over_int_nonzero(float(cst), lb):
                    return Iv(-1.0, 1.0, nz=True)
                return Iv(-1.0, 1.0)
            if n in ('tanh', 'cos', 'sin'):
                return Iv(-1.0, 1.0)
            if n == 'clamp' and len(a) == 3:
                lo, hi = self.rng(a[1]), self.rng(a[2])
                return Iv(lo.lo, hi.hi).meet(Iv(lo.lo, hi.hi))
            if n in ('max', 'min') and len(a) == 2:
                x, y = self.rng(a[0]), self.rng(a[1])
                if n == 'max':
                    return Iv(max(x.lo, y.lo), max(x.hi, y.hi))
                return Iv(min(x.lo, y.lo), min(x.hi, y.hi))
            if n == 'signum':
                return Iv(-1.0, 1.0, nz=True)
            return TOPI
        if k == 'const':
            import math as _m
            vals = {'std::f64::consts::PI': _m.pi, 'std::f32::consts::PI': _m.pi, 'std::f64::consts::E': _m.e, 'std::f64::consts::TAU': 2 * _m.pi}
            if t[1] in vals:
                return point(vals[t[1]])
            return TOPI
        if k == 'phi':
            fa = FSign([], self.int_lb, self.loops, self.trip_pos)
            fa.facts = dict(self.facts)
            fa._busy = self._busy
            fa.learn(t[1], True)
            fb = FSign([], self.int_lb, self.loops, self.trip_pos)
            fb.facts = dict(self.facts)
            fb._busy = self._busy
            fb.learn(t[1], False)
            return fa.rng(t[2]).hull(fb.rng(t[3]))
        if k in ('some', 'payload'):
            return self.rng(t[1])
        if k in ('get', 'front', 'back'):
            r = self._seq_elem_rng(t[1])
            if r is not None:
                return r
        if k == 'fold':
            L, key, init, nxt = t[1], t[2], t[3], t[4]
            mu = ('mu', L, key)
            i0 = self.rng(init)
            # accumulation  mu + e  with e >= 0 (or > 0)
            if nxt[0] == 'op' and nxt[1] == 'add' and mu in nxt[2]:
                e = nxt[2][1] if nxt[2][0] == mu else nxt[2][0]
                re = self.rng(e)
                if re.nonneg():
                    r = Iv(i0.lo, INF, i0.lo_open, False)
                    if re.positive() and self.trip_pos(L):
                        r.lo_open = True
                        if i0.lo >= 0:
                            r.nz = True
                    return r
            return TOPI
        return TOPI
