"""E4 (exact mode) / E6 — linear forms for a concrete configuration and the LTI quantities derived from them.

For a concrete window length the integer/typestate skeleton is constant-propagated to its steady state
(buffer lengths, counters). One update() is then evaluated in the *linear-form domain*: every float is
Σ coef·atom with numeric coefficients (coefficient expressions are constant-folded — they depend on N and
literals only), atoms are the current input `u`, the entry values of float cells and buffer elements, and
opaque atoms for non-linear sub-results (treated as exogenous inputs). The result is x' = A·x + B·u (+ exogenous),
y = C·x' — from which pole radii (per strongly connected block), DC gain and the impulse response follow.
No input stream is ever supplied: `u` is a symbol.
"""
import math
from .vg import subterms, tstr
from . import skeleton as sk


class NonConst(Exception):
    pass


class Form(dict):
    """atom -> float coefficient"""

    def scale(self, c):
        return Form({a: v * c for a, v in self.items() if v * c != 0 or True})

    def plus(self, o, sign=1.0):
        r = Form(self)
        for a, v in o.items():
            r[a] = r.get(a, 0.0) + sign * v
        return r

    def is_const(self):
        return all(a == '1' or v == 0 for a, v in self.items())

    def const(self):
        return self.get('1', 0.0)


def const_form(x):
    return Form({'1': float(x)}) if x != 0 else Form()


class LinEval:
    def __init__(self, state, loops, args=None, deliver=True, nlreg=None):
        self.nlreg = nlreg      # shared across the steps of a transient run: {'n': counter, 'shift': {atom: coef}, 'problems': [..]}
        self.s = state          # cell -> int | bool | Form | list[Form] | ('some', v) | ('none',)
        self.loops = loops
        self.args = args or {}
        self.memo = {}
        self.mu = {}
        self.idx = {}
        self.nl = 0
        self.nl_terms = {}
        self.deliver = deliver
        self.problems = []

    def opaque(self, t, why, shift=None):
        """Fresh atom for a sub-result outside the linear-form domain. `shift` is its shift coefficient (how the value moves
        when every input is replaced by x + b: value + shift·b), None when unknown / not affine in b."""
        key = id(t)
        if key in self.nl_terms and self.nl_terms[key][0] is t:
            return Form({self.nl_terms[key][1]: 1.0})
        if self.nlreg is not None:
            self.nlreg['n'] += 1
            name = 'nl:%d:%s' % (self.nlreg['n'], why)
            self.nlreg['shift'][name] = shift
        else:
            self.nl += 1
            name = 'nl:%d:%s' % (self.nl, why)
        self.nl_terms[key] = (t, name)
        return Form({name: 1.0})

    def shift(self, v):
        """Shift coefficient of a value (see opaque), or None."""
        if isinstance(v, (int, bool)) or v is None:
            return 0.0
        if isinstance(v, tuple) and v and v[0] == 'some':
            return self.shift(v[1])
        if not isinstance(v, Form):
            return None
        tot = 0.0
        for a, c in v.items():
            if c == 0:
                continue
            if a == '1':
                continue
            if a == 'u' or (a.startswith('u') and a[1:].isdigit()):
                tot += c
            elif a.startswith('nl:') or a.startswith('u:'):
                k_ = (self.nlreg or {}).get('shift', {}).get(a)
                if k_ is None:
                    return None
                tot += c * k_
            else:
                return None
        return tot

    def shift_mag(self, v):
        """Magnitude of the individual shift contributions of a form (for a relative tolerance on cancellation)."""
        if isinstance(v, tuple) and v and v[0] == 'some':
            return self.shift_mag(v[1])
        if not isinstance(v, Form):
            return 0.0
        tot = 0.0
        for a, c in v.items():
            if a == '1' or c == 0:
                continue
            if a == 'u' or (a.startswith('u') and a[1:].isdigit()):
                tot += abs(c)
            elif a.startswith('nl:') or a.startswith('u:'):
                k_ = (self.nlreg or {}).get('shift', {}).get(a)
                tot += abs(c * k_) if k_ is not None else 0.0
        return tot

    def inv(self, *vs):
        """0.0 if every operand is shift-invariant, else None (a non-linear function of a moving quantity is not affine in b).
        Cancellation is judged relative to the size of the cancelling contributions (rounding of the coefficients only)."""
        for v in vs:
            k_ = self.shift(v)
            if k_ is None or abs(k_) > 1e-9 * self.shift_mag(v):
                return None
        return 0.0

    def same_shift(self, *vs):
        ks = [self.shift(v) for v in vs]
        if any(k_ is None for k_ in ks):
            return None
        if max(ks) - min(ks) > 1e-9 * max([self.shift_mag(v) for v in vs] + [0.0]):
            return None
        return ks[0]

    def ev(self, t):
        if self.mu or self.idx:
            return self._ev(t)  # inside a loop iteration: no memo
        k = id(t)
        h = self.memo.get(k)
        if h is not None and h[0] is t:
            return h[1]
        r = self._ev(t)
        self.memo[k] = (t, r)
        return r

    def num(self, t):
        """Evaluate to a python number (int or float) or raise NonConst."""
        v = self.ev(t)
        if isinstance(v, bool):
            raise NonConst()
        if isinstance(v, (int, float)):
            return v
        if isinstance(v, Form) and v.is_const():
            return v.const()
        raise NonConst()

    def _ev(self, t):
        k = t[0]
        if k == 'lit':
            if t[2] == 'i':
                return int(t[1])
            if t[2] == 'b':
                return bool(t[1])
            if isinstance(t[1], (int, float)):
                return const_form(t[1])
            return self.opaque(t, 'lit', 0.0)
        if k == 'sentinel':
            return self.opaque(t, 'sentinel', 0.0)
        if k == 'const':
            consts = {'std::f64::consts::PI': math.pi, 'std::f32::consts::PI': math.pi, 'std::f64::consts::E': math.e,
                      'std::f64::consts::TAU': 2 * math.pi, 'std::f64::consts::SQRT_2': math.sqrt(2.0),
                      'std::f64::consts::FRAC_PI_2': math.pi / 2, 'std::f64::consts::LN_2': math.log(2.0)}
            if t[1] in consts:
                return const_form(consts[t[1]])
            return self.opaque(t, 'const', 0.0)
        if k == 'in':
            if t[1] in self.s:
                return self.s[t[1]]
            return self.opaque(t, 'in.' + t[1])
        if k == 'arg':
            if t[1] in self.args:
                return self.args[t[1]]
            return Form({'u': 1.0})
        if k == 'child':
            return Form({'u:%s' % t[1]: 1.0}) if t[1] in self.s.get('#internal', ()) else Form({'u': 1.0})
        if k == 'childlast':
            if t[1] in self.s.get('#internal', ()):
                return ('some', Form({'u:%s' % t[1]: 1.0}))
            return ('some', Form({'u': 1.0})) if self.deliver else ('none',)
        if k == 'some':
            return ('some', self.ev(t[1]))
        if k == 'none':
            return ('none',)
        if k == 'is_some':
            v = self.ev(t[1])
            if isinstance(v, tuple) and v and v[0] in ('some', 'none'):
                return v[0] == 'some'
            return None
        if k == 'payload':
            v = self.ev(t[1])
            if isinstance(v, tuple) and v and v[0] == 'some':
                return v[1]
            return self.opaque(t, 'payload')
        if k == 'phi':
            c = self.ev(t[1])
            if c is True:
                return self.ev(t[2])
            if c is False:
                return self.ev(t[3])
            a, b = self.ev(t[2]), self.ev(t[3])
            if _same(a, b):
                return a
            if isinstance(a, Form) or isinstance(b, Form):
                return self.opaque(t, 'datadep-select', self.same_shift(a, b))
            if isinstance(a, tuple) and isinstance(b, tuple) and a and b and a[0] == 'some' and b[0] == 'some':
                return ('some', self.opaque(t, 'datadep-select', self.same_shift(a[1], b[1])))
            self.problems.append('undecided select of non-float values: %s' % tstr(t[1])[:60])
            return a
        if k == 'len':
            v = self.ev(t[1])
            if isinstance(v, list):
                return len(v)
            raise NonConst()
        if k in ('push_back', 'push_front', 'insert'):
            s = self.ev(t[1])
            x = self.ev(t[2])
            return (list(s) + [x]) if k == 'push_back' else ([x] + list(s))
        if k in ('pop_front', 'pop_back'):
            s = self.ev(t[1])
            if not s:
                return []
            return list(s[1:]) if k == 'pop_front' else list(s[:-1])
        if k == 'remove':
            s = list(self.ev(t[1]))
            i = self.num(t[2])
            if 0 <= i < len(s):
                del s[int(i)]
            return s
        if k == 'set':
            s = list(self.ev(t[1]))
            i = int(self.num(t[2]))
            x = self.ev(t[3])
            if 0 <= i < len(s):
                s[i] = x
            else:
                self.problems.append('index %d out of bounds (len %d)' % (i, len(s)))
            return s
        if k == 'seq_new':
            return []
        if k == 'seq_lit':
            return [self.ev(x) for x in t[1]]
        if k == 'ext':
            base = list(self.ev(t[1]))
            info = self.loops.get(t[2])
            if info is None or 'item' not in info:
                raise NonConst()
            saved = dict(self.idx)
            out = []
            for p_ in self.indices(t[2]):
                self.idx[t[2]] = p_
                out.append(self._ev(info['item']))
            self.idx = saved
            return base + out
        if k == 'seq_rep':
            n = int(self.num(t[2]))
            x = self.ev(t[1])
            return [x for _ in range(n)]
        if k == 'get':
            s = self.ev(t[1])
            i = int(self.num(t[2]))
            if isinstance(s, list) and 0 <= i < len(s):
                return s[i]
            self.problems.append('get(%d) out of bounds (len %s)' % (i, len(s) if isinstance(s, list) else '?'))
            return self.opaque(t, 'oob')
        if k in ('front', 'back'):
            s = self.ev(t[1])
            if isinstance(s, list) and s:
                return s[0] if k == 'front' else s[-1]
            return self.opaque(t, 'empty')
        if k == 'reduce':
            try:
                elems = self.ev(t[2])
            except NonConst:
                elems = None
            sh = self.same_shift(*elems) if isinstance(elems, list) and elems and t[1] in ('max', 'min') else None
            return self.opaque(t, 'reduce', sh)
        if k == 'mu':
            return self.mu[(t[1], t[2])]
        if k == 'idx':
            return self.idx[t[1]]
        if k == 'fold':
            return self.fold(t)
        if k == 'tuple':
            return tuple(self.ev(x) for x in t[1])
        if k == 'op':
            return self.op(t)
        return self.opaque(t, k)

    def indices(self, L):
        """Concrete positions visited by loop L."""
        info = self.loops.get(L)
        if info is None:
            raise NonConst()
        it = info['iter']
        chain = []
        while it[0] in ('enumerate', 'take', 'skip', 'copied'):
            chain.append(it)
            it = it[1]
        if it[0] == 'range':
            lo, hi = int(self.num(it[1])), int(self.num(it[2]))
            if it[3]:
                hi += 1
        elif it[0] == 'iter':
            lo, hi = 0, len(self.ev(it[1]))
        elif it[0] == 'rev' and it[1][0] in ('iter', 'copied'):
            inner = it[1]
            while inner[0] == 'copied':
                inner = inner[1]
            lo, hi = 0, len(self.ev(inner[1]))
        elif it[0] == 'iter_mut':
            p = it[1]
            base = self.s.get(p[1]) if p[0] == 'field' else None
            if base is None:
                raise NonConst()
            lo, hi = 0, len(base)
        else:
            raise NonConst()
        for a in reversed(chain):
            if a[0] == 'skip':
                lo = lo + int(self.num(a[2]))
            elif a[0] == 'take':
                hi = min(hi, lo + int(self.num(a[2])))
        return list(range(lo, max(lo, hi)))

    def fold(self, t):
        L, key, init, nxt = t[1], t[2], t[3], t[4]
        info = self.loops.get(L)
        if info is None:
            return self.opaque(t, 'loop')
        # all carried variables of this loop advance together
        carried = info.get('carried', {})
        cur = {}
        for kk, (i0, n0) in carried.items():
            cur[kk] = self.ev(i0)
        try:
            idxs = self.indices(L)
        except NonConst:
            return self.opaque(t, 'loop-range')
        saved_mu, saved_idx = dict(self.mu), dict(self.idx)
        for i in idxs:
            for kk in carried:
                self.mu[(L, kk)] = cur[kk]
            self.idx[L] = i
            new = {}
            for kk, (i0, n0) in carried.items():
                new[kk] = self.ev(n0) if n0 is not None else cur[kk]
            cur = new
        self.mu, self.idx = saved_mu, saved_idx
        return cur.get(key, self.opaque(t, 'fold-key'))

    def op(self, t):
        n, a = t[1], t[2]
        if n in ('iadd', 'isub', 'imul', 'imin', 'imax', 'idiv', 'irem', 'saturating_sub'):
            x, y = self.num(a[0]), self.num(a[1])
            if n in ('idiv', 'irem'):
                if y == 0:
                    raise NonConst()
                return int(x // y) if n == 'idiv' else int(x % y)
            if n == 'saturating_sub':
                return int(max(x - y, 0))
            return int({'iadd': x + y, 'isub': x - y, 'imul': x * y, 'imin': min(x, y), 'imax': max(x, y)}[n])
        if n in ('eq', 'ne', 'lt', 'le', 'gt', 'ge'):
            try:
                x, y = self.num(a[0]), self.num(a[1])
            except NonConst:
                # two forms that are identical atom by atom are equal whatever the inputs are
                try:
                    xv, yv = self.ev(a[0]), self.ev(a[1])
                    if isinstance(xv, Form) and isinstance(yv, Form):
                        dz = xv.plus(yv, -1.0)
                        if all(c_ == 0 for c_ in dz.values()):
                            return {'eq': True, 'ne': False, 'lt': False, 'le': True, 'gt': False, 'ge': True}[n]
                except NonConst:
                    pass
                if self.nlreg is not None:
                    try:
                        xv, yv = self.ev(a[0]), self.ev(a[1])
                        if (isinstance(xv, Form) or isinstance(yv, Form)) and self.same_shift(xv, yv) is None:
                            self.nlreg.setdefault('problems', []).append('comparison %s moves with a common offset of the inputs' % tstr(t)[:90])
                    except NonConst:
                        pass
                return None
            return {'eq': x == y, 'ne': x != y, 'lt': x < y, 'le': x <= y, 'gt': x > y, 'ge': x >= y}[n]
        if n == 'not':
            v = self.ev(a[0])
            return None if v is None else (not v)
        if n in ('and', 'or'):
            # short-circuit, as the program does: operands after a deciding one are not evaluated (they may read an empty
            # buffer or compare values that do not exist on this path)
            vs = []
            for x in a:
                v_ = self.ev(x)
                vs.append(v_)
                if (n == 'and' and v_ is False) or (n == 'or' and v_ is True):
                    return v_
            if n == 'and':
                if any(v is False for v in vs):
                    return False
                return True if all(v is True for v in vs) else None
            if any(v is True for v in vs):
                return True
            return False if all(v is False for v in vs) else None
        if n.startswith('cast:') and n[5:] in ('usize', 'u64', 'u32', 'i64', 'i32', 'isize', 'u128', 'i128') and len(a) == 1:
            # `k as usize` of a concrete non-negative integer that fits every one of these types is the identity
            x = self.ev(a[0])
            if isinstance(x, int) and not isinstance(x, bool) and 0 <= x < 2 ** 31:
                return x
            return self.opaque(t, 'cast')
        if n in ('from_int', 'from_float'):
            try:
                return const_form(self.num(a[0]))
            except NonConst:
                x = self.ev(a[0])
                if isinstance(x, Form):
                    return x
                return self.opaque(t, 'from')
        if n in ('add', 'sub'):
            x, y = self.ev(a[0]), self.ev(a[1])
            if isinstance(x, Form) and isinstance(y, Form):
                return x.plus(y, 1.0 if n == 'add' else -1.0)
            return self.opaque(t, n)
        if n == 'neg':
            x = self.ev(a[0])
            return x.scale(-1.0) if isinstance(x, Form) else self.opaque(t, n)
        if n == 'mul':
            x, y = self.ev(a[0]), self.ev(a[1])
            if isinstance(x, Form) and isinstance(y, Form):
                if x.is_const():
                    return y.scale(x.const())
                if y.is_const():
                    return x.scale(y.const())
            return self.opaque(t, 'product', self.inv(x, y))
        if n == 'div':
            x, y = self.ev(a[0]), self.ev(a[1])
            if isinstance(x, Form) and isinstance(y, Form) and y.is_const():
                d = y.const()
                if d == 0:
                    self.problems.append('division by a zero coefficient')
                    return self.opaque(t, 'div0')
                return x.scale(1.0 / d)
            return self.opaque(t, 'quotient', self.inv(x, y))
        if n == 'powi':
            x = self.ev(a[0])
            try:
                kx = int(self.num(a[1]))
            except NonConst:
                return self.opaque(t, 'powi')
            if isinstance(x, Form) and x.is_const():
                return const_form(x.const() ** kx)
            if kx == 1:
                return x
            return self.opaque(t, 'power', self.inv(x))
        if n in ('exp', 'cos', 'sin', 'sqrt', 'ln', 'tanh', 'abs', 'tan'):
            x = self.ev(a[0])
            if isinstance(x, Form) and x.is_const():
                c = x.const()
                try:
                    return const_form({'exp': math.exp, 'cos': math.cos, 'sin': math.sin, 'sqrt': math.sqrt, 'ln': math.log,
                                       'tanh': math.tanh, 'abs': abs, 'tan': math.tan}[n](c))
                except (ValueError, OverflowError):
                    self.problems.append('%s(%s) is not finite' % (n, c))
                    return self.opaque(t, n)
            return self.opaque(t, n, self.inv(x))
        if n in ('is_finite', 'is_nan', 'is_infinite'):
            # finite inputs are the domain: finiteness predicates on them are constants of the analysis
            x = self.ev(a[0])
            if isinstance(x, Form):
                return {'is_finite': True, 'is_nan': False, 'is_infinite': False}[n]
            return None
        if n in ('is_normal', 'is_sign_negative', 'is_sign_positive'):
            # predicates that test the VALUE (zero / sign): data-dependent unless the operand is a constant
            x = self.ev(a[0])
            if isinstance(x, Form) and x.is_const():
                c = x.const()
                return {'is_normal': c != 0.0 and abs(c) >= 2.2250738585072014e-308, 'is_sign_negative': math.copysign(1.0, c) < 0,
                        'is_sign_positive': math.copysign(1.0, c) > 0}[n]
            if self.nlreg is not None and isinstance(x, Form) and self.inv(x) is None:
                self.nlreg.setdefault('problems', []).append('predicate %s of a quantity that moves with a common offset of the inputs' % tstr(t)[:80])
            return None
        if n == 'mul_add' and len(a) == 3:
            # a.mul_add(b, c) = a·b + c (one rounding instead of two: the same linear form)
            return self.op(('op', 'add', (('op', 'mul', (a[0], a[1])), a[2])))
        if n == 'recip' and len(a) == 1:
            return self.op(('op', 'div', (('lit', 1.0, 'f'), a[0])))
        if n in ('max', 'min') and len(a) == 2:
            x, y = self.ev(a[0]), self.ev(a[1])
            return self.opaque(t, n, self.same_shift(x, y))
        if n == 'clamp' and len(a) == 3:
            x, lo, hi = self.ev(a[0]), self.ev(a[1]), self.ev(a[2])
            return self.opaque(t, n, self.same_shift(x, lo, hi))
        if n in ('signum', 'floor', 'ceil', 'round', 'trunc', 'recip', 'powf', 'log2', 'log10', 'cosh', 'sinh', 'atan', 'asin', 'acos'):
            return self.opaque(t, n, self.inv(*[self.ev(x_) for x_ in a]))
        return self.opaque(t, n)


def _same(a, b):
    try:
        return a == b
    except Exception:
        return False


# ----------------------------------------------------------------------------------------------


def steady_state(m, args, steps, child_value=sk.F):
    """Integer skeleton after `steps` delivered values (per public constructor matching the usize arity)."""
    out = []
    for cname, s0 in sk.init_states(m, list(args)):
        if s0 is None:
            out.append((cname, None, ['constructor rejects %s' % (list(args),)]))
            continue
        states = [s0]
        probs = []
        for _ in range(steps):
            states, p = sk.step(m, states, child_value=child_value)
            probs += p
            if not states:
                break
        out.append((cname, states, probs))
    return out


def param_env(mm, args_by_name, touched=None):
    """Numeric values of the fields initialised by constructor model mm for concrete arguments."""
    ev = LinEval({}, {}, args_by_name)
    env = {}
    for cell, t in mm['init'].items():
        if touched is not None and cell in touched:
            continue
        try:
            v = ev.ev(t)
        except NonConst:
            continue
        if isinstance(v, Form) and v.is_const():
            env[cell] = Form(v)
        elif isinstance(v, (int, bool)):
            env[cell] = v
    return env, ev.problems


def entry_state(skel_state, params, float_cells):
    """Symbolic entry state for a skeleton: every float cell / buffer element is its own atom."""
    state = {}
    atoms = []
    for cell, val in skel_state.items():
        if isinstance(val, sk.Seq):
            n = val.n or 0
            state[cell] = [Form({'b:%s:%d' % (cell, j): 1.0}) for j in range(n)]
            atoms += ['b:%s:%d' % (cell, j) for j in range(n)]
        elif isinstance(val, sk.Opt):
            if val.some is False:
                state[cell] = ('none',)
            elif isinstance(val.inner, sk.Seq) and val.inner.n is not None:
                state[cell] = ('some', [Form({'b:%s:%d' % (cell, j): 1.0}) for j in range(val.inner.n)])
                atoms += ['b:%s:%d' % (cell, j) for j in range(val.inner.n)]
            elif isinstance(val.inner, int) and not isinstance(val.inner, bool):
                state[cell] = ('some', val.inner)       # an integer payload (a counter kept inside an Option)
            else:
                state[cell] = ('some', Form({'c:%s' % cell: 1.0}))
                atoms.append('c:%s' % cell)
        elif isinstance(val, bool) or isinstance(val, int):
            state[cell] = val
        else:
            if cell in params:
                state[cell] = params[cell]
            elif cell in float_cells:
                state[cell] = Form({'c:%s' % cell: 1.0})
                atoms.append('c:%s' % cell)
    for cell, val in params.items():
        if cell not in state:
            state[cell] = val
    return state, atoms


def symbolic_step(F, v, m, skel_state, params, float_cells):
    """One update() from a symbolic entry state with the given skeleton (lengths / counters).
    Returns (atoms, A rows: atom -> Form over atoms/u/nl, output Form or None, problems)."""
    state = {}
    atoms = []
    for cell, val in skel_state.items():
        if isinstance(val, sk.Seq):
            n = val.n or 0
            state[cell] = [Form({'b:%s:%d' % (cell, j): 1.0}) for j in range(n)]
            atoms += ['b:%s:%d' % (cell, j) for j in range(n)]
        elif isinstance(val, sk.Opt):
            if val.some is False:
                state[cell] = ('none',)
            elif isinstance(val.inner, sk.Seq) and val.inner.n is not None:
                state[cell] = ('some', [Form({'b:%s:%d' % (cell, j): 1.0}) for j in range(val.inner.n)])
                atoms += ['b:%s:%d' % (cell, j) for j in range(val.inner.n)]
            elif isinstance(val.inner, int) and not isinstance(val.inner, bool):
                state[cell] = ('some', val.inner)       # an integer payload (a counter kept inside an Option)
            else:
                state[cell] = ('some', Form({'c:%s' % cell: 1.0}))
                atoms.append('c:%s' % cell)
        elif isinstance(val, bool) or isinstance(val, int):
            state[cell] = val
        else:
            if cell in params:
                state[cell] = params[cell]
            elif cell in float_cells:
                state[cell] = Form({'c:%s' % cell: 1.0})
                atoms.append('c:%s' % cell)
    for cell, val in params.items():
        if cell not in state:
            state[cell] = val
    ev = LinEval(state, m.up_vg.loops)
    # pick the feasible exit
    chosen = None
    for ex in m.up_exits:
        feas = True
        for c in ex.pc:
            if isinstance(c, tuple) and c and c[0] == 'inloop':
                continue
            try:
                val = ev.ev(c)
            except NonConst:
                val = None
            if val is False:
                feas = False
                break
        if feas:
            chosen = ex
            break
    if chosen is None:
        return atoms, None, None, ['no feasible exit in steady state']
    nxt = {}
    new_state = dict(state)
    for cell, t in chosen.fields.items():
        try:
            new_state[cell] = ev.ev(t)
        except NonConst:
            ev.problems.append('cannot evaluate %s in steady state' % cell)
    rows = {}
    for cell, val in new_state.items():
        if isinstance(val, list):
            for j, f in enumerate(val):
                if isinstance(f, Form):
                    rows['b:%s:%d' % (cell, j)] = f
        elif isinstance(val, tuple) and val and val[0] == 'some' and isinstance(val[1], Form):
            rows['c:%s' % cell] = val[1]
        elif isinstance(val, tuple) and val and val[0] == 'some' and isinstance(val[1], list):
            for j, f in enumerate(val[1]):
                if isinstance(f, Form):
                    rows['b:%s:%d' % (cell, j)] = f
        elif isinstance(val, Form) and ('c:%s' % cell) in atoms:
            rows['c:%s' % cell] = val
    # output: last() on the new state
    ev2 = LinEval(new_state, m.last_vg.loops)
    try:
        out = ev2.ev(m.last_ret)
    except NonConst:
        out = None
    if isinstance(out, tuple) and out and out[0] == 'some':
        out = out[1]
    elif not isinstance(out, Form):
        out = None
    return atoms, rows, out, ev.problems + ev2.problems


def sccs(rows):
    """Strongly connected components of the state dependency graph (Tarjan)."""
    graph = {a: [b for b in f if b in rows and f[b] != 0] for a, f in rows.items()}
    index = {}
    low = {}
    stack = []
    on = set()
    res = []
    counter = [0]

    def strong(v):
        work = [(v, 0)]
        while work:
            node, i = work.pop()
            if i == 0:
                index[node] = low[node] = counter[0]
                counter[0] += 1
                stack.append(node)
                on.add(node)
            recurse = False
            nbrs = graph[node]
            while i < len(nbrs):
                w = nbrs[i]
                i += 1
                if w not in index:
                    work.append((node, i))
                    work.append((w, 0))
                    recurse = True
                    break
                elif w in on:
                    low[node] = min(low[node], index[w])
            if recurse:
                continue
            if low[node] == index[node]:
                comp = []
                while True:
                    w = stack.pop()
                    on.discard(w)
                    comp.append(w)
                    if w == node:
                        break
                res.append(comp)
            if work:
                parent = work[-1][0]
                low[parent] = min(low[parent], low[node])
    for v in graph:
        if v not in index:
            strong(v)
    return res


def spectral_radius(rows, comp):
    """Spectral radius of the block of A restricted to `comp` (power iteration on A^T A-free norm growth)."""
    n = len(comp)
    if n == 1:
        a = comp[0]
        if rows[a] == {a: 1.0}:
            return 0.0  # a cell that is never rewritten: a constant, not a mode of the recursion
        return abs(rows[a].get(a, 0.0))
    idx = {a: i for i, a in enumerate(comp)}
    A = [[0.0] * n for _ in range(n)]
    for a in comp:
        for b, c in rows[a].items():
            if b in idx:
                A[idx[a]][idx[b]] = c
    # Gelfand: rho = lim ||A^k||^(1/k); repeated squaring with normalisation
    M = [row[:] for row in A]
    logscale = 0.0
    k = 1
    est = 0.0
    for _ in range(40):
        nm = max(sum(abs(x) for x in row) for row in M)
        if nm == 0:
            return 0.0
        est = math.exp((math.log(nm) + logscale) / k)
        # normalise and square
        M = [[x / nm for x in row] for row in M]
        logscale = 2 * (logscale + math.log(nm))
        M = [[sum(M[i][l] * M[l][j] for l in range(n)) for j in range(n)] for i in range(n)]
        k *= 2
        if k > 1 << 30:
            break
    return est


def dc_gain(rows, out, iters=20000, tol=1e-13):
    """Output for the constant input u = 1 in steady state (fixed point of x = A x + B), by iteration."""
    x = {a: 0.0 for a in rows}
    for it in range(iters):
        delta = 0.0
        nx = {}
        for a, f in rows.items():
            val = 0.0
            for b, c in f.items():
                if b == 'u':
                    val += c
                elif b == '1':
                    val += c
                elif b in x:
                    val += c * x[b]
            nx[a] = val
            delta = max(delta, abs(val - x[a]))
        x = nx
        if delta < tol:
            break
        if any(abs(v) > 1e30 for v in x.values()):
            return None
    y = 0.0
    for b, c in out.items():
        if b == 'u':
            y += c
        elif b == '1':
            y += c
        elif b in x:
            y += c * x[b]
    return y


def impulse_response(rows, out, K):
    """Steady-state impulse response: y_k is read after the k-th update; `out` is expressed over the entry
    state of that update and its input."""
    x = {a: 0.0 for a in rows}
    h = []
    for k in range(K):
        u = 1.0 if k == 0 else 0.0
        y = 0.0
        for b, c in out.items():
            if b == 'u':
                y += c * u
            elif b in x:
                y += c * x[b]
        h.append(y)
        nx = {}
        for a, f in rows.items():
            val = 0.0
            for b, c in f.items():
                if b == 'u':
                    val += c * u
                elif b in x:
                    val += c * x[b]
            nx[a] = val
        x = nx
    return h


def _rename_u(v, name):
    if isinstance(v, Form):
        if 'u' in v:
            f = Form(v)
            f[name] = f.get(name, 0.0) + f.pop('u')
            return f
        return v
    if isinstance(v, list):
        return [_rename_u(x, name) for x in v]
    if isinstance(v, tuple) and v and v[0] == 'some':
        return ('some', _rename_u(v[1], name))
    if isinstance(v, tuple):
        return tuple(_rename_u(x, name) for x in v)
    return v


def _merge_alternatives(ev, cell, vals, problems, k):
    first = vals[0]
    if all(_same(v, first) for v in vals[1:]):
        return first
    if all(isinstance(v, Form) for v in vals):
        return ev.opaque(('alt', cell, k, id(vals)), 'datadep-exit', ev.same_shift(*vals))
    if all(isinstance(v, tuple) and v and v[0] == 'some' and isinstance(v[1], Form) for v in vals):
        return ('some', ev.opaque(('alt', cell, k, id(vals)), 'datadep-exit', ev.same_shift(*[v[1] for v in vals])))
    if all(isinstance(v, list) for v in vals) and len({len(v) for v in vals}) == 1:
        return [_merge_alternatives(ev, '%s[%d]' % (cell, j), [v[j] for v in vals], problems, k) for j in range(len(first))]
    if all(isinstance(v, (int, bool)) for v in vals):
        problems.append('step %d: integer cell %s depends on the data' % (k, cell))
        return first
    problems.append('step %d: cell %s takes structurally different values on data-dependent exits' % (k, cell))
    return first


def transient(m, ctor, args, K, reg=None, probe=None):
    """Abstract execution in the linear-form domain from the constructor's initial state: the k-th delivered value is
    the symbol u<k>; integer cells, lengths and presence are concrete (they are functions of the configuration and of k
    only), float cells are linear forms over u0..u<k>.  Returns (outputs, problems): outputs[k] is the Form reported by
    last() after the k-th update, None when nothing is reported, or the string 'nl' when it is not a linear form."""
    mms = [x for x in m.ctor_models if x['fn'].name == ctor and x['init'] is not None]
    if not mms:
        return None, ['no constructor %s' % ctor]
    mm = mms[0]
    ev0 = LinEval({}, mm['vg'].loops, args, nlreg=reg)
    for c in mm['pre']:
        try:
            if ev0.ev(c) is False:
                return None, ['rejected']
        except NonConst:
            pass
    state = {}
    problems = []
    for cell, t in mm['init'].items():
        if isinstance(t, tuple) and t and t[0] in ('arg',) and t[1] not in args:
            continue    # the child view itself
        try:
            state[cell] = ev0.ev(t)
        except NonConst:
            problems.append('initial value of %s not evaluable' % cell)
    problems += ev0.problems
    outs = []
    datadep_exit = False
    for k in range(K):
        ev = LinEval(state, m.up_vg.loops, nlreg=reg)
        if reg is not None:
            # outputs of internal children: shift-invariant as long as everything fed to them is
            for cp, feeds in m.up_vg.child_fed.items():
                for pc_, arg_, node_ in feeds:
                    if arg_[0] == 'arg':
                        continue
                    name_ = 'u:%s' % cp
                    live = True
                    for c_ in pc_:
                        if isinstance(c_, tuple) and c_ and c_[0] != 'inloop':
                            try:
                                if ev.ev(c_) is False:
                                    live = False
                                    break
                            except NonConst:
                                pass
                    if not live:
                        continue      # this feed is not executed in this step
                    try:
                        fed_shift = ev.inv(ev.ev(arg_))
                    except NonConst:
                        fed_shift = None
                    prev_ = reg['shift'].get(name_, 0.0)
                    reg['shift'][name_] = 0.0 if (fed_shift == 0.0 and prev_ == 0.0) else None
            state = dict(state)
            state['#internal'] = tuple(cp for cp, feeds in m.up_vg.child_fed.items() if any(a_[0] != 'arg' for _, a_, _ in feeds))
        from .terms import nondelivering
        feas_exits = []
        for ex in m.up_exits:
            if nondelivering(ex.pc, ('view',)):
                continue
            feas = True
            decided = True
            for c in ex.pc:
                if isinstance(c, tuple) and c and c[0] == 'inloop':
                    continue
                try:
                    val = ev.ev(c)
                except NonConst:
                    val = None
                if val is False:
                    feas = False
                    break
                if val is not True:
                    decided = False
            if feas:
                feas_exits.append(ex)
                if decided:
                    break
        if not feas_exits:
            problems.append('step %d: no feasible exit' % k)
            break
        if reg is None and len(feas_exits) > 1:
            # which exit is taken depends on the data: the view is not a fixed linear map of its inputs from here on
            problems.append('step %d: the exit taken depends on the data (%s)' % (k, tstr(next((c for c in feas_exits[0].pc if isinstance(c, tuple) and c and c[0] != 'inloop' and ev.ev(c) is not True), ('?',)))[:80]))
            datadep_exit = True
            feas_exits = feas_exits[:1]
        if probe is not None:
            # the caller examines intermediate terms of this step: evaluator over the entry state (current input = 'u')
            probe(k, ev, feas_exits[0])
        cand = []
        for ex in feas_exits:
            ns = dict(state)
            for cell, t in ex.fields.items():
                try:
                    ns[cell] = ev.ev(t)
                except NonConst:
                    problems.append('step %d: cannot evaluate %s' % (k, cell))
            cand.append(ns)
        if len(cand) == 1:
            new_state = cand[0]
        else:
            # which exit is taken depends on the data: every cell becomes a data-dependent selection among the alternatives
            new_state = dict(state)
            for cell in set().union(*[set(c_) for c_ in cand]):
                vals = [c_.get(cell, state.get(cell)) for c_ in cand]
                new_state[cell] = _merge_alternatives(ev, cell, vals, problems, k)
        problems += ['step %d: %s' % (k, p) for p in ev.problems]
        state = {c: _rename_u(v, 'u%d' % k) for c, v in new_state.items()}
        ev2 = LinEval(state, m.last_vg.loops, nlreg=reg)
        try:
            out = ev2.ev(m.last_ret)
        except NonConst:
            out = 'nl'
        if isinstance(out, tuple) and out and out[0] == 'some':
            out = out[1]
        elif isinstance(out, tuple) and out and out[0] == 'none':
            out = None
        if out is not None and not isinstance(out, Form):
            out = 'nl'
        if isinstance(out, Form) and any(a.startswith('nl:') for a in out) and reg is None:
            out = 'nl'
        if datadep_exit and reg is None and out is not None:
            out = 'nl'
        if reg is not None and isinstance(out, Form):
            out = ('shift', ev2.shift(out), out)
        outs.append(out)
    return outs, problems
