"""E2 — forwarding protocol (C01, and the None-path clause of C08).

Path counting and def-use over the structured IR of `update` / `last`:
  R1  every path through update() forwards the raw value to each input child exactly once
  R1b a child's last() is read only after its update() on that path
  R2  the raw value is used for nothing else (asserts excepted)
  R3  no state is written before the gate, and the None path is inert
  R4  a combinator reports Some only when every input child does
  R5  only View::update / View::last are ever called on an input child
"""
from .sir import walk, children, pp, loc, canon
from .places import (place, self_id, self_field, callee_name, is_view_update, is_view_last,
                     pat_is_some, pat_is_none, pat_bindings, diverges, strip)


class St:
    __slots__ = ('counts', 'gated', 'dead', 'nonepath')

    def __init__(self, counts=None, gated=False, dead=False, nonepath=False):
        self.counts = dict(counts or {})
        self.gated = gated
        self.dead = dead
        self.nonepath = nonepath

    def copy(self):
        return St(self.counts, self.gated, self.dead, self.nonepath)


class UpdateProtocol:
    def __init__(self, view, R):
        self.v = view
        self.R = R
        self.fn = view.update
        self.sid = self_id(self.fn)
        ids = self.fn.param_ids()
        self.raw = ids[1][0] if len(ids) > 1 else None
        self.children = [f.name for f in view.children_fields()]
        self.concrete = {f.name for f in view.children_fields() if f.child_adt}
        self.input_children = set()
        self.gate_seen = False
        self.exits = 0
        self.depth_loop = 0
        self.helper_returns = None
        self.inline_depth = 0
        # pre-pass: which children receive the raw local
        for n in walk(self.fn.body):
            if is_view_update(n) and len(n['args']) == 2:
                c = self.child_of(n['args'][0])
                a = strip(n['args'][1])
                if c and a.get('k') == 'local' and a.get('id') == self.raw:
                    self.input_children.add(c)
        # a generic (type-parameter) child that is never fed the raw value is an internal child;
        # a view whose only children are never fed anything has a missing forward: make every
        # generic child named like the first child an input child so that R1 reports it
        if not self.input_children:
            for f in view.children_fields():
                if not f.child_adt:
                    self.input_children.add(f.name)
                    break

    def where(self, n):
        return loc(n)

    def child_of(self, e):
        f = self_field(e, self.sid)
        if f in self.children:
            return f
        return None

    def viol(self, rule, key, msg, n=None):
        self.R.violation(rule, '%s:%s' % (self.v.name, key), msg, self.where(n) if n else self.v.file)

    # ---------------------------------------------------------------- walking
    def run(self):
        st = St({c: 0 for c in self.children})
        st = self.ev(self.fn.body, st)
        if not st.dead:
            self.exit(st, self.fn.body, 'end of update')
        self.check_raw_uses()
        return self

    def exit(self, st, n, what):
        self.exits += 1
        for c in self.children:
            k = st.counts.get(c, 0)
            if c in self.input_children:
                if k == 0:
                    self.viol('R1', c + ':not-forwarded', 'path ending at %s (%s) never forwards the raw value to child `%s`' % (
                        self.where(n), what, c), n)
                elif k > 1:
                    self.viol('R1', c + ':forwarded-twice', 'child `%s` is updated %d times on the path ending at %s' % (c, k, self.where(n)), n)
            else:
                if k > 1:
                    self.viol('R1', c + ':internal-twice', 'internal child `%s` is updated %d times on one path' % (c, k), n)

    def mutation(self, st, n, what):
        if st.nonepath:
            self.viol('R3', 'none-path-writes', 'state is written on the path where the inner view has no output: %s' % what, n)
        elif not st.gated and self.input_children:
            self.viol('R3', 'pre-gate-write', 'state is written before / without testing the inner view\'s last(): %s' % what, n)

    def is_gate_init(self, e):
        """`self.<input child>.last()` -> child name"""
        e = strip(e)
        if is_view_last(e):
            c = self.child_of(e['args'][0])
            if c in self.input_children:
                return c
        return None

    def ev(self, n, st):
        if st.dead:
            return st
        k = n.get('k')
        if k == 'block':
            for s in n['stmts']:
                st = self.ev(s, st)
                if st.dead:
                    return st
            if 'expr' in n:
                st = self.ev(n['expr'], st)
            return st
        if k in ('expr', 'semi'):
            return self.ev(n['e'], st)
        if k == 'let':
            if 'init' in n:
                gate = self.is_gate_init(n['init']) if pat_is_some(n['pat']) is not None else None
                st = self.ev(n['init'], st)
                if 'els' in n:
                    if gate:
                        self.gate_seen = True
                        ns = st.copy()
                        ns.nonepath = True
                        ns = self.ev(n['els'], ns)
                        if not ns.dead:
                            self.viol('R3', 'gate-else-falls-through', 'let-else on the child\'s last() does not diverge', n)
                        st.gated = True
                    else:
                        es = self.ev(n['els'], st.copy())
                        if not es.dead:
                            self.viol('R3', 'let-else-falls-through', 'let-else does not diverge', n)
            return st
        if k == 'if':
            cond = n['cond']
            gate = None
            if cond.get('k') == 'letexpr':
                if pat_is_some(cond['pat']) is not None:
                    gate = self.is_gate_init(cond['init'])
                st = self.ev(cond['init'], st)
            else:
                st = self.ev(cond, st)
            ts = st.copy()
            es = st.copy()
            if gate:
                self.gate_seen = True
                ts.gated = True
                es.nonepath = True
            ts = self.ev(n['then'], ts)
            if 'else' in n:
                es = self.ev(n['else'], es)
            return self.join(ts, es, n, gate_else=bool(gate))
        if k == 'match':
            gate = self.is_gate_init(n['scrut'])
            st = self.ev(n['scrut'], st)
            outs = []
            for a in n['arms']:
                s = st.copy()
                if gate:
                    self.gate_seen = True
                    if pat_is_some(a['pat']) is not None:
                        s.gated = True
                    elif pat_is_none(a['pat']) or a['pat']['k'] == 'wild':
                        s.nonepath = True
                if 'guard' in a:
                    s = self.ev(a['guard'], s)
                s = self.ev(a['body'], s)
                outs.append((s, pat_is_none(a['pat']) or a['pat']['k'] == 'wild'))
            res = None
            for s, is_none in outs:
                if res is None:
                    res = s
                    if gate and is_none and not s.dead:
                        res = s.copy()
                        res.gated = False
                else:
                    res = self.join(res, s, n, gate_else=bool(gate) and is_none)
            return res if res is not None else st
        if k in ('loop', 'for', 'closure'):
            if k == 'for':
                st = self.ev(n['iter'], st)
            self.depth_loop += 1
            body = n['body']
            before = dict(st.counts)
            s2 = self.ev(body, st.copy())
            self.depth_loop -= 1
            for c in self.children:
                if s2.counts.get(c, 0) != before.get(c, 0):
                    self.viol('R1', c + ':in-loop', 'child `%s` is updated inside a loop / closure' % c, n)
            s2.dead = False if k != 'loop' else s2.dead
            s2.counts = before
            s2.gated = st.gated
            s2.nonepath = st.nonepath
            return s2
        if k == 'ret':
            if 'e' in n:
                st = self.ev(n['e'], st)
            if self.helper_returns is not None:
                self.helper_returns.append(st.copy())   # returns to the caller inside update(), not out of update()
                st.dead = True
                return st
            self.exit(st, n, 'return')
            st.dead = True
            return st
        if k == 'try':
            gate = self.is_gate_init(n['e'])
            st = self.ev(n['e'], st)
            if st.dead:
                return st
            ns = st.copy()
            if gate:
                self.gate_seen = True
                ns.nonepath = True
                st.gated = True
            if self.helper_returns is not None:
                self.helper_returns.append(ns)
            else:
                self.exit(ns, n, '?')
            return st
        if k in ('break', 'continue'):
            # only legal inside loops; the loop handler restores the state
            st.dead = True
            return st
        if k == 'massert':
            if n['name'] == 'panic':
                st.dead = True
            return st
        if k == 'call':
            for a in n['args']:
                st = self.ev(a, st)
                if st.dead:
                    return st
            name = callee_name(n)
            if is_view_update(n):
                c = self.child_of(n['args'][0]) if n['args'] else None
                if c:
                    st.counts[c] = st.counts.get(c, 0) + 1
                    if c not in self.input_children:
                        self.mutation(st, n, 'internal child `%s` updated' % c)
                    elif st.nonepath:
                        pass
                    return st
            if is_view_last(n):
                c = self.child_of(n['args'][0]) if n['args'] else None
                if c and st.counts.get(c, 0) == 0:
                    self.viol('R1b', c + ':last-before-update', 'child `%s`.last() is read before its update() on this path' % c, n)
                return st
            # a private helper of the same view called on self: analyse its body in place (the gate may live in there)
            helper = None
            if n.get('callee') and n['args'] and place(n['args'][0], self.sid) == ('self',):
                for h in self.v.helpers:
                    if h.defpath == n['callee']['def'] and self.inline_depth < 3:
                        helper = h
            if helper is not None:
                saved = (self.sid, self.raw, self.helper_returns)
                hid = self_id(helper)
                new_raw = None
                hparams = helper.param_ids()
                for i, a in enumerate(n['args'][1:], start=1):
                    a0 = strip(a)
                    if a0.get('k') == 'local' and a0.get('id') == self.raw and i < len(hparams):
                        new_raw = hparams[i][0]
                self.sid, self.raw, self.helper_returns = hid, new_raw, []
                self.inline_depth += 1
                try:
                    out = self.ev(helper.body, st.copy())
                    rets = self.helper_returns
                finally:
                    self.inline_depth -= 1
                    self.sid, self.raw, self.helper_returns = saved
                res = None if out.dead else out
                for r in rets:
                    res = r if res is None else self.join(res, r, n)
                if res is None:
                    st.dead = True
                    return st
                res.dead = False
                return res
            # any other call touching a child
            for i, a in enumerate(n['args']):
                c = self.child_of(a)
                if c and (c in self.input_children or c not in self.concrete):
                    self.viol('R5', '%s:%s' % (c, name), 'child `%s` is passed to %s: only View::update / View::last may be used on an inner view' % (c, name), n)
            # mutation through &mut receiver / &mut argument rooted at self
            adj = n.get('recv_ty_adj', '')
            if 'method' in n and adj.startswith('&mut') and n['args']:
                p = place(n['args'][0], self.sid)
                if p and p[0] == 'self':
                    self.mutation(st, n, pp(n)[:80])
            for a in n['args'][(1 if 'method' in n else 0):]:
                if a.get('k') == 'addr' and a.get('mut'):
                    p = place(a, self.sid)
                    if p and p[0] == 'self':
                        self.mutation(st, n, pp(n)[:80])
            return st
        if k in ('assign', 'assignop'):
            st = self.ev(n['r'], st)
            p = place(n['l'], self.sid)
            if p and p[0] == 'self':
                if len(p) >= 2 and p[1] in self.children and (p[1] in self.input_children or p[1] not in self.concrete):
                    self.viol('R5', p[1] + ':replaced', 'inner view `%s` is reassigned inside update' % p[1], n)
                self.mutation(st, n, pp(n)[:80])
            else:
                st = self.ev(n['l'], st)
            return st
        for c in children(n):
            st = self.ev(c, st)
            if st.dead:
                return st
        return st

    def join(self, a, b, n, gate_else=False):
        if a.dead and b.dead:
            return a
        if a.dead:
            r = b.copy()
            if gate_else:
                r.gated = False
            return r
        if b.dead:
            return a
        for c in self.children:
            if a.counts.get(c, 0) != b.counts.get(c, 0) and c in self.input_children:
                self.viol('R1', c + ':branch-disagrees', 'child `%s` is forwarded on one branch only (%d vs %d updates)' % (
                    c, a.counts.get(c, 0), b.counts.get(c, 0)), n)
        r = a.copy()
        for c in self.children:
            r.counts[c] = max(a.counts.get(c, 0), b.counts.get(c, 0))
        r.gated = a.gated and b.gated and not gate_else
        r.nonepath = a.nonepath and b.nonepath
        return r

    # ---------------------------------------------------------------- R2
    def check_raw_uses(self):
        if self.raw is None or not self.children:
            return
        allowed = set()
        uses = []

        def rec(n, in_assert):
            k = n.get('k')
            if k == 'massert':
                return
            if is_view_update(n) and len(n['args']) == 2 and self.child_of(n['args'][0]):
                a = strip(n['args'][1])
                if a.get('k') == 'local' and a.get('id') == self.raw:
                    rec(n['args'][0], in_assert)
                    return
            if k == 'local' and n.get('id') == self.raw:
                uses.append(n)
                return
            for c in children(n):
                rec(c, in_assert)
        rec(self.fn.body, False)
        for u in uses:
            self.viol('R2', 'raw-value-used', 'the raw update() argument is used outside the forwarding call (the wrapper must only see its inner view\'s output)', u)
        self.R.ob('R2', self.v.name, not uses, 'raw parameter confined to %d forwarding call(s) and asserts' % len(self.input_children), self.fn.file)


# ----------------------------------------------------------------------------------------------
# R4: presence analysis of last() for views with >= 2 input children

TOP = 'TOP'  # always Some
BOT = 'BOT'  # None


class Presence:
    """Abstractly evaluate Option-valued expressions to the set of children that must be Some."""

    def __init__(self, view, R, input_children):
        self.v, self.R = view, R
        self.fn = view.last
        self.sid = self_id(self.fn)
        self.inputs = set(input_children)
        self.results = []  # (deps or TOP/BOT/None, node)
        self.env = {}

    def child_of(self, e):
        f = self_field(e, self.sid)
        return f if f in self.inputs else None

    def run(self):
        r = self.block(self.fn.body, frozenset())
        if r != 'RECORDED':
            self.results.append((r, self.fn.body))
        self.results = [(d, n) for d, n in self.results if d != 'RECORDED']
        ok = True
        n_some = 0
        for deps, node in self.results:
            if deps == BOT:
                continue
            n_some += 1
            if deps is None:
                self.R.violation('R4', self.v.name + ':unrecognised', 'cannot determine when last() returns Some here: %s' % pp(node)[:100], loc(node))
                ok = False
            elif deps == TOP or not self.inputs <= set(deps):
                missing = sorted(self.inputs - (set(deps) if deps != TOP else set()))
                self.R.violation('R4', self.v.name + ':some-without-' + '+'.join(missing),
                                 'last() can return Some while child(ren) %s have no output: %s' % (missing, pp(node)[:100]), loc(node))
                ok = False
        self.R.ob('R4', self.v.name, ok and n_some > 0, '%d Some-returning exits, each conditioned on all of %s being Some' % (n_some, sorted(self.inputs)), self.fn.file)

    # value of an Option expression under path deps `pd`
    def opt(self, e, pd):
        e0 = e
        e = strip(e)
        k = e.get('k')
        if is_view_last(e):
            c = self.child_of(e['args'][0])
            if c:
                return frozenset(pd | {c})
            return None
        if k == 'local':
            return self.env.get(e['id'])
        if k == 'ctor' and callee_name(e) == 'Some' or (k == 'call' and callee_name(e) == 'Some'):
            return frozenset(pd)
        if k == 'path' and canon(e['def']) == 'None':
            return BOT
        if k == 'call':
            name = callee_name(e)
            short = name.split('::')[-1] if name else ''
            if name and name.startswith('std::option::Option::'):
                recv = self.opt(e['args'][0], pd)
                if short in ('map', 'copied', 'cloned', 'filter', 'inspect', 'as_ref', 'as_mut', 'take'):
                    if short == 'filter':
                        return recv
                    return recv
                if short in ('zip', 'and', 'zip_with'):
                    other = self.opt(e['args'][1], pd)
                    return self.both(recv, other)
                if short == 'and_then':
                    cl = strip(e['args'][1])
                    if cl.get('k') == 'closure' and recv not in (None,):
                        if recv == BOT:
                            return BOT
                        inner = self.expr_result(cl['body'], frozenset(pd | (recv if recv != TOP else frozenset())))
                        return inner
                    return None
                if short in ('or', 'or_else', 'xor', 'get_or_insert', 'get_or_insert_with'):
                    return None
            return None
        if k == 'block':
            return self.block(e, pd)
        if k == 'if' or k == 'match':
            return self.expr_result(e, pd)
        if k == 'try':
            return None
        return None

    def both(self, a, b):
        if a is None or b is None:
            return None
        if a == BOT or b == BOT:
            return BOT
        if a == TOP:
            return b
        if b == TOP:
            return a
        return frozenset(a | b)

    def joinr(self, rs):
        """Combine alternative results: record each separately."""
        return rs

    def expr_result(self, e, pd):
        """Evaluate an expression in tail position; returns a presence value or records several."""
        k = e.get('k')
        if k == 'block':
            return self.block(e, pd)
        if k == 'if':
            cond = e['cond']
            pd_then = pd
            pd_else = pd
            if cond.get('k') == 'letexpr':
                inner = pat_is_some(cond['pat'])
                o = self.opt(cond['init'], pd)
                if inner is not None and isinstance(o, frozenset):
                    pd_then = frozenset(pd | o)
                self.bind_pat(cond['pat'], cond['init'], pd)
            else:
                pd_then, pd_else = self.refine(cond, pd)
            t = self.expr_result(e['then'], pd_then)
            if t is not None or e['then'].get('ty') != '!':
                self.results.append((t, e['then'])) if not diverges(e['then']) else None
            if 'else' in e:
                r = self.expr_result(e['else'], pd_else)
                if not diverges(e['else']):
                    self.results.append((r, e['else']))
            return 'RECORDED'
        if k == 'match':
            scr = strip(e['scrut'])
            elems = None
            if scr.get('k') == 'tuple':
                elems = [self.opt(x, pd) for x in scr['es']]
            else:
                elems = [self.opt(scr, pd)]
            for a in e['arms']:
                pats = [a['pat']]
                if a['pat']['k'] == 'por':
                    pats = a['pat']['pats']
                for p in pats:
                    apd = self.match_pat(p, elems, pd)
                    r = self.expr_result(a['body'], apd) if apd is not None else self.expr_result(a['body'], pd)
                    if apd is None and r not in (BOT, 'RECORDED'):
                        r = None
                    if r != 'RECORDED' and not diverges(a['body']):
                        self.results.append((r, a['body']))
            return 'RECORDED'
        if k == 'ret':
            if 'e' in e:
                r = self.expr_result(e['e'], pd)
                if r != 'RECORDED':
                    self.results.append((r, e))
            return 'RECORDED'
        if k == 'massert':
            return 'RECORDED'
        return self.opt(e, pd)

    def match_pat(self, p, elems, pd):
        """Path deps after matching pattern p against the scrutinee elements; None if unknown."""
        ps = p['pats'] if p['k'] == 'ptuple' else [p]
        if len(ps) != len(elems):
            return None if p['k'] != 'wild' else pd
        out = set(pd)
        for sub, el in zip(ps, elems):
            if pat_is_some(sub) is not None:
                if el is None:
                    return None
                if isinstance(el, frozenset):
                    out |= el
                elif el == BOT:
                    return frozenset(out)  # unreachable arm
            # None / wild / binding: no information
        return frozenset(out)

    def refine(self, cond, pd):
        """`x.is_some()` / `x.is_none()` on a child's last() refine the path deps."""
        c = strip(cond)
        neg = False
        if c.get('k') == 'un' and c.get('op') == 'Not':
            neg = True
            c = strip(c['e'])
        if c.get('k') == 'call' and callee_name(c) in ('std::option::Option::is_some', 'std::option::Option::is_none'):
            o = self.opt(c['args'][0], pd)
            is_some = callee_name(c).endswith('is_some') != neg
            if isinstance(o, frozenset):
                return (frozenset(o), pd) if is_some else (pd, frozenset(o))
        if c.get('k') == 'bin' and c.get('op') in ('And',):
            a1, _ = self.refine(c['l'], pd)
            a2, _ = self.refine(c['r'], a1)
            return a2, pd
        if c.get('k') == 'bin' and c.get('op') in ('Or',) :
            _, e1 = self.refine(c['l'], pd)
            _, e2 = self.refine(c['r'], e1)
            return pd, e2
        return pd, pd

    def bind_pat(self, pat, init, pd):
        inner = pat_is_some(pat)
        if pat['k'] == 'bind':
            self.env[pat['id']] = self.opt(init, pd)

    def block(self, b, pd):
        for s in b['stmts']:
            k = s['k']
            if k == 'let':
                init = s.get('init')
                if init is None:
                    continue
                if 'els' in s:
                    inner = pat_is_some(s['pat'])
                    i1 = strip(init)
                    if s['pat']['k'] == 'ptuple' and i1.get('k') == 'tuple':
                        elems = [self.opt(x, pd) for x in i1['es']]
                        r = self.expr_result(s['els'], pd)
                        if r not in ('RECORDED',) and not diverges(s['els']):
                            self.results.append((r, s['els']))
                        apd = self.match_pat(s['pat'], elems, pd)
                        if apd is not None:
                            pd = apd
                        continue
                    o = self.opt(init, pd)
                    if inner is not None and isinstance(o, frozenset):
                        pd = frozenset(o)
                    r = self.expr_result(s['els'], pd)
                    continue
                i0 = strip(init)
                if i0.get('k') == 'try':
                    o = self.opt(i0['e'], pd)
                    if isinstance(o, frozenset):
                        pd = frozenset(o)
                    elif o is None:
                        # unknown option: cannot add deps, but `?` returns None otherwise: fine
                        pass
                    continue
                if s['pat']['k'] == 'bind':
                    self.env[s['pat']['id']] = self.opt(init, pd)
                elif s['pat']['k'] == 'ptuple' and i0.get('k') == 'tuple':
                    for sp, el in zip(s['pat']['pats'], i0['es']):
                        if sp['k'] == 'bind':
                            self.env[sp['id']] = self.opt(el, pd)
                continue
            if k in ('expr', 'semi'):
                e = s['e']
                if e.get('k') in ('if', 'match', 'ret'):
                    # statement-position control flow: evaluate it like a tail expression; only `return`s inside
                    # produce recorded results (unit-valued branches are filtered out)
                    r = self.expr_result(e, pd)
                    # refinement from `if x.is_none() { return None; }`
                    if e.get('k') == 'if' and diverges(e['then']) and 'else' not in e and e['cond'].get('k') != 'letexpr':
                        _, pd = self.refine(e['cond'], pd)
                continue
        if 'expr' in b:
            return self.expr_result(b['expr'], pd)
        return 'RECORDED'

    def stmt_returns(self, e, pd):
        for x in walk(e):
            if x.get('k') == 'ret' and 'e' in x:
                # conservative: evaluate under the refined deps of enclosing simple conditions
                pdx = pd
                if e.get('k') == 'if':
                    t, el = self.refine(e['cond'], pd)
                    if any(y is x for y in walk(e['then'])):
                        pdx = t
                    else:
                        pdx = el
                r = self.opt(x['e'], pdx)
                self.results.append((r, x))


def vg_presence(F, v, inputs):
    from .model import model
    from .vg import subterms, is_some
    from .terms import eval3
    import itertools
    m = model(F, v)
    if m.last_vg.unknowns:
        return False, 'unknown constructs in last()'
    t = is_some(m.last_ret)
    atoms = sorted({x for x in subterms(m.last_ret) if x[0] == 'childlast'}, key=str)
    kids = sorted({a[1] for a in atoms})
    if set(kids) != set(inputs):
        return False, 'last() does not read every input child'
    for combo in itertools.product((True, False), repeat=len(kids)):
        asg = {}
        for a in atoms:
            asg[is_some(a)] = combo[kids.index(a[1])]
            asg[('is_some', a)] = combo[kids.index(a[1])]
        r = eval3(t, asg)
        if r is None or r != all(combo):
            return False, 'presence of the result is %s when the children report %s' % (r, dict(zip(kids, combo)))
    return True, 'last() is Some exactly when every one of %s reports' % kids


def vg_protocol(F, v):
    """The forwarding protocol read off the value graph of update(): (ok, summary).
    V1 every input child is fed exactly once, unconditionally, with the raw argument itself;
    V1b every read of a child's last() sees the child after that update (epoch >= 1);
    V2 neither the state nor the reported value depends on the raw argument;
    V3 the path on which an input child delivers nothing changes no field;
    V5 no unknown construct (any other use of an inner view is one)."""
    from .model import model
    from .vg import subterms
    from .terms import nondelivering
    m = model(F, v)
    vg = m.up_vg
    if vg.unknowns or m.last_vg.unknowns:
        return False, 'unknown constructs'
    kids = [f.name for f in v.children_fields()]
    inputs = []
    for cp in kids:
        feeds = vg.child_fed.get(cp, [])
        raw = [f_ for f_ in feeds if f_[1][0] == 'arg']
        if raw:
            inputs.append(cp)
            if len(feeds) != 1 or any(isinstance(c, tuple) and c and c[0] != 'inloop' for c in feeds[0][0]) or any(isinstance(c, tuple) and c and c[0] == 'inloop' for c in feeds[0][0]):
                return False, 'child %s is not fed exactly once, unconditionally' % cp
    if not inputs:
        return False, 'no child receives the raw argument'
    terms = []
    for ex in m.up_exits:
        terms += list(ex.fields.values()) + [c for c in ex.pc if isinstance(c, tuple)]
    # (last() runs after update(): a child read there is the child's current output, epoch 0 of that function's own graph)
    for t in terms:
        for x in subterms(t):
            if x[0] == 'childlast' and x[1] in inputs and x[2] < 1:
                return False, 'last() of %s is read before its update' % x[1]
            if x[0] == 'child' and x[1] in inputs and x[2] < 1:
                return False, 'output of %s is read before its update' % x[1]
    for ex in m.up_exits:
        for k, t in ex.fields.items():
            if any(x[0] == 'arg' for x in subterms(t)):
                return False, 'field %s depends on the raw argument' % k
        if nondelivering(ex.pc, inputs):
            for k, t in ex.fields.items():
                if t != ('in', k):
                    return False, 'field %s is written although nothing was delivered' % k
    if any(x[0] == 'arg' for x in subterms(m.last_ret)):
        return False, 'last() depends on an argument'
    return True, 'fed once unconditionally with the raw value, read after the update, no raw value in state, inert None path, no unknown construct'


def run_c01(F, R):
    R.trust('rustc front end: resolved callees (View::update / View::last), binding ids (shadowing), field places')
    R.trust('parametricity: a child of generic type V: View<T> with private fields can only be observed through update/last (R5 checks this for every call site)')
    R.assume('the inner view is itself deterministic and pure (C17)')
    n_edges = 0
    n_gated = 0
    n_internal = 0
    for v in F.views:
        if not v.update or not v.last:
            R.violation('CATALOGUE', v.name, 'View impl without update/last')
            continue
        kids = v.children_fields()
        if not kids:
            R.ob('R0-leaf', v.name, True, 'leaf view (no inner view): nothing to forward; behaviour covered by C14', v.file)
            continue
        # Two independent analyses of the same protocol: (a) path counting / def-use over the structured IR (below), which knows
        # the usual spellings of the gate, and (b) the same clauses read off the value graph (vg_protocol), which sees through
        # helpers, destructured `self`, `?`, Option combinators and reference aliases. A report of (a) stands unless (b) proves
        # every clause for this view on a graph without unknown constructs.
        start = len(R.obligations)
        up = UpdateProtocol(v, R)
        up.run()
        synt_fail = [o for o in R.obligations[start:] if not o[2]]
        if synt_fail:
            okv, whyv = vg_protocol(F, v)
            if okv:
                # the syntactic walker did not recognise the spelling; the value-graph analysis decides
                kept = [o for o in R.obligations[start:] if o[2]]
                del R.obligations[start:]
                R.obligations.extend(kept)
                for o in synt_fail:
                    R.rule_counts[o[0]] = max(0, R.rule_counts.get(o[0], 1) - 1)
                R.ob('R1v', v.name, True, 'forwarding protocol established on the value graph (%s); the syntactic walker did not recognise the spelling: %s' % (whyv, synt_fail[0][3][:80]), v.file)
                for rule_ in sorted({o[0] for o in synt_fail}):
                    R.ob(rule_, '%s:by-value-graph' % v.name, True, 'clause decided on the value graph (R1v)', v.file)
                if not any(o[0] == 'R2' for o in R.obligations[start:]):
                    R.ob('R2', '%s:by-value-graph' % v.name, True, 'clause decided on the value graph (R1v)', v.file)
                from .model import model as _model
                if _model(F, v).touched:
                    up.gate_seen = True     # state is written, and V3 showed it is only written when the inner view delivered
                # which children receive the raw value is read off the value graph as well
                fed_raw = {cp for cp, feeds in _model(F, v).up_vg.child_fed.items() if any(f_[1][0] == 'arg' for f_ in feeds)}
                up.input_children = {c for c in up.children if c in fed_raw} or up.input_children
        clean = not [o for o in R.obligations[start:] if not o[2]]
        for c in up.children:
            if c in up.input_children:
                n_edges += 1
                R.ob('R1', '%s:%s' % (v.name, c), clean, 'every one of %d exits forwards the raw value to `%s` exactly once, before any read of its last()' % (up.exits, c), v.file)
            else:
                n_internal += 1
                R.ob('R1-internal', '%s:%s' % (v.name, c), clean, 'internal child `%s` is updated at most once per path, after the gate, with a derived value' % c, v.file)
        if up.gate_seen:
            n_gated += 1
            R.ob('R3', v.name, clean, 'gate on the inner view\'s last() dominates every state write; None path returns with no write', v.file)
        else:
            # views without a gate must not write state at all in update (checked by `mutation`)
            R.ob('R3-stateless', v.name, clean, 'update() only forwards: no state written, nothing to gate', v.file)
        R.ob('R5', v.name, clean, 'inner views are used only through View::update / View::last', v.file)
        if len(up.input_children) >= 2:
            st4 = len(R.obligations)
            Presence(v, R, up.input_children).run()
            if any(not o[2] for o in R.obligations[st4:]):
                # second reading on the value graph: last() is Some exactly when every input child's last() is (3-valued
                # evaluation over the presence atoms), whatever helper / combinator spells it
                okp, whyp = vg_presence(F, v, up.input_children)
                if okp:
                    del R.obligations[st4:]
                    R.ob('R4', v.name, True, 'on the value graph: ' + whyp, v.file)
    # R6: an inner view is observed and driven only from View::update / View::last: constructors and every other inherent
    # method must not call View::update / View::last at all (a wrapper whose initial state depends on its child's current
    # output is not the stand-alone wrapper of the decomposition)
    n_other = 0
    for v in F.views:
        if not v.children_fields():
            continue
        fns = [f for f in F.fns_of(v.adt_path) if not f.derived and f is not v.update and f is not v.last]
        by_def = {f.defpath: f for f in fns}

        def child_calls(f, sid):
            # View::update / View::last applied to an inner view (a field of self, or a view passed in as an argument):
            # calling the wrapper's own last() from a helper or a Display impl observes nothing new
            out = []
            for n in walk(f.body):
                if (is_view_update(n) or is_view_last(n)) and n['args']:
                    if place(n['args'][0], sid) == ('self',):
                        continue
                    out.append(n)
            return out

        def callees(f):
            return [by_def[n['callee']['def']] for n in walk(f.body) if n.get('k') == 'call' and n.get('callee') and n['callee'].get('def') in by_def]
        # entry points other than View::update/last: constructors, public inherent methods, other trait impls (Display, ..)
        entries = [f for f in fns if f.vis.startswith('Public') or f.trait is not None or self_id(f) is None]
        for f in entries:
            n_other += 1
            seen = set()
            work = [f]
            bad = []
            while work:
                g = work.pop()
                if g.defpath in seen:
                    continue
                seen.add(g.defpath)
                bad += [(g, n) for n in child_calls(g, self_id(g))]
                work += callees(g)
            R.ob('R6', '%s::%s' % (v.name, f.name), not bad,
                 'no View::update / View::last call on an inner view outside the View impl' if not bad else
                 '%s reaches a call of %s on an inner view at %s (in %s): the wrapper observes or drives its inner view outside update()/last()' % (
                     f.name, callee_name(bad[0][1]), loc(bad[0][1]), bad[0][0].name), loc(bad[0][1]) if bad else f.file)
    # last() must not drive anything (it cannot through &self unless a child is cloned first)
    for v in F.views:
        if v.last is None:
            continue
        bad = [n for n in walk(v.last.body) if is_view_update(n)]
        if bad:
            R.violation('R6', v.name + '::last:update-call', 'View::update is called inside last()', loc(bad[0]))
    R.floor('R6', 30)
    # the same inertness / no-raw clauses decided on the value graph, which sees through reference aliases and helpers
    from .e_typed_props import inert_none_path
    from .e_window import no_raw_in_state
    wrappers = [v.name for v in F.views if v.children_fields() and len(v.children_fields()) >= 1]
    inert_none_path(F, R, wrappers, 'R3v')
    no_raw_in_state(F, R, wrappers, 'R2v')
    R.floor('R3v', 30)
    R.floor('R2v', 30)
    R.floor('R1', 40)
    R.floor('R1-internal', 5)
    R.floor('R2', 36)
    R.floor('R3', 31)
    R.floor('R4', 4)
    R.floor('R5', 36)
    R.extra['input_child_edges'] = n_edges
    R.extra['internal_child_edges'] = n_internal
    R.extra['gated_views'] = n_gated
    R.decline('"bit-identical" relies on the inner view being deterministic (C17); nothing else of the statement is left undecided')
