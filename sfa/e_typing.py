"""Flow-insensitive typing of value-graph terms with a fixpoint over state cells.

Two type systems share one evaluator:
  * Degree  — homogeneity degree under x -> a·x, a > 0 (C12)
  * Lin     — ZERO / COEF (input-independent) / LIN (linear homogeneous in the inputs) / TOP (C10, C04)
Both record *complaints* (rule instance + explanation) instead of raising: adding quantities of different
degree, comparing a dimensional quantity with an absolute constant, a data-dependent branch, …
"""
from fractions import Fraction
from .vg import subterms, tstr, VG, exits_value
from .model import model

TOP = 'TOP'
POLY = 'POLY'   # literal zero / sentinel: compatible with every degree
ZERO = 'ZERO'
COEF = 'COEF'
LIN = 'LIN'


class Domain:
    name = '?'

    def __init__(self):
        self.complaints = []   # (rule, message, term)
        self.complaint_terms = []   # the raw terms, parallel to complaints
        self.datadep = []

    origin = 'update'

    def complain(self, rule, msg, t):
        self.complaints.append((rule, msg + ' [in %s]' % self.origin, tstr(t)[:120]))
        self.complaint_terms.append(t)


class Degree(Domain):
    name = 'degree'
    ABS_CONSTS = ('epsilon', 'min_positive_value')

    def lit(self, t):
        if t[2] == 'f':
            return POLY if t[1] == 0 else Fraction(0)
        return Fraction(0)

    def sentinel(self, name):
        if name in self.ABS_CONSTS:
            return Fraction(0)
        return POLY

    def param(self, path):
        return Fraction(0)

    def child(self):
        return Fraction(1)

    def int_(self):
        return Fraction(0)

    def join(self, a, b, t=None, what='joins'):
        if a is None:
            return b
        if b is None:
            return a
        if a == TOP or b == TOP:
            return TOP
        if a == POLY:
            return b
        if b == POLY:
            return a
        if a == b:
            return a
        if t is not None:
            self.complain('D-mix', '%s quantities of different homogeneity degree (%s vs %s)' % (what, a, b), t)
        return TOP

    def add(self, a, b, t):
        return self.join(a, b, t, 'adds/subtracts')

    def mul(self, a, b, t):
        if a == TOP or b == TOP:
            return TOP
        if a == POLY or b == POLY:
            return POLY
        return a + b

    def div(self, a, b, t):
        if a == TOP or b == TOP:
            return TOP
        if a == POLY:
            return POLY
        if b == POLY:
            return TOP
        return a - b

    def cmp(self, a, b, t):
        if a == TOP or b == TOP:
            return
        if a == POLY or b == POLY or a == b:
            return
        self.complain('D-cmp', 'compares quantities of different homogeneity degree (%s vs %s): an absolute threshold breaks unit invariance' % (a, b), t)

    def fn(self, name, args, t):
        a = args[0] if args else Fraction(0)
        if name in ('neg', 'abs'):
            return a
        if name in ('floor', 'ceil', 'round', 'trunc', 'fract', 'to_int'):
            if a not in (POLY, Fraction(0), TOP):
                self.complain('D-round', '%s of a quantity of degree %s: rounding to the integer grid is an absolute scale' % (name, a), t)
                return TOP
            return a if name != 'to_int' else Fraction(0)
        if name == 'sqrt':
            return a if a in (TOP, POLY) else a / 2
        if name == 'cbrt':
            return a if a in (TOP, POLY) else a / 3
        if name == 'powi':
            return a  # exponent handled by caller
        if name in ('signum', 'is_nan', 'is_finite', 'is_infinite', 'is_normal', 'is_sign_negative', 'is_sign_positive'):
            return Fraction(0)
        if name in ('max', 'min', 'clamp', 'copysign'):
            r = a
            for b in args[1:]:
                r = self.join(r, b, t, name + ' mixes')
            return r
        if name in ('exp', 'ln', 'log2', 'log10', 'tanh', 'cos', 'sin', 'tan', 'exp2', 'ln_1p', 'exp_m1', 'atan', 'asin',
                    'acos', 'sinh', 'cosh', 'powf'):
            if a not in (POLY, Fraction(0), TOP):
                self.complain('D-transcendental', '%s of a quantity of degree %s is not scale invariant' % (name, a), t)
                return TOP
            return Fraction(0) if a != TOP else TOP
        if name == 'recip':
            return a if a in (TOP, POLY) else -a
        if name == 'hypot' and len(args) == 2:
            return self.join(args[0], args[1], t, 'hypot mixes')
        if name == 'mul_add' and len(args) == 3:
            return self.add(self.mul(args[0], args[1], t), args[2], t)
        if name == 'atan2' and len(args) == 2:
            self.join(args[0], args[1], t, 'atan2 mixes')
            return Fraction(0)
        if name in ('to_degrees', 'to_radians'):
            return a
        self.complain('D-unknown-fn', 'function %s has no homogeneity rule' % name, t)
        return TOP

    def powi(self, a, k):
        if a in (TOP, POLY):
            return a
        return a * k

    def cond(self, t):
        pass


ODD = 'ODD'
EVEN = 'EVEN'


class Parity(Domain):
    """Behaviour under x -> -x of every input: ODD (the value changes sign), EVEN (unchanged), POLY (literal zero: both).
    A comparison whose operands change sign changes direction, so the branch taken is not the same for x and -x: only
    equality tests and comparisons of even quantities are admitted (views that pair mirrored branches -- Min/Max, Rsi's gains
    and losses, NET's sign count -- are outside this type system)."""
    name = 'parity'

    def lit(self, t):
        if t[2] == 'f':
            return POLY if t[1] == 0 else EVEN
        return EVEN

    def sentinel(self, name):
        return EVEN

    def param(self, path):
        return EVEN

    def child(self):
        return ODD

    def int_(self):
        return EVEN

    def join(self, a, b, t=None, what='joins'):
        if a is None:
            return b
        if b is None:
            return a
        if a == TOP or b == TOP:
            return TOP
        if a == POLY:
            return b
        if b == POLY:
            return a
        if a == b:
            return a
        if t is not None:
            self.complain('P-mix', '%s a quantity that changes sign with the input and one that does not' % what, t)
        return TOP

    def add(self, a, b, t):
        return self.join(a, b, t, 'adds/subtracts')

    def mul(self, a, b, t):
        if a == TOP or b == TOP:
            return TOP
        if a == POLY or b == POLY:
            return POLY
        return EVEN if a == b else ODD

    def div(self, a, b, t):
        if a == TOP or b == TOP or b == POLY:
            return TOP
        if a == POLY:
            return POLY
        return EVEN if a == b else ODD

    def cmp(self, a, b, t):
        if a == TOP or b == TOP:
            return
        if isinstance(t, tuple) and t and t[0] == 'op' and t[1] in ('eq', 'ne'):
            if ODD in (a, b) and EVEN in (a, b):
                self.complain('P-cmp', 'tests a sign-changing quantity for equality with one that does not change sign', t)
            return
        if a == ODD or b == ODD:
            self.complain('P-cmp', 'orders quantities that change sign with the input: the branch taken for -x is not the one taken for x', t)

    def fn(self, name, args, t):
        a = args[0] if args else EVEN
        if a == TOP:
            return TOP
        if name == 'neg':
            return a
        if name in ('abs', 'cos', 'cosh'):
            return EVEN if a != POLY else (POLY if name == 'abs' else EVEN)
        if name in ('signum',):
            # signum(0.0) = 1.0: not odd at zero
            if a == ODD:
                self.complain('P-fn', 'signum of a sign-changing quantity (signum(0) = 1 is not odd)', t)
                return TOP
            return EVEN
        if name in ('tanh', 'sin', 'tan', 'atan', 'asin', 'sinh', 'cbrt', 'to_degrees', 'to_radians', 'recip'):
            return a
        if name in ('is_nan', 'is_finite', 'is_infinite', 'is_normal'):
            return EVEN
        if name in ('is_sign_negative', 'is_sign_positive'):
            if a == ODD:
                self.complain('P-cmp', 'tests the sign of a sign-changing quantity', t)
            return EVEN
        if name in ('sqrt', 'exp', 'ln', 'log2', 'log10', 'exp2', 'ln_1p', 'exp_m1', 'acos', 'floor', 'ceil', 'round', 'trunc', 'fract', 'to_int', 'powf'):
            if any(x == ODD for x in args):
                self.complain('P-fn', '%s of a quantity that changes sign with the input' % name, t)
                return TOP
            return EVEN
        if name in ('max', 'min', 'clamp', 'copysign'):
            if any(x == ODD for x in args):
                self.complain('P-fn', '%s of sign-changing quantities: max(-a, -b) = -min(a, b), a mirrored branch this type system does not pair' % name, t)
                return TOP
            return EVEN
        if name == 'hypot' and len(args) == 2:
            return EVEN
        if name == 'mul_add' and len(args) == 3:
            return self.add(self.mul(args[0], args[1], t), args[2], t)
        if name == 'powi':
            return a
        self.complain('P-unknown-fn', 'function %s has no parity rule' % name, t)
        return TOP

    def powi(self, a, k):
        if a in (TOP, POLY):
            return a
        if a == EVEN:
            return EVEN
        return EVEN if k % 2 == 0 else ODD

    def cond(self, t):
        pass


class Lin(Domain):
    name = 'linearity'

    def lit(self, t):
        if t[2] == 'f':
            return ZERO if t[1] == 0 else COEF
        return COEF

    def sentinel(self, name):
        return COEF

    def param(self, path):
        return COEF

    def child(self):
        return LIN

    def int_(self):
        return COEF

    def join(self, a, b, t=None, what='joins'):
        if a is None:
            return b
        if b is None:
            return a
        if a == b:
            return a
        if a == ZERO:
            return b
        if b == ZERO:
            return a
        if a == TOP or b == TOP:
            return TOP
        if t is not None and what != 'joins':
            self.complain('L-affine', '%s an input-independent constant and a data-dependent value: the map is affine, not linear' % what, t)
        return TOP

    def add(self, a, b, t):
        return self.join(a, b, t, 'adds')

    def mul(self, a, b, t):
        if a == ZERO or b == ZERO:
            return ZERO
        if a == TOP or b == TOP:
            return TOP
        if a == COEF and b == COEF:
            return COEF
        if a == LIN and b == LIN:
            self.complain('L-product', 'multiplies two data-dependent values', t)
            return TOP
        return LIN

    def div(self, a, b, t):
        if a == ZERO:
            return ZERO
        if a == TOP or b == TOP:
            return TOP
        if b in (LIN, ZERO):
            self.complain('L-divide', 'divides by a data-dependent value', t)
            return TOP
        return a

    def cmp(self, a, b, t):
        if LIN in (a, b) or TOP in (a, b):
            self.datadep.append(t)

    def fn(self, name, args, t):
        a = args[0] if args else COEF
        if name == 'neg':
            return a
        if name == 'mul_add' and len(args) == 3:
            return self.add(self.mul(args[0], args[1], t), args[2], t)
        if name == 'recip' and len(args) == 1:
            return self.div(COEF, args[0], t)
        if all(x in (COEF, ZERO) for x in args):
            return COEF
        self.complain('L-nonlinear', 'applies the non-linear function %s to a data-dependent value' % name, t)
        return TOP

    def powi(self, a, k):
        if a in (COEF, ZERO):
            return a if a == ZERO and k > 0 else COEF
        if k == 1:
            return a
        self.complain('L-nonlinear', 'raises a data-dependent value to a power', ('lit', k, 'i'))
        return TOP

    def cond(self, t):
        pass


class TypeEval:
    """Evaluate the type of terms given types for ('in', cell) atoms. Sequences carry their element type."""

    def __init__(self, dom, F, view, vg, cell_types, fed_types=None, float_params=()):
        self.d = dom
        self.F = F
        self.v = view
        self.vg = vg
        self.tau = cell_types
        self.memo = {}
        self.mu = {}
        self.fed = fed_types or {}
        self.float_params = set(float_params)
        self.input_children = None

    def ty(self, t):
        key = id(t)
        hit = self.memo.get(key)
        if hit is not None and hit[0] is t:
            return hit[1]
        r = self._ty(t)
        self.memo[key] = (t, r)
        return r

    def is_bool_op(self, name):
        return name in ('eq', 'ne', 'lt', 'le', 'gt', 'ge')

    def _ty(self, t):
        d = self.d
        k = t[0]
        if k == 'lit':
            if t[2] in ('b', 's', 'x'):
                return d.int_()
            return d.lit(t)
        if k == 'sentinel':
            return d.sentinel(t[1])
        if k == 'in':
            if t[1] in self.tau:
                return self.tau[t[1]]
            return d.param(t[1])
        if k == 'arg':
            return d.child() if t[1] not in ('window_len',) else d.int_()
        if k == 'child':
            # output of an inner view: degree/linearity of what it was fed (internal child) or the raw input
            if t[1] in self.fed:
                return self.fed[t[1]]
            return d.child()
        if k in ('childlast',):
            return self.fed.get(t[1], d.child())
        if k in ('len', 'idx', 'pos'):
            return d.int_()
        if k == 'some':
            return self.ty(t[1])
        if k == 'none':
            return POLY if isinstance(d, (Degree, Parity)) else ZERO
        if k in ('payload',):
            return self.ty(t[1])
        if k == 'is_some':
            return d.int_()
        if k == 'phi':
            self.cond(t[1])
            return d.join(self.ty(t[2]), self.ty(t[3]), t, 'selects between')
        if k == 'op':
            return self.op(t)
        if k in ('get', 'front', 'back'):
            return self.ty(t[1])
        if k == 'reduce':
            if t[1] in ('max', 'min'):
                return d.fn(t[1], [self.ty(t[2])], t)
            return self.ty(t[2])
        if k in ('push_back', 'push_front'):
            return d.join(self.ty(t[1]), self.ty(t[2]), t, 'stores together')
        if k in ('pop_front', 'pop_back', 'remove', 'truncate'):
            return self.ty(t[1])
        if k == 'set':
            return d.join(self.ty(t[1]), self.ty(t[3]), t, 'stores together')
        if k in ('set_back', 'set_front'):
            return d.join(self.ty(t[1]), self.ty(t[2]), t, 'stores together')
        if k == 'seq_new':
            return None
        if k == 'seq_rep':
            return self.ty(t[1])
        if k == 'ext':
            info = self.vg.loops.get(t[2]) if self.vg is not None else None
            it_ty = self.ty(info['item']) if info and 'item' in info else None
            return d.join(self.ty(t[1]), it_ty, t, 'stores together')
        if k == 'seq_lit':
            r = None
            for x in t[1]:
                r = d.join(r, self.ty(x), t, 'stores together')
            return r
        if k == 'tuple':
            r = None
            for x in t[1]:
                r = d.join(r, self.ty(x))
            return r
        if k == 'proj':
            return self.ty(t[1])
        if k == 'mu':
            return self.mu.get((t[1], t[2]))
        if k == 'fold':
            L, key, init, nxt = t[1], t[2], t[3], t[4]
            cur = self.ty(init)
            for _ in range(6):
                self.mu[(L, key)] = cur
                # types of terms depending on mu must be recomputed
                self.memo = {kk: vv for kk, vv in self.memo.items() if not _mentions_mu(vv[0], L)}
                n = d.join(cur, self.ty(nxt), None)
                if n == cur:
                    break
                cur = n
            self.mu[(L, key)] = cur
            return cur
        if k in ('unit', 'phantom', 'struct', 'closure', 'fnref', 'const', 'range', 'iter', 'inloop', 'default'):
            return d.int_()
        if k == 'unk':
            d.complain('T-unknown', 'construct not understood by the value graph (%s)' % t[1], t)
            return TOP
        if k in ('item', 'fieldof', 'projseq'):
            # an opaque value (an unmodelled iterator item, a field of an opaque struct value): its type is not known
            d.complain('T-unknown', 'opaque value (%s)' % k, t)
            return TOP
        return d.int_()

    def cond(self, c):
        """Type-check a condition (records comparisons)."""
        self.ty(c)

    def tyb(self, t):
        r = self.ty(t)
        if r is None:
            return POLY if isinstance(self.d, (Degree, Parity)) else ZERO
        return r

    def op(self, t):
        d = self.d
        name, args = t[1], t[2]
        if name in ('add', 'sub'):
            return d.add(self.tyb(args[0]), self.tyb(args[1]), t)
        if name == 'mul':
            return d.mul(self.tyb(args[0]), self.tyb(args[1]), t)
        if name == 'div':
            return d.div(self.tyb(args[0]), self.tyb(args[1]), t)
        if name in ('eq', 'ne', 'lt', 'le', 'gt', 'ge'):
            d.cmp(self.tyb(args[0]), self.tyb(args[1]), t)
            return d.int_()
        if name in ('and', 'or', 'not'):
            for a in args:
                self.ty(a)
            return d.int_()
        if name in ('from_float', 'to_f64', 'to_f32', 'cast:f64', 'cast:f32'):
            # a change of float representation keeps the value: the type of the operand carries over
            return self.tyb(args[0])
        if name == 'from_int':
            return self.tyb(args[0])
        if (name.startswith('cast:') or name.startswith('to_')) and name not in ('to_degrees', 'to_radians'):
            # conversion to an integer type: fine for integers, a rounding for floats
            a = self.tyb(args[0])
            if a == d.int_():
                return a
            return d.fn('to_int', [a], t)
        if name in ('iadd', 'isub', 'imul', 'idiv', 'irem', 'imax', 'imin', 'saturating_sub'):
            for a in args:
                self.ty(a)
            return d.int_()
        if name == 'powi':
            a = self.tyb(args[0])
            kx = args[1]
            kk = kx[1] if kx[0] == 'lit' and isinstance(kx[1], int) else None
            if kk is None:
                return TOP
            return d.powi(a, kk)
        if name == 'partial_cmp':
            d.cmp(self.tyb(args[0]), self.tyb(args[1]), t)
            return d.int_()
        return d.fn(name, [self.tyb(a) for a in args], t)


def _mentions_mu(t, L):
    for x in subterms(t):
        if x[0] == 'mu' and x[1] == L:
            return True
    return False


def analyse_view(F, view, dom_cls):
    """Fixpoint of cell types over update(); returns (domain with complaints, cell types, output type)."""
    m = model(F, view)
    dom = dom_cls()
    # initial types from constructors
    tau = {}
    probe = TypeEval(dom, F, view, m.up_vg, {})
    for nm, init, pre in m.inits():
        for cell, t in init.items():
            if cell in m.touched:
                tau[cell] = dom.join(tau.get(cell), probe.ty(t))
    # children fed by this view (internal children): type of the fed value
    for _ in range(8):
        dom.complaints = []
        dom.datadep = []
        dom.origin = 'update'
        fed = {}
        ev = TypeEval(dom, F, view, m.up_vg, tau, fed)
        input_kids = set()
        for cp, feeds in m.up_vg.child_fed.items():
            for pc, arg, node in feeds:
                if arg[0] == 'arg':
                    input_kids.add(cp)
        for cp, feeds in m.up_vg.child_fed.items():
            if cp in input_kids:
                continue
            r = None
            for pc, arg, node in feeds:
                r = dom.join(r, ev.ty(arg))
            fed[cp] = r
        ev = TypeEval(dom, F, view, m.up_vg, tau, fed)
        new = dict(tau)
        for ex in m.up_exits:
            for c in ex.pc:
                if not (isinstance(c, tuple) and c and c[0] == 'inloop'):
                    ev.cond(c)
            for cell, t in ex.fields.items():
                if t == ('in', cell):
                    continue
                new[cell] = dom.join(new.get(cell), ev.ty(t), t, 'assigns to the same cell')
        if new == tau:
            break
        tau = new
    # output
    dom.origin = 'last'
    evl = TypeEval(dom, F, view, m.last_vg, tau, fed)
    out = None
    for ex in m.last_exits:
        for c in ex.pc:
            evl.cond(c)
        out = dom.join(out, evl.ty(ex.ret), ex.ret, 'returns')
    return dom, tau, out, m
