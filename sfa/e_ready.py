"""C08 — readiness and finiteness:
  Q1 None-path inertness, Q2 monotone readiness (entailment), Q3 warm-up thresholds (integer skeleton, concrete N),
  Q4 census: every float division / ln / log2 / sqrt and every float assertion is guarded (sign analysis) or listed.
"""
import re
from .model import model
from .e3_bounds import conjuncts, structural_cond, Bounds, _shape
from .e_window import view_by_name, flow
from .e_typed_props import inert_none_path
from .solve import Hyps, entails_h, loop_hyps
from .terms import subst_in, map_term
from .vg import VG, subterms, tstr, op, lit, is_some, neg_cond, TRUE, phi
from .fsign import FSign, Iv
from . import skeleton as sk
from . import spec
from .sir import loc

# sites whose safety needs an algebraic invariant outside the domains (one line of reason each).
# key: (view, kind, regex on the rendered operand)
# Reviewed facts the interval analysis may use. Unlike an exception, a fact does not discharge anything by itself: the
# obligation must still be *derived* from the facts plus the guards on the path, so removing or weakening a guard is reported.
# (view, relation, lhs, rhs, reason); operands: 'in.f' = field at entry, 'arg.a' = constructor argument, a number, or the
# rendering of a child-output term such as 'b.out'.
ASSUMED = [
    ('Alma', 'gt', '<float-arg:0>', 0.0, 'constructor precondition: sigma > 0 (admissible parameters)'),
    ('Divide', 'ne', '<child:1>', 0.0, 'property domain: divisor (the second child\'s output) non-zero'),
    ('Drawdown', 'gt', '<child:0>', 0.0, 'property domain: positive inputs'),
    ('LnReturn', 'gt', '<float-cells>', 0.0, 'the two registers hold inner outputs, positive by the property domain; the zero they start from is excluded by the guard on last() (C13 LN pins the register discipline)'),
]
# Facts that used to be assumed and are now DERIVED on the analysed tree (sfa/e_window.py): buffer-sum accumulators
# (Alma cum_wt >= 0, cum_wt >= front(q_wtd)), constructor-only fields (Alma s > 0), verified window extrema around the newest-value
# register (HLNormalizer min <= last <= max), cross-term accumulators (WelfordRolling s >= 0).

# Sites no interval argument reaches; each is tied to the construct that makes it safe (checked where applied).
EXCEPTIONS = [
    ('BinaryEntropy', 'flog2', r'.', 'log2(0) = -inf gives 0·(-inf) = NaN, masked by the is_nan reset that post-dominates it'),
]


def ctor_constant_facts(m, B):
    """Derived facts about float fields that only constructors write: sign of the initial term under the constructor's
    preconditions (usize arguments >= 1 and its asserts, reviewed argument facts such as sigma > 0), by interval analysis."""
    out = []
    inits = [x for x in m.ctor_models if x['init'] is not None and x['fn'].vis.startswith('Public')]
    if not inits:
        return out
    from .e3_bounds import is_int_ty
    for cell, ty in B.ftypes.items():
        if cell in m.touched or is_int_ty(ty) or not (ty.get('param') or ty.get('prim') in ('f32', 'f64')):
            continue
        pos = nonneg = nz = True
        for mm in inits:
            t = mm['init'].get(cell)
            if t is None:
                pos = nonneg = nz = False
                break
            pre = [op('ge', ('arg', a), lit(1, 'i')) for a in B.int_args] + [c for c in mm['pre'] if isinstance(c, tuple)]
            H = Hyps(pre, B.ctx(mm['vg']))
            facts = assumed_facts(m.v.name, [t], m.v)
            fs = FSign(facts, int_lb_factory(H), mm['vg'].loops)
            r = fs.rng(t)
            pos = pos and r.positive()
            nonneg = nonneg and r.nonneg()
            nz = nz and not r.contains_zero()
        if pos:
            out.append(op('gt', ('in', cell), lit(0.0)))
        elif nonneg:
            out.append(op('ge', ('in', cell), lit(0.0)))
        elif nz:
            out.append(op('ne', ('in', cell), lit(0.0)))
    return out


def assumed_facts(vname, terms, view=None):
    """Condition terms for the reviewed facts of view `vname`, resolved against the subterms of `terms`. Operands are named by
    role, not by field name: <child:k> = output of the k-th inner view, <float-arg:k> = k-th float constructor argument,
    <float-cells> = every float state cell of the view."""
    out = []
    rows = [r for r in ASSUMED if r[0] == vname]
    if not rows:
        return out
    subs = None
    for (vn, rel, lhs, rhs, reason) in rows:
        ops = []
        for x in (lhs, rhs):
            if isinstance(x, (int, float)):
                ops.append([lit(float(x), 'f')])
                continue
            if subs is None:
                subs = set()
                for t in terms:
                    for st in subterms(t):
                        subs.add(st)
            if x.startswith('<child:'):
                k = int(x[7:-1])
                names = [f.name for f in view.children_fields()] if view is not None else []
                nm = names[k] if k < len(names) else None
                ops.append([st for st in subs if st[0] == 'child' and st[1] == nm])
            elif x.startswith('<float-arg:'):
                k = int(x[11:-1])
                fargs = []
                if view is not None:
                    for c in view.ctors:
                        fa = [nm for (pid, nm, ty) in c.param_ids() if ty == 'T' and nm]
                        if len(fa) > k:
                            fargs.append(fa[k])
                ops.append([('arg', a) for a in sorted(set(fargs))])
            elif x == '<float-cells>':
                # (a tuple- or struct-typed cell is presented by the value graph as the cells `f.0`, `f.1` / `f.name`)
                ops.append([st for st in subs if st[0] == 'in' and view is not None and any(
                    (f.name == st[1] or (st[1].startswith(f.name + '.') and not any(w in str(f.ty_str) for w in ('usize', 'bool', 'u64', 'u32', 'i64', 'i32'))))
                    and f.role == 'cell' and not str(f.ty_str).startswith(('usize', 'bool', 'u', 'i')) for f in view.fields)] +
                           # (a register kept in an Option<float> cell is read through its payload)
                           [st for st in subs if st[0] == 'payload' and isinstance(st[1], tuple) and st[1][0] == 'in' and view is not None and any(
                               f.name == st[1][1] and f.role == 'cell' and 'Option<' in str(f.ty_str) and not any(w in str(f.ty_str) for w in ('usize', 'bool', 'u64', 'u32', 'i64', 'i32'))
                               for f in view.fields)])
            else:
                ops.append([])
        for l in ops[0]:
            for r in ops[1]:
                out.append(op(rel, l, r))
    return out


def presence_split(d, pcs, facts, mk_fs, kind, data, is_oos=None):
    """(ok, why) after splitting on the presence of Option cells that occur as `phi(is_some(in.c), .., ..)` in the operand or the
    guards, or None when there is nothing to split on. Sibling cells `p.a`, `p.b` of one Option-of-struct share their presence."""
    from .terms import map_term
    from .vg import TRUE, FALSE, phi as _phi, neg_cond, conj
    atoms = set()
    for t in [d] + list(pcs):
        if isinstance(t, tuple):
            for x in subterms(t):
                if x[0] == 'is_some' and isinstance(x[1], tuple) and x[1][0] == 'in':
                    atoms.add(x[1][1])
    def grp(a):
        # sibling cells share their presence only when they are the fields of ONE Option-of-struct cell
        pre_ = a.rsplit('.', 1)[0] if '.' in a else None
        return pre_ if (pre_ is not None and is_oos is not None and is_oos(pre_)) else a
    groups = sorted({grp(a) for a in atoms})
    if not groups or len(groups) > 2:
        return None
    import itertools

    def subst(t, assign):
        def f(n):
            if n[0] == 'is_some' and isinstance(n[1], tuple) and n[1][0] == 'in':
                g = grp(n[1][1])
                if g in assign:
                    return TRUE if assign[g] else FALSE
            if n[0] == 'phi':
                return _phi(n[1], n[2], n[3])
            if n[0] == 'op' and n[1] == 'not':
                return neg_cond(n[2][0])
            if n[0] == 'op' and n[1] == 'and':
                return conj(list(n[2]))
            if n[0] == 'op' and n[1] == 'or':
                if any(x == TRUE for x in n[2]):
                    return TRUE
                rest = [x for x in n[2] if x != FALSE]
                return FALSE if not rest else (rest[0] if len(rest) == 1 else ('op', 'or', tuple(rest)))
            if n[0] == 'op' and n[1] in ('eq', 'ne', 'le', 'ge', 'lt', 'gt') and len(n[2]) == 2 and n[2][0] == n[2][1] and n[2][0][0] == 'lit':
                return TRUE if n[1] in ('eq', 'le', 'ge') else FALSE
            return n
        return map_term(t, f) if isinstance(t, tuple) else t
    all_ok = True
    whys = []
    for combo in itertools.product((True, False), repeat=len(groups)):
        assign = dict(zip(groups, combo))
        pcs2 = [subst(c, assign) for c in pcs]
        if any(c == FALSE for c in pcs2):
            continue        # this presence case cannot reach the site
        pcs2 = [c for c in pcs2 if c != TRUE]
        d2 = subst(d, assign)
        fs = mk_fs(pcs2 + list(facts))
        r = fs.rng(d2)
        if kind == 'fdiv':
            ok = not r.contains_zero()
        elif kind == 'fdomain':
            ok = r.positive() if data[0] == 'positive' else (r.lo >= -1.0 and r.hi <= 1.0)
        elif kind == 'fsqrt':
            ok = r.nonneg()
        elif kind == 'range':
            ok = r.lo >= data[0] and r.hi <= data[1]
        else:
            ok = r.positive()
        whys.append('%s: range %s' % ({True: 'present', False: 'absent'}[combo[0]], r))
        all_ok = all_ok and ok
    return all_ok, 'per presence case of the Option cell(s) %s — %s' % (groups, '; '.join(whys))


def int_lb_factory(H):
    def lb(t):
        best = 0
        for k in (1, 2, 3):
            if entails_h(H, op('ge', t, lit(k, 'i'))):
                best = k
            else:
                break
        return best
    return lb


class Ready:
    def __init__(self, F, v):
        self.F, self.v = F, v
        self.B = Bounds(F, v)
        self.inv = self.B.houdini()
        self.m = self.B.m
        self.ctx = self.B.ctx(self.m.up_vg)
        self.base = Hyps(self.B.pre + self.inv, self.ctx)

    # ---------------------------------------------------------------- Q2
    def readiness_term(self, fields=None):
        t = self.m.last_ret
        if fields is not None:
            t = subst_in(t, fields)
        # one propositional atom per child regardless of epoch (children are monotone by induction)
        t = map_term(t, lambda n: ('childlast', n[1], 0) if n[0] == 'childlast' else n)
        return is_some(t)

    def child_invariants(self):
        """An Option cell that is only ever assigned a child's last() is Some only if that child is ready."""
        from .terms import cases
        out = []
        for o in self.B.options:
            t = self.m.up_fields.get(o)
            if t is None:
                continue
            try:
                cs = cases(t)
            except OverflowError:
                continue
            kids = set()
            okc = True
            for conds, leaf in cs:
                if leaf == ('in', o):
                    continue
                if leaf[0] == 'childlast':
                    kids.add(leaf[1])
                else:
                    okc = False
            inits_none = all(init.get(o) == ('none',) for _, init, _ in self.m.inits())
            if okc and len(kids) == 1 and inits_none:
                out.append(op('or', neg_cond(is_some(('in', o))), is_some(('childlast', list(kids)[0], 0))))
        return out

    def monotone(self):
        r0 = self.readiness_term()
        bad = []
        extra = self.child_invariants()
        for ex in self.m.up_exits:
            pc = [map_term(c, lambda n: ('childlast', n[1], 0) if n[0] == 'childlast' else n) for c in ex.pc if not (isinstance(c, tuple) and c and c[0] == 'inloop')]
            H = self.base.extended(pc + [r0] + extra)
            goal = self.readiness_term(ex.fields)
            if not entails_h(H, goal):
                bad.append(ex)
        return bad

    # ---------------------------------------------------------------- Q4
    def census(self, R, counters):
        v = self.v
        vgs = [(self.m.up_vg, 'update', self.B.pre + self.inv), (self.m.last_vg, 'last', self.B.pre + self.inv)]
        for mm in self.m.ctor_models:
            vgs.append((mm['vg'], mm['fn'].name, [op('ge', ('arg', a), lit(1, 'i')) for a in self.B.int_args]))
        for h in v.helpers:
            if h.vis.startswith('Public') and h.trait is None:
                vg = VG(self.F, v)
                vg.run(h, '')
                vgs.append((vg, h.name, self.B.pre + self.inv))
        # facts derived on this tree (not assumed): constructor-only float fields, buffer-sum accumulators
        from .e_window import buffer_sum_facts, extremum_facts, cross_term_facts, buffer_elem_facts
        derived = ctor_constant_facts(self.m, self.B) + buffer_sum_facts(self.F, v) + extremum_facts(self.F, v) + cross_term_facts(self.F, v) + buffer_elem_facts(self.F, v)
        counters['derived-facts'] = counters.get('derived-facts', 0) + len(derived)
        for vg, label, entry in vgs:
            ctx = self.B.ctx(vg)
            base = Hyps(entry, ctx)
            for ev in vg.events:
                if ev.kind not in ('fdiv', 'fln', 'flog2', 'flog10', 'fsqrt', 'fdomain', 'debug_assert', 'assert'):
                    continue
                pc = [c for c in ev.pc]
                H = base.extended(pc + loop_hyps(ev.pc, ctx))

                def trip_pos(L, vg=vg, H=H):
                    info = vg.loops.get(L)
                    if not info:
                        return False
                    it = info['iter']
                    # number of iterations from the iterator description (skip / take / zip / rev are accounted for)
                    from .vg import iter_desc
                    try:
                        d_ = iter_desc(it)
                    except Exception:
                        d_ = None
                    if d_ is not None and d_[0] is not None:
                        return entails_h(H, op('ge', d_[0], lit(1, 'i')))
                    return False
                ev_terms = [x for x in ev.data if isinstance(x, tuple)] + [c for c in pc if isinstance(c, tuple)]
                if ev.kind in ('debug_assert', 'assert'):
                    ev_terms = list(ev.data[1]) + [c for c in pc if isinstance(c, tuple)]
                facts = assumed_facts(v.name, ev_terms, v)
                if facts:
                    counters['assumed-fact-uses'] = counters.get('assumed-fact-uses', 0) + 1
                if label in ('update', 'last') or not any(mm['fn'].name == label for mm in self.m.ctor_models):
                    facts = facts + derived
                fs0 = FSign([c for c in pc if not (isinstance(c, tuple) and c and c[0] == 'inloop')] + facts, int_lb_factory(H), vg.loops, trip_pos)
                fs = AllCases(fs0.cases())
                if ev.kind in ('debug_assert', 'assert'):
                    name, args = ev.data
                    is_ctor = label not in ('update', 'last') and any(mm['fn'].name == label for mm in self.m.ctor_models)
                    if name == 'assert' and args:
                        conds = conjuncts(args[0])
                    elif name in ('assert_eq', 'assert_ne') and len(args) == 2:
                        conds = [op('eq' if name == 'assert_eq' else 'ne', args[0], args[1])]
                    else:
                        conds = []
                    for c in conds:
                        if c[0] == 'op' and c[1] == 'is_finite' or (
                                c[0] == 'op' and c[1] == 'or' and any(x[0] == 'op' and x[1] == 'is_finite' for x in c[2])):
                            # finiteness assertions (possibly weakened by a readiness disjunct) are the subject of the division/log/sqrt census
                            counters['finite-asserts'] = counters.get('finite-asserts', 0) + 1
                            continue
                        if structural_cond(c, ctx):
                            continue    # integers / presence: decided by the entailment engine (E3 assert-int)
                        if is_ctor and not (c[0] == 'op' and c[1] in ('ge', 'gt', 'le', 'lt', 'ne') and c[2][1][0] == 'lit'):
                            continue    # constructor preconditions on its arguments are the documented contract
                        ok, r = judge_float_cond(c, fs)
                        counters['value-asserts'] = counters.get('value-asserts', 0) + 1
                        R.ob('Q4-assert', '%s:%s:%s' % (v.name, label, _shape(c)), ok,
                             'assertion %s follows from the guards on its path (range %s)' % (tstr(c)[:60], r) if ok else
                             'assertion %s is not implied by the guards on its path (range %s): it can fire on finite input' % (tstr(c)[:70], r), loc(ev.node))
                    continue
                counters[ev.kind] = counters.get(ev.kind, 0) + 1
                if ev.kind == 'fdiv':
                    d = ev.data[1]
                    r = fs.rng(d)
                    ok = not r.contains_zero()
                    what = 'divisor %s' % tstr(d)[:70]
                    need = 'non-zero'
                elif ev.kind == 'fdomain':
                    d = ev.data[1]
                    r = fs.rng(d)
                    ok = r.positive() if ev.data[0] == 'positive' else (r.lo >= -1.0 and r.hi <= 1.0)
                    what = '%s %s' % (ev.data[2], tstr(d)[:70])
                    need = '> 0' if ev.data[0] == 'positive' else 'within [-1, 1]'
                elif ev.kind == 'fsqrt':
                    d = ev.data[0]
                    r = fs.rng(d)
                    ok = r.nonneg()
                    what = 'sqrt argument %s' % tstr(d)[:70]
                    need = '>= 0'
                else:
                    d = ev.data[0]
                    r = fs.rng(d)
                    ok = r.positive()
                    what = 'log argument %s' % tstr(d)[:70]
                    need = '> 0'
                why = 'range %s' % r
                if not ok:
                    # cells that live together in one Option (an Option of a struct, presented as one Option cell per field) are
                    # present or absent together: decide the site once per presence case, with the case substituted into the
                    # operand and into every guard on the path
                    r2 = presence_split(d, [c for c in pc if not (isinstance(c, tuple) and c and c[0] == 'inloop')], facts,
                                        lambda cs_: AllCases(FSign(cs_, int_lb_factory(H), vg.loops, trip_pos).cases()), ev.kind, ev.data,
                                        is_oos=lambda pre_: bool(vg.oos_names(pre_)))
                    if r2 is not None:
                        ok, why = r2
                if not ok:
                    rendered = tstr(d)
                    for (vn, kind, rx, reason) in EXCEPTIONS:
                        if vn == 'BinaryEntropy' and v.name == 'BinaryEntropy' and kind == ev.kind:
                            # the exception only holds while the NaN reset post-dominates the logarithms
                            if not any(x[0] == 'phi' and x[1][0] == 'op' and x[1][1] == 'is_nan' for x in subterms(self.m.last_ret)):
                                continue
                        if vn == v.name and kind == ev.kind and re.search(rx, rendered):
                            ok = True
                            why = 'reviewed exception: ' + reason
                            counters['exceptions'] = counters.get('exceptions', 0) + 1
                            break
                key = '%s:%s:%s:%s' % (v.name, label, ev.kind, _shape(d))
                R.ob('Q4-' + ev.kind, key, ok, '%s is %s (%s)' % (what, need, why) if ok else
                     '%s is not shown to be %s on this path (%s; guards: %s): a finite input can produce NaN/inf' % (
                         what, need, why, [tstr(c)[:50] for c in ev.pc][-3:]), loc(ev.node))


class AllCases:
    """A family of FSign instances covering all states; a range query returns the hull over the cases."""
    def __init__(self, cases):
        self.cs = cases

    def rng(self, t):
        r = None
        for c in self.cs:
            x = c.rng(t)
            r = x if r is None else r.hull(x)
        return r


def judge_float_cond(c, fs):
    """Decide a float-valued assertion by interval analysis; (ok, range or reason). Anything not understood is not ok."""
    if not (isinstance(c, tuple) and c and c[0] == 'op'):
        return False, 'shape not understood'
    o = c[1]
    if o == 'not' and c[2][0][0] == 'op' and c[2][0][1] == 'is_nan':
        return True, 'finite operands'
    if o == 'or':
        rs = [judge_float_cond(x, fs) for x in c[2]]
        return any(r[0] for r in rs), rs[0][1]
    if o not in ('ge', 'gt', 'le', 'lt', 'ne', 'eq') or len(c[2]) != 2:
        return False, 'shape not understood'
    x, y = c[2]
    if y[0] == 'lit':
        r = fs.rng(x)
        val = float(y[1])
    elif x[0] == 'lit':
        r = fs.rng(y)
        val = float(x[1])
        o = {'ge': 'le', 'gt': 'lt', 'le': 'ge', 'lt': 'gt'}.get(o, o)
    else:
        r = fs.rng(op('sub', x, y))
        val = 0.0
    ok = {'ge': r.lo >= val, 'gt': r.lo > val or (r.lo == val and r.lo_open), 'le': r.hi <= val,
          'lt': r.hi < val or (r.hi == val and r.hi_open),
          'ne': ((not r.contains_zero()) if val == 0 else (r.lo > val or r.hi < val)), 'eq': r.lo == r.hi == val}[o]
    return ok, r


def entails_is_int(c, ctx):
    from .solve import is_int_cmp
    return is_int_cmp(c, ctx)


def thresholds(F, R, tier):
    views = view_by_name(F)
    nmax = 8 if tier == 'quick' else 48
    for n, want in spec.WARMUP.items():
        v = views.get(n)
        if v is None:
            R.violation('Q3', n, 'view not found')
            continue
        m = model(F, v)
        nargs = max([len([1 for (pid, name, ty) in c.param_ids() if ty == 'usize']) for c in v.ctors] or [0])
        configs = []
        if nargs == 0:
            configs = [()]
        elif nargs == 1:
            configs = [(N,) for N in range(1, nmax + 1)]
        else:
            configs = [(N, M) for N in range(1, nmax + 1) for M in range(1, (4 if tier == 'quick' else 12) + 1)]
        bad = []
        checked = 0
        child_value = sk.NZ if n in ('LnReturn', 'Drawdown') else sk.F
        for cfg in configs:
            for cname, s0 in sk.init_states(m, list(cfg)):
                if s0 is None:
                    continue  # constructor rejects this configuration
                N = cfg[0] if cfg else 0
                M = cfg[1] if len(cfg) > 1 else 0
                if want == 'N':
                    lo = hi = N
                elif want == 'N+M+1':
                    lo = hi = N + M + 1
                elif want == 'N-1..N':
                    lo, hi = max(N - 1, 0), N
                else:
                    lo = hi = int(want)
                states = [s0]
                first = None
                maybe = None
                probs = []
                horizon = hi + 3
                r0 = sk.ready(m, s0, deliver=False)
                if r0 is True and lo > 0:
                    bad.append('%s%s: last() is Some before any value was delivered' % (cname, cfg))
                    continue
                for k in range(1, horizon + 1):
                    states, p = sk.step(m, states, child_value=child_value)
                    probs += p
                    rs = [sk.ready(m, s) for s in states]
                    if first is None and rs and all(r is True for r in rs):
                        first = k
                    if first is None and maybe is None and any(r is None for r in rs):
                        maybe = k
                    if first is not None and not all(r is True for r in rs):
                        bad.append('%s%s: readiness reverts at update %d' % (cname, cfg, k))
                        break
                checked += 1
                if probs:
                    bad.append('%s%s: %s' % (cname, cfg, probs[0]))
                elif maybe is not None and (first is None or maybe < first):
                    bad.append('%s%s: whether a value is reported at update %d depends on data' % (cname, cfg, maybe))
                elif first is None:
                    bad.append('%s%s: no value reported within %d updates (documented: %s)' % (cname, cfg, horizon, want))
                elif not (lo <= first <= hi) and not (lo == 0 and first <= max(hi, 1)):
                    bad.append('%s%s: first value at update %d, documented %s' % (cname, cfg, first, want if lo == hi else '%d..%d' % (lo, hi)))
        R.ob('Q3', n, not bad and checked > 0, 'first Some at the documented update (%s) for %d configurations (N ≤ %d), readiness never reverts, skeleton never branches on data' % (want, checked, nmax)
             if not bad else '; '.join(bad[:3]), v.file)
    R.extra['threshold_nmax'] = nmax


def run_c08(F, R, tier):
    R.trust('rustc front end; sfa/vg.py; sfa/solve.py; sfa/fsign.py (interval/sign facts); sfa/skeleton.py')
    R.trust('reviewed exception table EXCEPTIONS in sfa/e_ready.py')
    R.assume('inputs finite and in-domain (positive for Drawdown/LnReturn, non-zero divisor for Divide); inner views are monotone (induction over the chain)')
    views = view_by_name(F)
    inert_none_path(F, R, [v.name for v in F.views], 'Q1')
    counters = {}
    for v in F.views:
        rd = Ready(F, v)
        bad = rd.monotone()
        exc = v.name == 'LnReturn' and bad
        R.ob('Q2', v.name, (not bad) or exc,
             'readiness is monotone: Some before an update implies Some after it on every exit' if not bad else
             ('reviewed exception: readiness is the sentinel last_val != 0, monotone on the positive input domain' if exc else
              'last() can revert to None: exit at %s does not preserve readiness' % (loc(bad[0].node) if bad[0].node else '?')), v.file)
        rd.census(R, counters)
    thresholds(F, R, tier)
    R.extra['census'] = counters
    R.floor('Q1', 31)
    R.floor('Q2', 38)
    R.floor('Q3', 21)
    R.floor('Q4-fdiv', 40)
    R.decline('overflow to ±inf from large finite inputs, and NaN from cancellation, are not decided (value properties)')
