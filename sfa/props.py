"""Property -> engines wiring. Each runner fills a Report from the fact base."""
from .registry import register
from . import e1_types


@register('C17', 'proof',
          'Static proof by types and items: every local ADT field is an owned value type without interior '
          'mutability or sharing (T1), there are no globals (T2), no unsafe (T3), every callee in every MIR body '
          'is in a reviewed pure allow-list (T4), last takes &self (T5) and every Clone is derived (T6). Each '
          'obligation is one (rule, item) pair; together they imply determinism, purity of last() and clone '
          'independence for every view and every chain (compositional).')
def c17(F, R, tier):
    e1_types.run_c17(F, R)
