"""Property -> engines wiring. Each runner fills a Report from the fact base."""
from .registry import register
from . import e1_types


@register('C17', 'proof',
          'Static proof by types and items: every local ADT field is an owned value type without interior '
          'mutability or sharing (T1), there are no globals (T2), no unsafe (T3), every callee in every MIR body '
          'is in a reviewed pure allow-list (T4), last takes &self (T5) and every Clone is derived (T6). Each '
          'obligation is one (rule, item) pair; together they imply determinism, purity of last() and clone '
          'independence for every view and every chain (compositional).')
def c17(F, R, tier):
    e1_types.run_c17(F, R)


from . import e2_protocol


@register('C01', 'proof',
          'Static proof of the forwarding protocol by path counting and def-use over the type-checked structured IR of '
          'every update()/last(): each input child is updated exactly once per path with the raw value (R1), before '
          'its last() is read (R1b); the raw value goes nowhere else (R2); no state is written before/without the '
          'gate and the None path is inert (R3); combinators return Some only when all children do (R4); inner views '
          'are only used through View::update/View::last (R5). By parametricity over the opaque child type these '
          'imply the behavioural statement for every pair/triple/chain; the argument is compositional so 38 per-view '
          'verdicts cover every composition, every N and every input stream.')
def c01(F, R, tier):
    e2_protocol.run_c01(F, R)


from . import e_c14


@register('C14', 'proof',
          'Static proof over the value graph (gated SSA) of last∘update for the nine combinators: statelessness by '
          'type (S1), the reported term is exactly the specified operator applied to the children\'s current outputs '
          '(S2), Some exactly when every child reports (S2b), and no dependence on pre-update state (S3). The terms '
          'are symbolic in every input and child output, so the verdict holds for all children, inputs and steps.')
def c14(F, R, tier):
    e_c14.run_c14(F, R)


from . import e3_bounds


@register('C18', 'proof',
          'Static proof of bounded memory: for each view the largest inductive subset of a candidate family of length '
          'invariants (Houdini over the value graph: true after every constructor, preserved by every exit of update()) '
          'must contain, for every growable buffer (including those of inlined inner views), an upper bound in terms of '
          'constructor parameters only; per-call scratch allocations must be parameter-bounded too. The invariant is '
          'inductive with N symbolic, so the bound holds for all window lengths and all stream lengths; chains are '
          'covered compositionally (each node owns its own buffers).')
def c18(F, R, tier):
    e3_bounds.run_bounds(F, R, want_c15=False, want_c18=True)
    R.floor('M1-bounded', 34)


@register('C15', 'other',
          'Static discharge of every panic edge: each potentially panicking operation that rustc generated in view code '
          '(MIR Assert terminators for usize overflow and bounds checks; calls to unwrap/expect/index/remove/clamp) is '
          'mapped to an obligation of the value graph and proved from the inferred class invariant, the path condition '
          'and loop index ranges by linear-integer entailment with N symbolic (all window lengths at once, all '
          'histories because the invariant is inductive). Finiteness debug-assertions are not decided here (see C08 census).')
def c15(F, R, tier):
    e3_bounds.run_bounds(F, R, want_c15=True, want_c18=False)
    R.decline('internal finiteness assertions (debug_assert!(x.is_finite())) are only covered through the guarded-division census of C08; overflow to inf of an unstable recursion is C09\'s clause')
