"""Property -> engines wiring. Each runner fills a Report from the fact base."""
from .registry import register
from . import e1_types


@register('C17', 'proof',
          'Static proof by types and items: every local ADT field is an owned value type without interior '
          'mutability or sharing (T1), there are no globals (T2), no unsafe (T3), every callee in every MIR body '
          'is in a reviewed pure allow-list (T4), last takes &self (T5) and every Clone is derived (T6). Each '
          'obligation is one (rule, item) pair; together they imply determinism, purity of last() and clone '
          'independence for every view and every chain (compositional).')
def c17(F, R, tier):
    e1_types.run_c17(F, R)


from . import e2_protocol
from . import spec as _spec
from .e_window import no_unknowns as _no_unknowns


@register('C01', 'proof',
          'Static proof of the forwarding protocol by path counting and def-use over the type-checked structured IR of '
          'every update()/last(): each input child is updated exactly once per path with the raw value (R1), before '
          'its last() is read (R1b); the raw value goes nowhere else (R2); no state is written before/without the '
          'gate and the None path is inert (R3); combinators return Some only when all children do (R4); inner views '
          'are only used through View::update/View::last (R5). By parametricity over the opaque child type these '
          'imply the behavioural statement for every pair/triple/chain; the argument is compositional so 38 per-view '
          'verdicts cover every composition, every N and every input stream.')
def c01(F, R, tier):
    e2_protocol.run_c01(F, R)
    _no_unknowns(F, R, [v.name for v in F.views if v.children_fields()])


from . import e_c14


@register('C14', 'proof',
          'Static proof over the value graph (gated SSA) of last∘update for the nine combinators: statelessness by '
          'type (S1), the reported term is exactly the specified operator applied to the children\'s current outputs '
          '(S2), Some exactly when every child reports (S2b), and no dependence on pre-update state (S3). The terms '
          'are symbolic in every input and child output, so the verdict holds for all children, inputs and steps.')
def c14(F, R, tier):
    e_c14.run_c14(F, R)
    _no_unknowns(F, R, ['Add', 'Subtract', 'Multiply', 'Divide', 'GTE', 'LTE', 'Tanh', 'Echo', 'Constant'])


from . import e3_bounds


@register('C18', 'proof',
          'Static proof of bounded memory: for each view the largest inductive subset of a candidate family of length '
          'invariants (Houdini over the value graph: true after every constructor, preserved by every exit of update()) '
          'must contain, for every growable buffer (including those of inlined inner views), an upper bound in terms of '
          'constructor parameters only; per-call scratch allocations must be parameter-bounded too. The invariant is '
          'inductive with N symbolic, so the bound holds for all window lengths and all stream lengths; chains are '
          'covered compositionally (each node owns its own buffers).')
def c18(F, R, tier):
    e3_bounds.run_bounds(F, R, want_c15=False, want_c18=True)
    # coverage guard (instead of a fixed count, which a legitimate refactoring that removes buffers would trip): every field
    # whose declared type mentions Vec / VecDeque -- found by an independent scan of the type strings -- must have been
    # judged (tracked buffer with an M1 obligation, or reported as unmodelled); and every view must have been analysed
    import re as _re
    judged = {o[1] for o in R.obligations if o[0] == 'M1-bounded'}
    nfields = 0
    for v in F.views:
        for f in v.fields:
            if _re.search(r'\b(Vec|VecDeque)\s*<', str(f.ty_str)):
                nfields += 1
                if not any(j.startswith('%s:%s' % (v.name, f.name)) for j in judged):
                    R.violation('M1-coverage', '%s:%s' % (v.name, f.name), 'field %s: %s holds a growable buffer that the analysis did not judge' % (f.name, f.ty_str), v.file)
    R.ob('M1-coverage', 'crate', len(F.views) >= 30, '%d views analysed, %d buffer-typed fields all judged' % (len(F.views), nfields))



@register('C15', 'other',
          'Static discharge of every panic edge: each potentially panicking operation that rustc generated in view code '
          '(MIR Assert terminators for usize overflow and bounds checks; calls to unwrap/expect/index/remove/clamp) is '
          'mapped to an obligation of the value graph and proved from the inferred class invariant, the path condition '
          'and loop index ranges by linear-integer entailment with N symbolic (all window lengths at once, all '
          'histories because the invariant is inductive). Finiteness debug-assertions are not decided here (see C08 census).')
def c15(F, R, tier):
    e3_bounds.run_bounds(F, R, want_c15=True, want_c18=False)
    # finiteness assertions: every division/log/sqrt guarded, every value assertion implied by its path (shared with C08)
    from .e_ready import Ready
    counters = {}
    for v in F.views:
        Ready(F, v).census(R, counters)
    R.extra['float_census'] = counters
    R.decline('internal finiteness assertions (debug_assert!(x.is_finite())) are only covered through the guarded-division census of C08; overflow to inf of an unstable recursion is C09\'s clause')


from . import e_window

PARTIAL = ('Static analysis of the structural clauses only (stated in the evidence): the verdict is a necessary condition of the '
           'property, decided for all inputs, window lengths and histories at once because the rules work on symbolic value graphs '
           'and inductive invariants; the closed-form/value clauses listed under declined_clauses are not decided.')


@register('C02', 'other',
          'Window statistics: (W1) every window buffer provably holds exactly the last N delivered values (inductive invariant '
          'len ≤ N with N symbolic + each step gives len+1 or exactly N); (M1/W2) sum-type aggregates are zero-seeded and every '
          'insertion contribution is mirrored on eviction; (X1/W4) extrema are rescanned over the post-eviction window whenever '
          'the evicted value may be the extremum; (W5) Welford counter == window length and mean corrections divide by the '
          'post-operation count; (PC) BinaryEntropy counts the same predicate on insert and evict; Roc base register. ' + PARTIAL)
def c02(F, R, tier):
    e_window.run_c02(F, R)
    _no_unknowns(F, R, _spec.WINDOW_VIEWS)


@register('C03', 'other',
          'Finite memory: for the 17 listed views every place where old information could persist is of a kind that provably '
          'forgets — window buffers hold exactly N (W1), and every state cell is a register, a mirrored accumulator, a rescanned '
          'extremum, a counted predicate, a Welford aggregate or one of the two allowed hold registers (census). ' + PARTIAL)
def c03(F, R, tier):
    e_window.run_c03(F, R)
    _no_unknowns(F, R, _spec.FINITE_MEMORY)


@register('C05', 'other',
          'RSI family: exact window, gain/loss aggregates are zero-seeded accumulators whose eviction is the mirror image of the '
          'insertion (same tie predicate, same divisor, evicted change measured against the oldest-predecessor register, which is '
          'advanced to the evicted value), state never depends on the raw argument, ratio guards (100 when L=0; hold when G+L=0). ' + PARTIAL)
def c05(F, R, tier):
    e_window.run_c05(F, R)
    _no_unknowns(F, R, _spec.WINDOW_VIEWS_C05)


from . import e_typed_props


@register('C12', 'other',
          'Positive-scaling clause: homogeneity-degree typing of every operation of the 28 tabled views over the value graph '
          '(fixpoint over state cells): sums/comparisons/selections only between quantities of equal degree (literal 0 and '
          'sentinels are polymorphic, absolute constants such as epsilon are degree 0), transcendental functions only of '
          'degree-0 arguments; the output degree equals the table (0 = unchanged, 1 = scales by a). Offset clause for HLNormalizer, Vsct, NET and the Fisher '
          'transform: shift-coefficient analysis of the values reported from the initial state (enumerated N). ' + PARTIAL)
def c12(F, R, tier):
    e_typed_props.run_c12(F, R, tier)
    _no_unknowns(F, R, list(_spec.DEGREE0) + list(_spec.DEGREE1))


@register('C10', 'other',
          'Linearity clause: proof of superposition in real arithmetic: by linearity typing of the value graph every float computed by the 8 '
          'linear views is a linear form in the inputs with input-independent coefficients, no constant term is added and no '
          'branch/comparison depends on data (integer/readiness guards only); by structural induction over the body and the '
          'sequence of updates view(a·x+b·y) = a·view(x)+b·view(y). Unit DC gain of Sma/Alma/Cumulative windows from the '
          'accumulator structure; DC gain of the recursive members is evaluated numerically from the extracted steady-state system for the '
          'enumerated N. Level "other" rather than "proof" because the DC clause has a known finding (CyberCycle N = 4, 5) and is enumerated, not symbolic.')
def c10(F, R, tier):
    e_typed_props.run_c10(F, R)
    _no_unknowns(F, R, _spec.LINEAR_VIEWS)
    from . import e_lti_props
    e_lti_props.run_c10_dc(F, R, tier)
    e_lti_props.dc_first_output(F, R, tier)
    R.floor('DC-first', 4)
    e_lti_props.linear_history(F, R, tier)
    R.floor('L-history', 8)


@register('C04', 'other',
          'Moving averages: no data-dependent branch in Sma/Ema/Alma (linearity typing), exact window for Sma/Alma, sum and '
          'weight aggregates paired and mirrored, Ema update is x·w + e·(1−w) with the same w = alpha/(N+1) ∈ (0,1] and a '
          'data-independent seed, Alma centre/width expressions and positive stored weights. From these the interval, '
          'constant-reproduction, monotonicity and affine clauses follow in real arithmetic. ' + PARTIAL)
def c04(F, R, tier):
    e_typed_props.run_c04(F, R, tier)
    _no_unknowns(F, R, ['Sma', 'Ema', 'Alma'])


from . import e_ready


@register('C08', 'other',
          'Readiness and finiteness, structural clauses: (Q1) the path on which the inner view reports nothing leaves every field '
          'unchanged, for all views; (Q2) readiness is monotone — Some before an update entails Some after it on every exit '
          '(entailment from the inferred class invariant, N symbolic); (Q3) warm-up thresholds of the 21 tabled views by '
          'constant propagation of the integer/typestate skeleton with every float unknown, for concrete N in a stated range, '
          'which must never branch on data; (Q4) every float division, logarithm and square root and every float assertion in '
          'view code is guarded on its path (interval/sign analysis with integer lower bounds) or is in a reviewed exception table. ' + PARTIAL)
def c08(F, R, tier):
    e_ready.run_c08(F, R, tier)
    _no_unknowns(F, R, [v.name for v in F.views])


from . import e_rolling


@register('C13', 'other',
          'Rolling statistics, structural clauses on the value graph: WelfordRolling n := n+1, mean := mean + (x−mean)/n_after, '
          's := s + (x−mean_before)(x−mean_after), output sqrt(s/n) for n > 1; Drawdown: peak is the running maximum, the trough '
          'is reset on a new peak, max drawdown is the running maximum of (peak−trough)/peak formed after both register updates '
          '(decided per joint case of the three registers); LnReturn: two-step symbolic composition update(x1);update(x2);last() = '
          'Some(ln(x2/x1)) from any prior state. ' + PARTIAL)
def c13(F, R, tier):
    e_rolling.run_c13(F, R)
    _no_unknowns(F, R, ['WelfordRolling', 'Drawdown', 'LnReturn'])


from . import e_lti_props


@register('C09', 'other',
          'Stability, linear-recursion clause: for every recursive view and every window length in the enumerated range (from the '
          'constructor\'s minimum), the steady-state update is extracted as linear forms over state atoms (coefficients constant-folded '
          'from N and literals; non-linear sub-results are exogenous atoms) and every strongly connected feedback block has spectral '
          'radius < 1; coefficients are finite; the smoother pole a1 is exp(negative) for all N >= 1 (symbolic); TrendFlex/ReFlex are '
          'self-normalised X/sqrt(a·X²+b·prev) with leak b < 1; the Fisher recursion has feedback 0.5 with the clamp dominating the log. ' + PARTIAL)
def c09(F, R, tier):
    e_lti_props.run_c09(F, R, tier)
    _no_unknowns(F, R, _spec.RECURSIVE_VIEWS)


@register('C11', 'other',
          'Difference equations, linear stages and named coefficients: the steady-state impulse response of the recurrence extracted '
          'from the code equals that of the difference equation stated in the property (SuperSmoother, RoofingFilter, LaguerreFilter, '
          'the smoother inside TrendFlex and ReFlex) for every N in the enumerated range; alpha/gamma = 2/(N+1); CyberCycle pole radius '
          '1−alpha; Fisher recursion constants; self-normalised flex outputs; Fisher window extrema are rescanned. ' + PARTIAL)
def c11(F, R, tier):
    e_lti_props.run_c11(F, R, tier)
    _no_unknowns(F, R, ['SuperSmoother', 'RoofingFilter', 'LaguerreFilter', 'LaguerreRSI', 'CyberCycle', 'TrendFlex', 'ReFlex', 'EhlersFisherTransform', 'PolarizedFractalEfficiency'])


from . import e_trend


@register('C06', 'other',
          'Trend indicators, loop-nest and weight structure: NET compares every pair of window values exactly once (pair count = '
          'denominator n(n−1)/2, enumerated for n = 2..9/24 with symbolic window values), with +1/−1/0 for newer >/</= older; '
          'CenterOfGravity weights the k-th newest value by k in the numerator and 1 in the denominator, constant (n+1)/2, zero-denominator '
          'guard; CTI accumulates Σx, Σt, Σx², Σxt, Σt² over the whole window, reports Pearson\'s r of them under both variance guards > 0. ' + PARTIAL)
def c06(F, R, tier):
    e_trend.run_c06(F, R, tier)
    _no_unknowns(F, R, ['CorrelationTrendIndicator', 'NoiseEliminationTechnology', 'CenterOfGravity'])


from . import e_range


@register('C07', 'other',
          'Range-by-construction only: Tanh in [-1,1], LaguerreRSI in [0,1] (cu, cd are sums of differences taken under the matching >= '
          'guard, output cu/(cu+cd) under cu+cd != 0), WelfordOnline/WelfordRolling >= 0, GTE >= clip and LTE <= clip, |Fisher| <= ln 199 '
          '(clamp ±0.99 before 0.5·ln + 0.5 feedback), Drawdown running maximum from 0, NET in [-1,1] (unit steps over exactly n(n-1)/2 '
          'pairs) — by interval/sign analysis of the value graph. All clauses that rest on cancellation or rounding are declined. ' + PARTIAL)
def c07(F, R, tier):
    e_range.run_c07(F, R, tier)
