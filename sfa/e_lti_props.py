"""C09 (stability), C11 (difference equations, linear stages and named coefficients) and the DC-gain clause of C10,
from the steady-state linear forms extracted by sfa/lti.py for concrete window lengths."""
import math
from .model import model
from .e3_bounds import field_types
from .e_window import view_by_name, flow, no_raw_in_state
from .e_typed_props import inert_none_path
from .lti import (LinEval, Form, steady_state, param_env, symbolic_step, sccs, spectral_radius, dc_gain,
                  impulse_response, NonConst, const_form)
from .fsign import FSign
from .vg import subterms, tstr, op, lit
from . import skeleton as sk
from . import spec


def float_cells(F, v):
    ft = field_types(F, v)
    return {c for c, t in ft.items() if (t.get('param') and t['param'] not in v.view_params) or t.get('adt') == 'std::option::Option'
            or t.get('prim') in ('f32', 'f64')}


def configs_for(v, tier, name):
    """(args dict list) for the public `new` constructor."""
    small = list(range(1, 33)) if tier == 'quick' else list(range(1, 129))
    extra = [48, 64, 100, 128, 200, 256] if tier == 'quick' else [160, 200, 256, 384, 512, 1024, 2048, 4096]
    if name == 'CyberCycle':
        small = list(range(1, 25)) if tier == 'quick' else list(range(1, 97))
        extra = [32, 48] if tier == 'quick' else [128, 192, 256]
    return small + extra


def extract(F, v, m, N, M=None, gamma=None, ctor='new'):
    """Steady-state linear system(s) for one configuration. Returns list of dict(rows, out, problems, exit) or a
    string when the constructor rejects the configuration."""
    mms = [x for x in m.ctor_models if x['fn'].name == ctor and x['init'] is not None]
    if not mms:
        return 'no-new'
    mm = mms[0]
    ints = [nm for (pid, nm, ty) in mm['fn'].param_ids() if ty == 'usize']
    args = {}
    vals = [N] + ([M] if M is not None else [])
    for nm, val in zip(ints, vals):
        args[nm] = val
    for (pid, nm, ty) in mm['fn'].param_ids():
        if ty == 'T' and gamma is not None:
            args[nm] = const_form(gamma)
    # constructor preconditions
    evp = LinEval({}, {}, args)
    for c in mm['pre']:
        try:
            if evp.ev(c) is False:
                return 'rejected'
        except NonConst:
            pass
    params, probs = param_env(mm, args, m.touched)
    steps = 3 * N + 24 + (M or 0) * 2
    res = []
    for cname, states, pr in steady_state(m, [args[i] for i in ints], steps):
        if cname != ctor:
            continue
        if states is None:
            return 'rejected'
        fc = float_cells(F, v)
        for s in states:
            for which in range(len(m.up_exits)):
                atoms, rows, out, problems = symbolic_step_exit(F, v, m, s, params, fc, which)
                if rows is None:
                    continue
                res.append({'rows': rows, 'out': out, 'problems': list(probs) + list(pr) + list(problems), 'exit': which, 'params': params})
    return res


def symbolic_step_exit(F, v, m, s, params, fc, which):
    """symbolic_step restricted to exit number `which` if it is feasible in the steady state."""
    from . import lti
    ex = m.up_exits[which]
    # build once through lti.symbolic_step but forcing the exit: temporarily reorder
    saved = m.up_exits
    try:
        m.up_exits = [ex]
        atoms, rows, out, problems = lti.symbolic_step(F, v, m, s, params, fc)
    finally:
        m.up_exits = saved
    if rows is None:
        return atoms, None, None, problems
    # the exit on which nothing is delivered is not a step of the recursion
    from .terms import nondelivering
    if nondelivering(ex.pc, ('view',)):
        return atoms, None, None, problems
    return atoms, rows, out, problems


def max_radius(rows):
    r = 0.0
    worst = None
    for comp in sccs(rows):
        x = spectral_radius(rows, comp)
        if x > r:
            r, worst = x, comp
    return r, worst


# ----------------------------------------------------------------------------------------------
# reference recurrences transcribed from the property statement (C11)


def ss_coeffs(N, a_num=1.414 * math.pi, b_num=1.414 * math.pi):
    a1 = math.exp(-a_num / N)
    b1 = 2 * a1 * math.cos(b_num / N)
    c3 = -a1 * a1
    c1 = 1 - b1 - c3
    return c1, b1, c3


def ref_supersmoother(N, K, coeffs=None):
    c1, b1, c3 = coeffs or ss_coeffs(N)
    y1 = y2 = x1 = 0.0
    h = []
    for k in range(K):
        x = 1.0 if k == 0 else 0.0
        y = c1 * (x + x1) / 2 + b1 * y1 + c3 * y2
        h.append(y)
        y2, y1, x1 = y1, y, x
    return h


def ref_roofing(N, M, K):
    xx = 0.707 * 2 * math.pi / N
    al = (math.cos(xx) + math.sin(xx) - 1) / math.cos(xx)
    c1, b1, c3 = ss_coeffs(M)
    x1 = x2 = hp1 = hp2 = 0.0
    y1 = y2 = u1 = 0.0
    h = []
    for k in range(K):
        x = 1.0 if k == 0 else 0.0
        hp = (1 - al / 2) ** 2 * (x - 2 * x1 + x2) + 2 * (1 - al) * hp1 - (1 - al) ** 2 * hp2
        y = c1 * (hp + u1) / 2 + b1 * y1 + c3 * y2
        h.append(y)
        x2, x1, hp2, hp1 = x1, x, hp1, hp
        y2, y1, u1 = y1, y, hp
    return h


def ref_laguerre(g, K):
    l0 = l1 = l2 = l3 = 0.0
    h = []
    for k in range(K):
        x = 1.0 if k == 0 else 0.0
        n0 = (1 - g) * x + g * l0
        n1 = -g * n0 + l0 + g * l1
        n2 = -g * n1 + l1 + g * l2
        n3 = -g * n2 + l2 + g * l3
        h.append((n0 + 2 * n1 + 2 * n2 + n3) / 6)
        l0, l1, l2, l3 = n0, n1, n2, n3
    return h


def close(h1, h2, tol=2e-4):
    scale = max(1e-12, max(abs(x) for x in h2))
    return all(abs(a - b) <= tol * scale + 1e-12 for a, b in zip(h1, h2))


# ----------------------------------------------------------------------------------------------


def run_c09(F, R, tier):
    R.trust('rustc front end; sfa/vg.py; sfa/skeleton.py (steady-state lengths/counters); sfa/lti.py (linear forms, SCC radii)')
    R.assume('LaguerreRSI is analysed from N = 2 (N = 1 gives the inert gamma = 1: the input is ignored and nothing is ever reported)')
    R.assume('non-linear sub-results are exogenous bounded inputs of the linear recursion they feed; switching between exits is not analysed as a switched system')
    views = view_by_name(F)
    total = 0
    for n in spec.RECURSIVE_VIEWS:
        v = views.get(n)
        if v is None:
            R.violation('S1', n, 'view not found')
            continue
        m = model(F, v)
        worst = (0.0, None, None)
        bad = []
        nconf = 0
        grid = configs_for(v, tier, n)
        gammas = [None]
        if n == 'LaguerreFilter':
            gammas = [0.0, 0.1, 0.3, 0.5, 0.8, 0.95, 0.99]
            grid = [1]
        for N in grid:
            if n == 'LaguerreRSI' and N < 2:
                continue
            for g in gammas:
                Ms = [None]
                if n == 'RoofingFilter':
                    Ms = [1, 2, 3, 10] if tier == 'quick' else [1, 2, 3, 5, 10, 32]
                for M in Ms:
                    sysl = extract(F, v, m, N, M, g)
                    if isinstance(sysl, str):
                        continue
                    if not sysl:
                        bad.append('N=%s: no steady-state step could be extracted' % N)
                        continue
                    nconf += 1
                    for sy in sysl:
                        if any('not finite' in p or 'zero coefficient' in p for p in sy['problems']):
                            bad.append('N=%s: %s' % (N, [p for p in sy['problems'] if 'finite' in p or 'zero' in p][0]))
                        r, comp = max_radius(sy['rows'])
                        if r > worst[0]:
                            worst = (r, (N, M, g), comp)
                        if not (r < 1 - 1e-9):
                            bad.append('N=%s%s%s: feedback block %s has spectral radius %.6g >= 1' % (
                                N, '' if M is None else ' M=%s' % M, '' if g is None else ' gamma=%s' % g, [a for a in (comp or [])][:3], r))
        total += nconf
        R.ob('S1-radius', n, not bad and nconf > 0,
             'every feedback block of the steady-state recursion has spectral radius < 1 for all %d configurations (largest %.6f at %s)' % (nconf, worst[0], worst[1])
             if not bad else '; '.join(bad[:3]), v.file)
    R.extra['configurations'] = total
    exp_form_rule(F, R)
    normaliser_rule(F, R)
    fisher_feedback(F, R)
    from .e_typed_props import no_absolute_thresholds
    no_absolute_thresholds(F, R, spec.RECURSIVE_VIEWS, 'G0')
    linear_members_branch_free(F, R)
    history_fading(F, R, tier)
    R.floor('S5-history', 5)
    output_queue_no_hold(F, R)
    R.floor('S1-radius', 9)
    R.floor('S3-exp', 3)
    R.decline('boundedness through the non-linear stages beyond the rules above, "any chain built from them", and N beyond the enumerated range (except through the exp-form rule) are not decided')


def exp_form_rule(F, R):
    """A smoother coefficient defined as exp(−c/N) must be a call to exp whose argument is negative for every N >= 1."""
    views = view_by_name(F)
    for n in ('SuperSmoother', 'TrendFlex', 'ReFlex'):
        v = views.get(n)
        if v is None:
            continue
        m = model(F, v)
        terms = []
        for mm in m.ctor_models:
            if mm['init']:
                terms += list(mm['init'].values())
        terms += list(m.up_fields.values())
        exps = []
        for t in terms:
            for x in subterms(t):
                if x[0] == 'op' and x[1] == 'exp':
                    exps.append(x)
        ok = False
        detail = 'no exp(·) coefficient found: the pole radius is not of the form exp(−c/N)'
        for x in exps:
            arg = x[2][0]
            if any(y[0] in ('child', 'get', 'front', 'back') for y in subterms(arg)):
                continue
            fs = FSign([], lambda t: 1)
            r = fs.rng(arg)
            if r.hi < 0 or (r.hi == 0 and r.hi_open):
                ok = True
                detail = 'a1 = exp(%s) with a negative argument for every N >= 1, so 0 < a1 < 1' % tstr(arg)[:50]
            else:
                detail = 'exp argument %s is not negative for all N (range %s)' % (tstr(arg)[:50], r)
        R.ob('S3-exp', n, ok, detail, v.file)


def normaliser_rule(F, R, constants=None):
    """TrendFlex / ReFlex: out = X / sqrt(Y) with Y = a·X² + b·prev, a > 0, b in [0,1): |out| <= 1/sqrt(a) by construction.
    With `constants` = (a, b) the two literals must be exactly those (C11: 0.04 / 0.96)."""
    from .e_rolling import delivering_value
    views = view_by_name(F)
    for n in ('TrendFlex', 'ReFlex'):
        v = views.get(n)
        if v is None:
            continue
        m = model(F, v)
        ok = False
        further = ''
        detail = 'no self-normalised output X / sqrt(a·X² + b·prev) found'
        for cell, t in m.up_fields.items():
            for x in subterms(t):
                if x[0] == 'op' and x[1] == 'div' and x[2][1][0] == 'op' and x[2][1][1] == 'sqrt':
                    X = x[2][0]
                    Y = x[2][1][2][0]
                    if Y[0] == 'op' and Y[1] == 'add':
                        parts = list(Y[2])
                        a = b = None
                        for p in parts:
                            if p[0] == 'op' and p[1] == 'mul':
                                l, r_ = p[2]
                                if l[0] == 'lit' and r_ == op('powi', X, lit(2, 'i')):
                                    a = l[1]
                                elif l[0] == 'lit' and r_[0] == 'in':
                                    b = (l[1], r_[1])
                        if a is not None and b is not None and a > 0 and 0 <= b[0] < 1:
                            # the leaky register must be assigned exactly Y
                            if m.up_fields.get(b[1]) is not None and delivering_value(m, b[1]) == Y:
                                ok = True
                                # ... and the value handed out is that quotient itself (or 0 / the held value on the degenerate
                                # branch), not a further function of it
                                from .terms import cases as _cases
                                for oc in m.output_cells():
                                    tv = m.up_fields.get(oc)
                                    if tv is None:
                                        continue
                                    try:
                                        leaves = [lf for _, lf in _cases(tv)]
                                    except OverflowError:
                                        leaves = []
                                    for lf in leaves:
                                        core = lf[1] if (isinstance(lf, tuple) and lf and lf[0] == 'some') else lf
                                        if core in (x, ('in', oc), lit(0.0), ('none',)) or lf == ('in', oc):
                                            continue
                                        if any(y == x for y in subterms(core)):
                                            ok = False
                                            further = 'the reported value %s is a further function of the normalised quotient X/sqrt(Y), not the quotient itself' % tstr(core)[:70]
                                if constants is not None:
                                    okc = abs(a - constants[0]) < 1e-12 and abs(b[0] - constants[1]) < 1e-12
                                    R.ob('K2-coef', '%s:normaliser' % n, okc, 'leaky mean square uses %.4g·X² + %.4g·previous' % (a, b[0]) if okc else
                                         'leaky mean square uses %.4g / %.4g, the defining equation has %.4g / %.4g' % (a, b[0], constants[0], constants[1]), v.file)
                                detail = 'out = X/sqrt(%.2f·X² + %.2f·%s): leak factor %.2f < 1 and |out| <= %.3g by construction' % (a, b[0], b[1], b[0], 1 / math.sqrt(a))
                                if not ok and further:
                                    detail = further
                            else:
                                detail = 'the leaky mean-square register %s is not assigned exactly the mean square used for normalisation on every delivered value (it takes %s)' % (
                                    b[1], tstr(delivering_value(m, b[1]))[:80])
        R.ob('S2-normaliser', n, ok, detail, v.file)


def buffer_by_role(F, v, role):
    """Name of the buffer playing a structural role, so that rules do not depend on field names:
    'input'     the queue the inner view's output is pushed onto
    'output'    the queue whose newest element last() returns
    'recursive' the queue whose pushed value is computed from its own earlier elements (a filter's delay line)"""
    fl = flow(F, v)
    m = fl.m
    found = []
    for q, info in fl.queues.items():
        V = info.get('V')
        if V is None:
            continue
        if role == 'input' and V[0] == 'child':
            found.append(q)
        elif role == 'output' and any(x[0] == 'back' and x[1] == ('in', q) for x in subterms(m.last_ret)):
            found.append(q)
        elif role == 'recursive' and any(x == ('in', q) for x in subterms(V)):
            found.append(q)
    return found[0] if len(found) == 1 else None


def laguerre_rsi_ladder(F, R, Ns):
    """LaguerreRSI: the four stages form a ladder: L0' = (1−γ)·x + γ·L0[b]; for k = 1..3  Lk' = −γ·L(k−1)[a] + L(k−1)[b] + γ·Lk[b]
    with the same two lag positions a, b in every stage (the stages are siblings: stage k+1 must be stage k with the buffers
    renamed). The lag convention itself (which positions a and b are) is the crate's and is not judged."""
    import re as _re
    v = view_by_name(F).get('LaguerreRSI')
    if v is None:
        return
    m = model(F, v)
    bad = []
    cnt = 0
    for N in [N for N in Ns if N <= 32]:
        sysl = extract(F, v, m, N)
        if isinstance(sysl, str) or not sysl:
            continue
        g = 2.0 / (N + 1)
        for sy in sysl:
            rows = sy['rows']
            # stage buffers by structure, not by name: the new (non-shift) row of each buffer; stage 0 is the one fed by the input,
            # stage k+1 the one that reads stage k
            newrow = {}
            for a, f in rows.items():
                mt = _re.match(r'^b:(.+):(\d+)$', a)
                if mt and not (len(f) == 1 and list(f.values()) == [1.0] and list(f)[0].startswith('b:' + mt.group(1) + ':')):
                    newrow[mt.group(1)] = f
            order = [b for b, f in newrow.items() if 'u' in f]
            while len(order) >= 1 and len(order) < len(newrow):
                prev = order[-1]
                nxt_ = [b for b, f in newrow.items() if b not in order and any(x.startswith('b:%s:' % prev) for x in f)]
                if len(nxt_) != 1:
                    break
                order.append(nxt_[0])
            if len(order) != 4:
                continue
            stages = {}
            for k_, b in enumerate(order):
                # rename to the canonical l<k>s so that the stage comparison below is independent of field names
                stages[k_] = {(_re.sub(r'^b:(.+):(\d+)$', lambda m_: 'b:l%ds:%s' % (order.index(m_.group(1)), m_.group(2)) if m_.group(1) in order else m_.group(0), x)): c
                              for x, c in newrow[b].items()}
            if sorted(stages) != [0, 1, 2, 3]:
                continue
            cnt += 1
            f0 = stages[0]
            own = [a for a in f0 if a.startswith('b:l0s:')]
            if not (abs(f0.get('u', 0.0) - (1 - g)) < 1e-9 and len(own) == 1 and abs(f0[own[0]] - g) < 1e-9 and len(f0) == 2):
                bad.append('N=%d: stage 0 is %s, expected (1−γ)·x + γ·L0[prev]' % (N, {k: round(c, 4) for k, c in f0.items()}))
                continue
            for k in (1, 2, 3):
                f = stages[k]
                prev = {a: c for a, c in f.items() if a.startswith('b:l%ds:' % (k - 1))}
                mine = {a: c for a, c in f.items() if a.startswith('b:l%ds:' % k)}
                if len(prev) + len(mine) != len(f) or sorted(round(c, 9) for c in prev.values()) != sorted([round(-g, 9), 1.0]) or \
                        [round(c, 9) for c in mine.values()] != [round(g, 9)]:
                    bad.append('N=%d: stage %d is %s, expected −γ·L%d[a] + L%d[b] + γ·L%d[b]' % (N, k, {a: round(c, 4) for a, c in f.items()}, k - 1, k - 1, k))
                    break
                if k >= 2:
                    ren = {}
                    for a, c in stages[k - 1].items():
                        a2 = a.replace('b:l%ds:' % (k - 1), 'b:l%ds:' % k) if a.startswith('b:l%ds:' % (k - 1)) else a.replace('b:l%ds:' % (k - 2), 'b:l%ds:' % (k - 1))
                        ren[a2] = c
                    if set(ren) != set(f) or any(abs(ren[a] - f[a]) > 1e-9 for a in f):
                        bad.append('N=%d: stage %d (%s) is not stage %d with the buffers renamed (%s)' % (
                            N, k, {a: round(c, 4) for a, c in f.items()}, k - 1, {a: round(c, 4) for a, c in ren.items()}))
                        break
    R.ob('K1-ladder', 'LaguerreRSI', not bad and cnt > 0, 'four-stage Laguerre ladder with γ = 2/(N+1), every stage the renamed copy of the one before (%d window lengths)' % cnt
         if not bad and cnt > 0 else (bad[0] if bad else 'ladder rows not found'), v.file)


def flex_numerator(F, R, Ns):
    """TrendFlex / ReFlex: the quantity that is normalised is the (slope-corrected, for ReFlex) mean deviation over the window
    of N filter values including the current one: X = (1/N) Σ_{i=0..N-1} (f_t + i·s − f_(t−i)), s = 0 resp. (f_(t−N+1) − f_t)/N.
    Compared as linear forms over the steady-state atoms (filter window full), coefficient by coefficient."""
    from .lti import entry_state
    views = view_by_name(F)
    for n, with_slope in (('TrendFlex', False), ('ReFlex', True)):
        v = views.get(n)
        if v is None:
            continue
        m = model(F, v)
        q = buffer_by_role(F, v, 'recursive')
        # the normalised quantity X: numerator of out = X / sqrt(..)
        X = None
        for cell, t in m.up_fields.items():
            for x in subterms(t):
                if x[0] == 'op' and x[1] == 'div' and x[2][1][0] == 'op' and x[2][1][1] == 'sqrt':
                    X = x[2][0]
        bad = []
        cnt = 0
        if X is None or q is None:
            R.ob('K2-coef', '%s:numerator' % n, False, 'normalised quantity or filter window not found', v.file)
            continue
        for N in [N for N in Ns if 2 <= N <= 24]:
            mm = [x for x in m.ctor_models if x['fn'].name == 'new' and x['init'] is not None]
            if not mm:
                continue
            ints = [nm for (pid, nm, ty) in mm[0]['fn'].param_ids() if ty == 'usize']
            params, probs = param_env(mm[0], {ints[0]: N}, m.touched)
            for cname, states, pr in steady_state(m, [N], 3 * N + 24):
                if cname != 'new' or not states:
                    continue
                fc = float_cells(F, v)
                for s_ in states:
                    state, atoms = entry_state(s_, params, fc)
                    ev = LinEval(state, m.up_vg.loops)
                    try:
                        got = ev.ev(X)
                        newq = ev.ev(m.up_exits[-1].fields.get(q, ('in', q)))
                    except NonConst:
                        continue
                    if not isinstance(got, Form) or not isinstance(newq, list) or len(newq) != N:
                        continue
                    cnt += 1
                    f = newq[-1]
                    want = Form()
                    slope = Form()
                    if with_slope:
                        slope = newq[0].plus(f, -1.0).scale(1.0 / N)
                    for i in range(N):
                        term = f.plus(slope.scale(float(i))).plus(newq[N - 1 - i], -1.0)
                        want = want.plus(term)
                    want = want.scale(1.0 / N)
                    keys = set(got) | set(want)
                    if any(abs(got.get(k_, 0.0) - want.get(k_, 0.0)) > 1e-9 for k_ in keys):
                        k_ = max(keys, key=lambda k__: abs(got.get(k__, 0.0) - want.get(k__, 0.0)))
                        bad.append('N=%d: weight of %s in the normalised quantity is %.6g, the mean deviation over the window gives %.6g' % (N, k_, got.get(k_, 0.0), want.get(k_, 0.0)))
        R.ob('K2-coef', '%s:numerator' % n, not bad and cnt > 0,
             'the normalised quantity is the %smean deviation over the N filter values including the current one (%d window lengths)' % ('slope-corrected ' if with_slope else '', cnt)
             if not bad and cnt > 0 else (bad[0] if bad else 'nothing analysed'), v.file)
        # ... and from the initial state, through the warm-up (the window holds the k ≤ N filter values seen so far)
        from .lti import transient
        bad2 = []
        bad3 = []
        cnt2 = 0
        from .lti import _rename_u
        for N in [N for N in Ns if 1 <= N <= 12]:
            hist = []       # reference smoother outputs f_0.. as linear forms over u0.. (first-value initial state: u_(−1) = u_0)
            mm = [x for x in m.ctor_models if x['fn'].name == 'new' and x['init'] is not None]
            if not mm:
                continue
            ints = [nm for (pid, nm, ty) in mm[0]['fn'].param_ids() if ty == 'usize']

            def probe(k, ev, ex, N=N):
                nonlocal cnt2
                try:
                    got = ev.ev(X)
                    newq = ev.ev(ex.fields.get(q, ('in', q)))
                except NonConst:
                    bad2.append('N=%d step %d: the normalised quantity is not a linear form of the inputs' % (N, k))
                    return
                if not isinstance(got, Form) or not isinstance(newq, list) or not newq or not all(isinstance(x_, Form) for x_ in newq):
                    bad2.append('N=%d step %d: the normalised quantity is not a linear form of the inputs' % (N, k))
                    return
                cnt2 += 1
                n_ = len(newq)
                f = newq[-1]
                if N >= 3:
                    c1, b1, c3 = ss_coeffs(N, 8.88442402435, 4.44221201218)
                    x0 = Form({'u%d' % k: 1.0})
                    x1 = Form({'u%d' % max(k - 1, 0): 1.0})
                    wf = x0.plus(x1).scale(c1 / 2.0)
                    if len(hist) >= 1:
                        wf = wf.plus(hist[-1].scale(b1))
                    if len(hist) >= 2:
                        wf = wf.plus(hist[-2].scale(c3))
                    hist.append(wf)
                    gf = _rename_u(f, 'u%d' % k)
                    keys_ = set(gf) | set(wf)
                    if any(abs(gf.get(k_, 0.0) - wf.get(k_, 0.0)) > 1e-8 for k_ in keys_):
                        k_ = max(keys_, key=lambda k__: abs(gf.get(k__, 0.0) - wf.get(k__, 0.0)))
                        bad3.append('N=%d, update %d: weight of %s in the smoothed value is %.9g, the stated recursion from a first-value initial state gives %.9g'
                                    % (N, k + 1, k_, gf.get(k_, 0.0), wf.get(k_, 0.0)))
                slope = newq[0].plus(f, -1.0).scale(1.0 / N) if with_slope else Form()
                want = Form()
                for i in range(n_):
                    want = want.plus(f.plus(slope.scale(float(i))).plus(newq[n_ - 1 - i], -1.0))
                want = want.scale(1.0 / N)
                keys = set(got) | set(want)
                if any(abs(got.get(k_, 0.0) - want.get(k_, 0.0)) > 1e-9 for k_ in keys):
                    k_ = max(keys, key=lambda k__: abs(got.get(k__, 0.0) - want.get(k__, 0.0)))
                    bad2.append('N=%d, update %d (window holds %d filter values): weight of %s in the normalised quantity is %.6g, the mean deviation over the window gives %.6g'
                                % (N, k + 1, n_, k_, got.get(k_, 0.0), want.get(k_, 0.0)))
            transient(m, 'new', {ints[0]: N}, 2 * N + 4, probe=probe)
        R.ob('K2-coef', '%s:smoother-from-start' % n, not bad3 and cnt2 > 0,
             'from the initial state the smoothed value follows f = c1(x + x₋₁)/2 + b1·f₋₁ + c3·f₋₂ with x₋₁ := x₀ and zero filter history (N = 3..12)'
             if not bad3 and cnt2 > 0 else (bad3[0] if bad3 else 'nothing analysed'), v.file)
        R.ob('K2-coef', '%s:numerator-warmup' % n, not bad2 and cnt2 > 0,
             'from the initial state the normalised quantity is (1/N)·Σ over the filter values in the window (%d steps examined)' % cnt2
             if not bad2 and cnt2 > 0 else (bad2[0] if bad2 else 'nothing analysed'), v.file)


def fisher_feedback(F, R):
    v = view_by_name(F).get('EhlersFisherTransform')
    if v is None:
        return
    m = model(F, v)
    ok = False
    detail = 'no recursion fish = 0.5·ln((1+s)/(1−s)) + 0.5·previous with s clamped to ±0.99 found'
    for cell, t in m.up_fields.items():
        for x in subterms(t):
            if x[0] == 'op' and x[1] == 'add' and len(x[2]) == 2:
                for p, q in (x[2], x[2][::-1]):
                    if p[0] == 'op' and p[1] == 'mul' and q[0] == 'op' and q[1] == 'mul' and p[2][0] == lit(0.5) and q[2][0][0] == 'lit':
                        fb = q[2][0][1]
                        lnp = p[2][1]
                        prev = q[2][1]
                        if lnp[0] == 'op' and lnp[1] == 'ln' and prev[0] == 'back':
                            arg = lnp[2][0]
                            clamps = [y for y in subterms(arg) if y[0] == 'op' and y[1] == 'clamp']
                            if clamps and all(c[2][1] == lit(-0.99) and c[2][2] == lit(0.99) for c in clamps) and abs(fb) < 1:
                                s = clamps[0]
                                if arg == op('div', op('add', lit(1.0), s), op('sub', lit(1.0), s)):
                                    ok = fb == 0.5
                                    detail = 'fish = 0.5·ln((1+s)/(1−s)) + %.2f·previous, s = clamp(·, −0.99, 0.99): feedback %.2f < 1, |fish| <= ln 199' % (fb, fb)
    R.ob('S2-fisher', 'EhlersFisherTransform', ok, detail, v.file)


def linear_members_branch_free(F, R):
    """The linear recursions must advance on every delivered value: no comparison on data (a data-dependent early return
    or hold freezes the state, so the effect of earlier values no longer dies out)."""
    from .e_typing import analyse_view, Lin
    views = view_by_name(F)
    for n in ('Ema', 'LaguerreFilter', 'SuperSmoother', 'RoofingFilter', 'CyberCycle'):
        v = views.get(n)
        if v is None:
            continue
        dom, tau, out, m = analyse_view(F, v, Lin)
        nonlin = [c_ for c_ in dom.complaints if c_[0] == 'L-nonlinear']
        okb = not dom.datadep and not nonlin
        R.ob('S4-branch-free', n, okb, 'the recursion has no data-dependent branch' if okb else
             ('data-dependent branch in the recursion: %s' % tstr(dom.datadep[0])[:100] if dom.datadep else
              'a non-linear function / predicate of the data in the recursion: %s' % str(nonlin[0][2])[:100]), v.file)


def ema_recurrence(F, R, tier):
    """Ema: in steady state out' = w·x + (1−w)·e with w = alpha/(N+1), for the default and for custom alpha
    (form-independent: read off the extracted linear forms), and the first delivered value seeds e."""
    v = view_by_name(F).get('Ema')
    if v is None:
        R.violation('B2-ema', 'Ema', 'not found')
        return
    m = model(F, v)
    bad = []
    cnt = 0
    Ns = list(range(1, 33)) + [64, 128] if tier == 'quick' else list(range(1, 129)) + [256, 1024]
    for ctor, alphas in (('new', [None]), ('with_alpha', [0.5, 1.0, 2.0])):
        for alpha in alphas:
            for N in Ns:
                if alpha is not None and alpha > N + 1:
                    continue
                sysl = extract(F, v, m, N, None, alpha, ctor)
                if isinstance(sysl, str) or not sysl:
                    continue
                w = (2.0 if alpha is None else alpha) / (N + 1)
                for sy in sysl:
                    if sy['out'] is None:
                        continue
                    cnt += 1
                    h = impulse_response(sy['rows'], sy['out'], 24)
                    ref = [w * (1 - w) ** k for k in range(24)]
                    if not close(h, ref, 1e-9):
                        bad.append('%s(N=%d%s): steady-state impulse response %s..., expected w(1−w)^k with w = %.6g' % (
                            ctor, N, '' if alpha is None else ', alpha=%s' % alpha, [round(x, 6) for x in h[:3]], w))
    R.ob('B2-ema', 'Ema:recurrence', not bad and cnt > 0, 'e_t = w·x_t + (1−w)·e_(t−1), w = alpha/(N+1), for %d configurations (default and custom alpha)' % cnt
         if not bad else '; '.join(bad[:2]), v.file)


def run_c10_dc(F, R, tier):
    """DC gain clause of C10 from the extracted steady-state systems."""
    views = view_by_name(F)
    for n in [x for x in spec.LOWPASS_DC1 + spec.HIGHPASS_DC0 if x != 'Alma']:  # Alma: unit gain follows from the paired wtd_sum/cum_wt structure (M1)
        v = views.get(n)
        if v is None:
            continue
        want = 1.0 if n in spec.LOWPASS_DC1 else 0.0
        m = model(F, v)
        bad = []
        nconf = 0
        grid = [N for N in configs_for(v, tier, n) if N <= (48 if tier == 'quick' else 256)]
        gammas = [None]
        if n == 'LaguerreFilter':
            gammas = [0.0, 0.3, 0.5, 0.8, 0.95]
            grid = [1]
        for N in grid:
            for g in gammas:
                Ms = [None] if n != 'RoofingFilter' else [2, 5]
                for M in Ms:
                    sysl = extract(F, v, m, N, M, g)
                    if isinstance(sysl, str) or not sysl:
                        continue
                    for sy in sysl:
                        if sy['out'] is None:
                            continue
                        if any(b.startswith('nl:') for f in sy['rows'].values() for b in f):
                            bad.append(('N=%s' % N, 'steady-state step is not linear'))
                            continue
                        nconf += 1
                        dc = dc_gain(sy['rows'], sy['out'])
                        if dc is None or abs(dc - want) > 1e-6:
                            bad.append((N if g is None else g, dc))
        for key, dc in bad:
            R.ob('DC', '%s:N=%s' % (n, key), False, 'steady-state DC gain is %s, the property needs %s (a constant stream is not mapped to %s)' % (
                ('%.6g' % dc) if isinstance(dc, float) else dc, want, 'itself' if want else '0'), v.file)
        R.ob('DC-coverage', n, nconf > 0, 'steady-state DC gain evaluated for %d configurations (%d differ from %s, reported individually)' % (nconf, len(bad), want), v.file)


def pfe_sign_rule(F, R):
    """PFE: the ratio is negated exactly when the last step is down (newest < previous); flat or up keeps it positive."""
    from .terms import cases_deep, relation
    v = view_by_name(F).get('PolarizedFractalEfficiency')
    if v is None:
        return
    m = model(F, v)
    fed = None
    fed_pc = ()
    for cp, feeds in m.up_vg.child_fed.items():
        for pc, arg, node in feeds:
            if arg[0] != 'arg':
                fed = arg
                fed_pc = tuple(c for c in pc if isinstance(c, tuple) and c and c[0] != 'inloop')
    ok = fed is not None
    detail = 'no value fed to the moving average'
    seen = set()
    from .e3_bounds import Bounds, structural_cond
    from .solve import Hyps, entails_h
    B_ = Bounds(F, v)
    ctx_ = B_.ctx(m.up_vg)
    base_ = Hyps(B_.pre + B_.houdini(), ctx_)
    if fed is not None:
        from .e_range import pfe_sign_normal
        fed = pfe_sign_normal(fed)
        V = None
        for x in subterms(fed):
            if x[0] == 'child':
                V = x
        for conds, leaf in cases_deep(fed):
            # (-(a / b) is stored as (-a) / b: the value graph's one spelling of a negated quotient)
            negated = (leaf[0] == 'op' and leaf[1] == 'neg') or (leaf[0] == 'op' and leaf[1] == 'div' and leaf[2][0][0] == 'op' and leaf[2][0][1] == 'neg')
            allowed = {'<', '=', '>'}
            prevs = set()
            for c in conds:
                x = c
                while x[0] == 'op' and x[1] == 'not':
                    x = x[2][0]
                if x[0] == 'op' and x[1] in ('lt', 'le', 'gt', 'ge', 'eq', 'ne') and V in x[2]:
                    other = x[2][1] if x[2][0] == V else x[2][0]
                    if other[0] in ('get', 'back', 'front'):
                        r = relation(c, V, other)
                        if r is not None:
                            allowed &= r
                            prevs.add(other)
                            # the compared element must be the previous value: position len-2 of the window that already
                            # holds the newest value (or the newest element of the window before the push)
                            seq_ = other[1]
                            is_prev = False
                            if other[0] == 'get':
                                H_ = base_.extended([cc for cc in list(conds) + list(fed_pc) if structural_cond(cc, ctx_)])
                                if seq_[0] == 'push_back' and seq_[2] == V:
                                    is_prev = entails_h(H_, op('eq', op('iadd', other[2], lit(2, 'i')), ('len', seq_)))
                                else:
                                    is_prev = entails_h(H_, op('eq', op('iadd', other[2], lit(1, 'i')), ('len', seq_))) and not any(y == V for y in subterms(seq_))
                            elif other[0] == 'back':
                                is_prev = not any(y == V for y in subterms(seq_))
                            if not is_prev:
                                ok = False
                                detail = 'the sign is decided by comparing the newest value with %s, which is not the previous value' % tstr(other)[:70]
            if not prevs:
                continue
            seen.add(negated)
            if ok and negated and not allowed <= {'<'}:
                ok = False
                detail = 'the ratio is negated although the last step may be flat or up (newest ? previous in %s)' % sorted(allowed)
            if not negated and not allowed <= {'>', '='}:
                ok = False
                detail = 'the ratio is kept positive although the last step may be down'
        if seen != {True, False}:
            ok = False
            detail = 'sign selection on the last step not recognised'
    R.ob('K5-pfe-sign', 'PolarizedFractalEfficiency', ok, 'negative exactly when the last step is down' if ok else detail, v.file)


def fisher_ma_input(F, R):
    """Fisher transform: the supplied moving average smooths the min-max normalised value 2((x−low)/(high−low) − 0.5)."""
    v = view_by_name(F).get('EhlersFisherTransform')
    if v is None:
        return
    m = model(F, v)
    ok = False
    detail = 'the moving average is not fed 2·((x − low)/(high − low) − 0.5)'
    for cp, feeds in m.up_vg.child_fed.items():
        for pc, arg, node in feeds:
            if arg[0] == 'arg':
                continue
            a = arg
            if a[0] == 'op' and a[1] == 'mul' and lit(2.0) in a[2]:
                inner = a[2][1] if a[2][0] == lit(2.0) else a[2][0]
                if inner[0] == 'op' and inner[1] == 'sub' and inner[2][1] == lit(0.5):
                    q = inner[2][0]
                    if q[0] == 'op' and q[1] == 'div' and q[2][0][0] == 'op' and q[2][0][1] == 'sub' and q[2][1][0] == 'op' and q[2][1][1] == 'sub':
                        x_, lo1 = q[2][0][2]
                        hi, lo2 = q[2][1][2]
                        if lo1 == lo2 and x_[0] == 'child':
                            ok = True
                            detail = 'moving average input is 2·((x − low)/(high − low) − 0.5) with the window\'s current extrema'
    R.ob('K6-fisher-input', 'EhlersFisherTransform', ok, detail, v.file)


def run_c11(F, R, tier):
    R.trust('rustc front end; sfa/vg.py; sfa/lti.py; the reference recurrences in sfa/e_lti_props.py, transcribed from the property statement')
    R.assume('comparison is between steady-state linear systems (window full, warm-up gates passed); relative tolerance 2e-4 absorbs 4.4422 vs 1.414·pi')
    views = view_by_name(F)
    Ns = [N for N in (list(range(1, 25)) + [32, 48, 64, 100])] if tier == 'quick' else list(range(1, 129)) + [200, 256, 512]
    K = 60

    def compare(n, ref, Ms=(None,), gammas=(None,), out_atom=None, tol=2e-4):
        v = views.get(n)
        if v is None:
            R.violation('K1', n, 'view not found')
            return
        m = model(F, v)
        bad = []
        nconf = 0
        grid = Ns if gammas == (None,) else [1]
        for N in grid:
            for g in gammas:
                for M in Ms:
                    sysl = extract(F, v, m, N, M, g)
                    if isinstance(sysl, str) or not sysl:
                        continue
                    for sy in sysl:
                        out = sy['out']
                        if out_atom is not None:
                            # pseudo-output: the newest element of the named buffer
                            keys = sorted([a for a in sy['rows'] if a.startswith('b:%s:' % out_atom)], key=lambda a: int(a.split(':')[-1]))
                            out = sy['rows'][keys[-1]] if keys else None
                        if out is None:
                            continue
                        rows = {a: Form({b: c for b, c in f.items() if not b.startswith('nl:')}) for a, f in sy['rows'].items()}
                        out = Form({b: c for b, c in out.items() if not b.startswith('nl:')})
                        h = impulse_response(rows, out, K)
                        hr = ref(N, M, g, K)
                        nconf += 1
                        tol_ = tol(N) if callable(tol) else tol
                        if not close(h, hr, tol_):
                            i = next(i for i, (a, b) in enumerate(zip(h, hr)) if abs(a - b) > tol_ * max(abs(x) for x in hr) + 1e-12)
                            bad.append('N=%s%s%s: impulse response differs at step %d (%.6g vs reference %.6g)' % (
                                N, '' if M is None else ' M=%s' % M, '' if g is None else ' gamma=%s' % g, i, h[i], hr[i]))
        R.ob('K1-impulse', n, not bad and nconf > 0,
             'steady-state impulse response of the extracted recurrence equals the stated difference equation for %d configurations (%d samples each)' % (nconf, K)
             if not bad else '; '.join(bad[:3]), v.file)

    compare('SuperSmoother', lambda N, M, g, K: ref_supersmoother(N, K))
    compare('RoofingFilter', lambda N, M, g, K: ref_roofing(N, M, K), Ms=(2, 5) if tier == 'quick' else (1, 2, 3, 5, 10))
    compare('LaguerreFilter', lambda N, M, g, K: ref_laguerre(g, K), gammas=(0.0, 0.2, 0.5, 0.8, 0.95))
    tf = lambda N, M, g, K: ref_supersmoother(N, K, ss_coeffs(N, 8.88442402435, 4.44221201218))
    for n_ in ('TrendFlex', 'ReFlex'):
        if views.get(n_) is not None:
            # the statement gives these two constants with twelve digits: no slack for 'exact' replacements
            # (for N < 3 the window of N filter values cannot hold the two previous outputs the recursion needs -- the crate's
            # convention truncates it there, an effect of order b1, c3 ~ 1e-4: the looser tolerance is kept for those two lengths)
            compare(n_, tf, out_atom=buffer_by_role(F, views[n_], 'recursive') or '?', tol=lambda N_: 1e-8 if N_ >= 3 else 2e-4)
    # named coefficients that are constructor parameters
    for n, cell, f in (('CyberCycle', 'alpha', lambda N: 2.0 / (N + 1)), ('LaguerreRSI', 'gamma', lambda N: 2.0 / (N + 1))):
        v = views.get(n)
        if v is None:
            continue
        m = model(F, v)
        bad = []
        cnt = 0
        mm0 = [x for x in m.ctor_models if x['fn'].name == 'new' and x['init'] is not None]
        if mm0 and cell not in mm0[0]['init']:
            # the coefficient is not kept as a cell of that name (e.g. derived constants are stored instead): its value is
            # decided where it acts, by the recursion / ladder rules below, which read the coefficients off the recurrence
            continue
        for N in Ns:
            mm = [x for x in m.ctor_models if x['fn'].name == 'new' and x['init'] is not None]
            if not mm:
                continue
            ints = [nm for (pid, nm, ty) in mm[0]['fn'].param_ids() if ty == 'usize']
            params, probs = param_env(mm[0], {ints[0]: N}, m.touched)
            val = params.get(cell)
            cnt += 1
            if not isinstance(val, Form) or abs(val.const() - f(N)) > 1e-9:
                bad.append(N)
        R.ob('K2-coef', '%s:%s' % (n, cell), not bad and cnt > 0, '%s = 2/(N+1) for %d window lengths' % (cell, cnt) if not bad else '%s differs from 2/(N+1) at N=%s' % (cell, bad[:5]), v.file)
    # CyberCycle: double pole at 1 - alpha
    v = views.get('CyberCycle')
    if v is not None:
        m = model(F, v)
        bad = []
        cnt = 0
        for N in [N for N in Ns if N <= 64]:
            sysl = extract(F, v, m, N)
            if isinstance(sysl, str) or not sysl:
                continue
            for sy in sysl:
                r, comp = max_radius(sy['rows'])
                cnt += 1
                if abs(r - (1 - 2.0 / (N + 1))) > 1e-3:
                    bad.append((N, r))
        R.ob('K3-poles', 'CyberCycle', not bad and cnt > 0, 'pole radius = 1 − alpha for %d window lengths' % cnt if not bad else 'pole radius differs from 1 − alpha: %s' % bad[:3], v.file)
        # the individual coefficients of cycle_t = g·Δ²smooth + 2(1−α)·cycle_(t−1) − (1−α)²·cycle_(t−2), g = (1 − α/2)².
        # g is read off the oldest tap of Δ²smooth (the value five steps back enters with weight g/6 in the paper's layout and
        # in the crate's), so the rule does not depend on how the smoothing buffer is laid out.
        bad = []
        cnt = 0
        q_out = buffer_by_role(F, v, 'output') or 'out'
        q_in = buffer_by_role(F, v, 'input') or 'vals'
        for N in [N for N in Ns if 6 <= N <= 64]:
            sysl = extract(F, v, m, N)
            if isinstance(sysl, str) or not sysl:
                continue
            al = 2.0 / (N + 1)
            for sy in sysl:
                # the new element of the output queue: its only row that is not a plain shift
                pre = 'b:%s:' % q_out
                news = [f for a, f in sy['rows'].items() if a.startswith(pre) and not (len(f) == 1 and list(f.values()) == [1.0] and list(f)[0].startswith(pre))]
                if len(news) != 1:
                    continue
                row = news[0]
                cnt += 1
                own = sorted([(int(a.split(':')[-1]), c) for a, c in row.items() if a.startswith(pre)], reverse=True)
                fb1 = own[0][1] if own else 0.0
                fb2 = own[1][1] if len(own) > 1 else 0.0
                got = (6.0 * row.get('b:%s:%d' % (q_in, N - 5), 0.0), fb1, fb2)
                want = ((1 - al / 2) ** 2, 2 * (1 - al), -(1 - al) ** 2)
                if any(abs(a - b) > 1e-9 for a, b in zip(got, want)):
                    bad.append('N=%d: (g, c1, c2) = (%.6g, %.6g, %.6g), expected (%.6g, %.6g, %.6g)' % ((N,) + got + want))
        R.ob('K2-coef', 'CyberCycle:recursion', not bad and cnt > 0,
             'input gain (1 − α/2)² and feedback 2(1−α), −(1−α)² for %d window lengths' % cnt if not bad and cnt > 0 else (bad[0] if bad else 'new output row not found'), v.file)
    laguerre_rsi_ladder(F, R, Ns)
    flex_numerator(F, R, Ns)
    # "window of N filter values including the current one": the value/filter windows hold exactly N once full
    from .e_window import check_windows
    only = {}
    for n_, role in (('EhlersFisherTransform', 'input'), ('TrendFlex', 'recursive'), ('ReFlex', 'recursive'),
                     ('PolarizedFractalEfficiency', 'input'), ('CyberCycle', 'input')):
        if views.get(n_) is not None:
            q_ = buffer_by_role(F, views[n_], role)
            only[n_] = [q_] if q_ else []
    check_windows(F, R, list(only), 'W1', only)
    R.floor('W1', 5)
    transient_vs_reference(F, R, tier)
    R.floor('K1-history', 3)
    fisher_feedback(F, R)
    normaliser_rule(F, R, constants=(0.04, 0.96))
    # window min/max of the Fisher transform are rescanned extrema
    v = views.get('EhlersFisherTransform')
    if v is not None:
        fl = flow(F, v)
        found = 0
        for cell in sorted(fl.m.touched):
            if cell in fl.B.buffers:
                continue
            kind, ok, detail = fl.extremum(cell)
            if kind is None:
                continue
            found += 1
            R.ob('K4-extremum', 'EhlersFisherTransform:%s' % cell, ok, detail, v.file)
        R.ob('K4-extremum', 'EhlersFisherTransform', found >= 2, '%d window extremum cells recognised' % found, v.file)
    names = ['SuperSmoother', 'RoofingFilter', 'LaguerreFilter', 'LaguerreRSI', 'CyberCycle', 'TrendFlex', 'ReFlex', 'EhlersFisherTransform', 'PolarizedFractalEfficiency']
    from .e_typed_props import no_absolute_thresholds
    no_absolute_thresholds(F, R, names, 'G0')
    pfe_sign_rule(F, R)
    from .e_range import pfe_statement_rule
    pfe_statement_rule(F, R, tier)
    fisher_ma_input(F, R)
    no_raw_in_state(F, R, names, 'R2s')
    inert_none_path(F, R, names, 'Q1')
    R.floor('K1-impulse', 5)
    R.floor('K2-coef', 2)
    R.decline('the non-linear tails (TrendFlex/ReFlex normalisation algebra beyond the self-normalised form, LaguerreRSI CU/CD bookkeeping and lag convention, Fisher normalisation order), '
              'initial-state/warm-up behaviour, and CyberCycle\'s smoothing layout (the statement is silent) are not decided')


# ----------------------------------------------------------------------------------------------
# transient analysis from the constructor's initial state (linear forms over the individual inputs u0, u1, ..)


def _ctor_args(m, ctor, ints, floats=()):
    mms = [x for x in m.ctor_models if x['fn'].name == ctor]
    if not mms:
        return None
    args = {}
    iv = list(ints)
    fv = list(floats)
    for (pid, nm, ty) in mms[0]['fn'].param_ids():
        if ty == 'usize' and iv:
            args[nm] = iv.pop(0)
        elif ty == 'T' and fv:
            args[nm] = const_form(fv.pop(0))
    return args


def _coef(f, k):
    return f.get('u%d' % k, 0.0)


def ema_transient(F, R, tier):
    """Ema from its very first value: e_0 = x_0, e_t = w x_t + (1-w) e_(t-1), nothing reported before the N-th value,
    then exactly e_t: compared coefficient by coefficient with the forms obtained by abstract execution from new()."""
    from .lti import transient
    v = view_by_name(F).get('Ema')
    if v is None:
        R.violation('B2-ema', 'Ema:transient', 'not found')
        return
    m = model(F, v)
    bad = []
    cnt = 0
    Ns = range(1, 13) if tier == 'quick' else range(1, 41)
    for ctor, alphas in (('new', [None]), ('with_alpha', [0.5, 1.0, 2.0])):
        for alpha in alphas:
            for N in Ns:
                if alpha is not None and alpha > N + 1:
                    continue
                args = _ctor_args(m, ctor, [N], [] if alpha is None else [alpha])
                if args is None:
                    continue
                K = N + 10
                outs, probs = transient(m, ctor, args, K)
                if outs is None:
                    continue
                w = (2.0 if alpha is None else alpha) / (N + 1)
                ref = []
                e = {}
                for k in range(K):
                    if k == 0:
                        e = {0: 1.0}
                    else:
                        e = {j: c * (1 - w) for j, c in e.items()}
                        e[k] = e.get(k, 0.0) + w
                    ref.append(dict(e))
                for k, o in enumerate(outs):
                    cnt += 1
                    if k < N - 1:
                        continue   # readiness is C08's clause
                    if o is None or o == 'nl':
                        bad.append('%s(N=%d%s): output %d is %s' % (ctor, N, '' if alpha is None else ', alpha=%s' % alpha, k, 'missing' if o is None else 'not a linear form'))
                        break
                    if any(abs(_coef(o, j) - ref[k].get(j, 0.0)) > 1e-9 for j in range(k + 1)) or abs(o.get('1', 0.0)) > 1e-12:
                        bad.append('%s(N=%d%s): after value %d the output is %s, the recursion from e_0 = x_0 gives %s' % (
                            ctor, N, '' if alpha is None else ', alpha=%s' % alpha, k + 1,
                            [round(_coef(o, j), 5) for j in range(k + 1)][-4:], [round(ref[k].get(j, 0.0), 5) for j in range(k + 1)][-4:]))
                        break
    R.ob('B2-ema', 'Ema:transient', not bad and cnt > 0,
         'from the first value on e_0 = x_0, e_t = w·x_t + (1−w)·e_(t−1) (%d outputs compared coefficient-wise, default and custom alpha)' % cnt if not bad and cnt > 0
         else ('; '.join(bad[:2]) or 'nothing analysed'), v.file)


def convex_transient(F, R, tier, names=('Sma', 'Ema', 'Alma'), rule='B1-convex'):
    """Sma, Ema (default alpha), Alma: every reported value is a convex combination (coefficients >= 0, sum 1, no constant
    term) of the inputs so far, for Sma and Alma of the last N inputs only. Hull, monotonicity, reproduction of constants
    and commutation with x -> a·x + b (a > 0) follow for these configurations."""
    from .lti import transient
    views = view_by_name(F)
    Ns = range(1, 13) if tier == 'quick' else range(1, 41)
    for n in names:
        v = views.get(n)
        if v is None:
            R.violation(rule, n, 'not found')
            continue
        m = model(F, v)
        bad = []
        cnt = 0
        for N in Ns:
            args = _ctor_args(m, 'new', [N])
            K = 2 * N + 6
            outs, probs = transient(m, 'new', args, K)
            if outs is None:
                continue
            for k, o in enumerate(outs):
                if o is None:
                    continue
                cnt += 1
                if o == 'nl':
                    bad.append('N=%d: output %d is not a linear form of the inputs' % (N, k))
                    break
                cs = [_coef(o, j) for j in range(k + 1)]
                if min(cs) < -1e-12:
                    bad.append('N=%d: output %d has a negative weight %.6g on input %d: not monotone / can leave the hull' % (N, k, min(cs), cs.index(min(cs))))
                    break
                if abs(sum(cs) - 1.0) > 1e-9 or abs(o.get('1', 0.0)) > 1e-12:
                    bad.append('N=%d: weights of output %d sum to %.9g (constant term %.3g): a constant is not reproduced' % (N, k, sum(cs), o.get('1', 0.0)))
                    break
                if n in ('Sma', 'Alma') and any(abs(c) > 1e-12 for c in cs[:max(0, k + 1 - N)]):
                    bad.append('N=%d: output %d still depends on an input older than the last N' % (N, k))
                    break
                extra = [a for a in o if not a.startswith('u') and a != '1' and abs(o[a]) > 1e-12]
                if extra:
                    bad.append('N=%d: output %d depends on %s' % (N, k, extra[:2]))
                    break
        R.ob(rule, n, not bad and cnt > 0,
             'every reported value is a convex combination of the %s (N = %d..%d, %d outputs from the initial state)' % (
                 'last N inputs' if n != 'Ema' else 'inputs so far', Ns[0], Ns[-1], cnt) if not bad and cnt > 0 else ('; '.join(bad[:2]) or 'nothing analysed'), v.file)


def dc_first_output(F, R, tier):
    """C10: the low-pass members reproduce a constant stream from their first output: the weights of every reported value
    (from the initial state on) sum to 1 and there is no constant term."""
    from .lti import transient
    views = view_by_name(F)
    for n in ('Sma', 'Ema', 'Alma', 'LaguerreFilter'):   # SuperSmoother only converges to the constant (statement)
        v = views.get(n)
        if v is None:
            continue
        m = model(F, v)
        bad = []
        cnt = 0
        if n == 'LaguerreFilter':
            cfgs = [([], [g]) for g in (0.0, 0.2, 0.5, 0.8, 0.95)]
        else:
            cfgs = [([N], []) for N in (range(1, 13) if tier == 'quick' else range(1, 49))]
        for ints, floats in cfgs:
            args = _ctor_args(m, 'new', ints, floats)
            K = (2 * ints[0] + 8) if ints else 24
            outs, probs = transient(m, 'new', args, K)
            if outs is None:
                continue
            for k, o in enumerate(outs):
                if o is None:
                    continue
                cnt += 1
                if o == 'nl':
                    bad.append('%s: output %d is not a linear form' % (ints or floats, k))
                    break
                sm = sum(c for a, c in o.items() if a.startswith('u'))
                if abs(sm - 1.0) > 1e-9 or abs(o.get('1', 0.0)) > 1e-12:
                    bad.append('%s: the weights of output %d sum to %.6g: a constant stream c is reported as %.6g·c' % (ints or floats, k, sm, sm))
                    break
        R.ob('DC-first', n, not bad and cnt > 0, 'a constant stream is reproduced from the first output on (%d outputs from the initial state)' % cnt
             if not bad and cnt > 0 else ('; '.join(bad[:2]) or 'nothing analysed'), v.file)


# ----------------------------------------------------------------------------------------------
# full-history comparison with the stated difference equations (reference run in the linear-form domain too)


class _LF(dict):
    """Linear form over input indices."""
    def add(self, o, c=1.0):
        for a, b in o.items():
            self[a] = self.get(a, 0.0) + c * b
        return self

    @staticmethod
    def u(k):
        return _LF({k: 1.0})

    @staticmethod
    def comb(*pairs):
        r = _LF()
        for c, f in pairs:
            r.add(f, c)
        return r


def ref_forms_supersmoother(K, coeffs, init, xs=None):
    """y_k as linear forms; init 'zero': x_(-1) = y_(-1) = y_(-2) = 0; 'first': all equal to x_0. xs: input forms (default u_k)."""
    c1, b1, c3 = coeffs
    xs = xs or [_LF.u(k) for k in range(K)]
    z = _LF() if init == 'zero' else _LF(xs[0])
    x1, y1, y2 = _LF(z), _LF(z), _LF(z)
    out = []
    for k in range(K):
        y = _LF.comb((c1 / 2, xs[k]), (c1 / 2, x1), (b1, y1), (c3, y2))
        out.append(y)
        y2, y1, x1 = y1, y, xs[k]
    return out


def ref_forms_laguerre(K, g, init):
    xs = [_LF.u(k) for k in range(K)]
    out = []
    if init == 'zero':
        l0, l1, l2, l3 = _LF(), _LF(), _LF(), _LF()
        start = 0
    else:
        l0, l1, l2, l3 = _LF(xs[0]), _LF(xs[0]), _LF(xs[0]), _LF(xs[0])
        out.append(_LF(xs[0]))
        start = 1
    for k in range(start, K):
        n0 = _LF.comb((1 - g, xs[k]), (g, l0))
        n1 = _LF.comb((-g, n0), (1.0, l0), (g, l1))
        n2 = _LF.comb((-g, n1), (1.0, l1), (g, l2))
        n3 = _LF.comb((-g, n2), (1.0, l2), (g, l3))
        out.append(_LF.comb((1 / 6.0, n0), (2 / 6.0, n1), (2 / 6.0, n2), (1 / 6.0, n3)))
        l0, l1, l2, l3 = n0, n1, n2, n3
    return out


def ref_forms_roofing(K, N, M, init, start=0):
    """High-pass from the first value; the smoother (zero state) is switched on at input index `start` (the crate delays it
    until its warm-up is over: `start` is read off the first reported output, whose position C08 pins independently)."""
    xx = 0.707 * 2 * math.pi / N
    al = (math.cos(xx) + math.sin(xx) - 1) / math.cos(xx)
    xs = [_LF.u(k) for k in range(K)]
    z = _LF() if init == 'zero' else _LF(xs[0])
    x1, x2, hp1, hp2 = _LF(z), _LF(z), _LF(), _LF()
    hps = []
    for k in range(K):
        hp = _LF.comb(((1 - al / 2) ** 2, xs[k]), (-2 * (1 - al / 2) ** 2, x1), ((1 - al / 2) ** 2, x2), (2 * (1 - al), hp1), (-(1 - al) ** 2, hp2))
        hps.append(hp)
        x2, x1, hp2, hp1 = x1, xs[k], hp1, hp
    ys = ref_forms_supersmoother(K - start, ss_coeffs(M), 'zero', hps[start:])
    return [_LF() for _ in range(start)] + ys


def transient_vs_reference(F, R, tier):
    """C11, whole history: the forms reported from the constructor's initial state on equal the stated difference equation
    started from a zero or a first-value initial state (one convention for the whole run), coefficient by coefficient."""
    from .lti import transient
    views = view_by_name(F)
    Ns = list(range(1, 13)) if tier == 'quick' else list(range(1, 41))
    jobs = [('SuperSmoother', [([N], []) for N in Ns], lambda ints, fl, K, init: ref_forms_supersmoother(K, ss_coeffs(ints[0]), init)),
            ('LaguerreFilter', [([], [g]) for g in (0.0, 0.2, 0.5, 0.8, 0.95)], lambda ints, fl, K, init: ref_forms_laguerre(K, fl[0], init)),
            ('RoofingFilter', [([N, M], []) for N in Ns if N >= 2 for M in ((2, 5) if tier == 'quick' else (2, 3, 5, 10))],
             lambda ints, fl, K, init, start=0: ref_forms_roofing(K, ints[0], ints[1], init, start))]
    for n, cfgs, ref in jobs:
        v = views.get(n)
        if v is None:
            continue
        m = model(F, v)
        bad = []
        cnt = 0
        for ints, floats in cfgs:
            args = _ctor_args(m, 'new', ints, floats)
            K = (sum(ints) if ints else 4) + 14
            outs, probs = transient(m, 'new', args, K)
            if outs is None:
                continue
            verdicts = {}
            first = next((k for k, o in enumerate(outs) if o is not None), None)
            for init in ('zero', 'first'):
                if n == 'RoofingFilter':
                    if first is None or first - ints[1] + 1 < 0:
                        continue
                    rf = ref(ints, floats, K, init, first - ints[1] + 1)
                else:
                    rf = ref(ints, floats, K, init)
                okc = True
                why = ''
                for k, o in enumerate(outs):
                    if o is None:
                        continue
                    if o == 'nl':
                        okc, why = False, 'output %d is not a linear form' % k
                        break
                    scale = max([abs(c) for c in rf[k].values()] + [1e-12])
                    for j in range(k + 1):
                        if abs(_coef(o, j) - rf[k].get(j, 0.0)) > 2e-4 * scale + 1e-12:
                            okc, why = False, 'output %d: weight of input %d is %.6g, the difference equation gives %.6g' % (k, j, _coef(o, j), rf[k].get(j, 0.0))
                            break
                    if not okc:
                        break
                verdicts[init] = (okc, why)
            if any(o is not None for o in outs):
                cnt += 1
                if not any(v_[0] for v_ in verdicts.values()):
                    bad.append('%s: %s' % (ints or floats, '; '.join('%s (%s initial state)' % (w, i) for i, (o_, w) in verdicts.items()) or 'first output too early for the smoother length'))
        R.ob('K1-history', n, not bad and cnt > 0,
             'every output from the initial state on equals the stated difference equation from a zero or first-value initial state (%d configurations)' % cnt
             if not bad and cnt > 0 else (bad[0] if bad else 'nothing analysed'), v.file)


def output_queue_no_hold(F, R):
    """A recursive view whose outputs live in a queue must not re-push its previous output under a data-dependent
    condition: a held value is an integrator (weight 1 on the past) -- two streams that merge keep their own level for ever."""
    from .terms import cases
    from .e3_bounds import Bounds, structural_cond
    views = view_by_name(F)
    for n in spec.RECURSIVE_VIEWS:
        v = views.get(n)
        if v is None:
            continue
        q = buffer_by_role(F, v, 'output')
        if q is None:
            continue
        m = model(F, v)
        ctx_ = Bounds(F, v).ctx(m.up_vg)
        bad = None
        npush = 0
        for ex in m.up_exits:
            t = ex.fields.get(q, ('in', q))
            for x in subterms(t):
                if x[0] in ('push_back', 'push_front'):
                    npush += 1
                    try:
                        cs = cases(x[2])
                    except OverflowError:
                        cs = [((), x[2])]
                    for conds, leaf in cs:
                        val = leaf[1] if leaf[0] == 'some' else leaf
                        held = val[0] in ('back', 'front', 'get') and any(y == ('in', q) for y in subterms(val[1]))
                        if val[0] == 'payload' and val[1][0] in ('back', 'front', 'get'):
                            held = any(y == ('in', q) for y in subterms(val[1]))
                        if held:
                            data = [c for c in list(conds) + [c for c in ex.pc if isinstance(c, tuple)] if not structural_cond(c, ctx_) and c[0] != 'inloop']
                            if data:
                                bad = 'the previous output %s is pushed again under the data-dependent condition %s' % (tstr(val)[:40], tstr(data[-1])[:70])
        R.ob('S6-no-hold', n, bad is None and npush > 0, 'no push of the previous output under a data-dependent condition (%d push sites)' % npush if bad is None else bad, v.file)


def history_fading(F, R, tier):
    """C09 for the linear recursive members, from the constructor's initial state (warm-up gates and first-value seeding
    included): with every input its own symbol, (a) the l1 norm of the weight vector of the reported value -- the exact
    gain from a bounded input to the output -- does not grow with the number of updates, and (b) the weight of the first
    inputs decays geometrically (the effect of an early value dies out)."""
    from .lti import transient
    views = view_by_name(F)
    Ns = [1, 2, 3, 4, 5, 8, 16] if tier == 'quick' else [1, 2, 3, 4, 5, 6, 8, 12, 16, 24, 32, 48, 64]
    for n in ('Ema', 'LaguerreFilter', 'SuperSmoother', 'RoofingFilter', 'CyberCycle'):
        v = views.get(n)
        if v is None:
            continue
        m = model(F, v)
        bad = []
        cnt = 0
        if n == 'LaguerreFilter':
            cfgs = [([], [g]) for g in (0.0, 0.3, 0.8, 0.95)]
        elif n == 'RoofingFilter':
            cfgs = [([N, M], []) for N in Ns for M in (2, 5)]
        else:
            cfgs = [([N], []) for N in Ns]
        for ints, floats in cfgs:
            args = _ctor_args(m, 'new', ints, floats)
            span = (sum(ints) if ints else 20)
            if floats and floats[0] >= 0.9:
                span = 120
            K = 8 * span + 48
            outs, probs = transient(m, 'new', args, K)
            if outs is None or all(o is None for o in outs):
                continue
            cnt += 1
            if any(o == 'nl' for o in outs):
                bad.append('%s: an output is not a linear form of the inputs' % (ints or floats))
                continue
            norms = [(k, sum(abs(c) for a, c in o.items() if a.startswith('u'))) for k, o in enumerate(outs) if o is not None]
            half = [x for k, x in norms if k < K // 2]
            rest = [x for k, x in norms if k >= K // 2]
            if half and rest and max(rest) > max(half) * (1 + 1e-3) + 1e-9:
                bad.append('%s: the gain from bounded inputs to the output grows with the stream (l1 norm %.6g in the first half, %.6g in the second)' % (
                    ints or floats, max(half), max(rest)))
                continue
            first = [abs(o.get('u0', 0.0)) + abs(o.get('u1', 0.0)) + abs(o.get('u2', 0.0)) for k, o in enumerate(outs) if o is not None]
            peak = max(first) if first else 0.0
            tail = max(first[-8:]) if first else 0.0
            if peak > 0 and tail > 1e-3 * peak:
                bad.append('%s: after %d updates the first inputs still carry weight %.3g (peak %.3g): their effect does not die out' % (ints or floats, K, tail, peak))
        R.ob('S5-history', n, not bad and cnt > 0,
             'from the initial state the input-to-output gain stays bounded and the weight of the first inputs decays (%d configurations)' % cnt
             if not bad and cnt > 0 else (bad[0] if bad else 'nothing analysed'), v.file)


def linear_history(F, R, tier):
    """C10, second engine: from the constructor's initial state, with every input its own symbol, every value the 8 linear
    views report is a linear form of the inputs so far -- no constant term, no non-linear atom (independent of the typing proof)."""
    from .lti import transient
    views = view_by_name(F)
    Ns = [1, 2, 3, 4, 5, 8, 13] if tier == 'quick' else list(range(1, 33))
    for n in spec.LINEAR_VIEWS:
        v = views.get(n)
        if v is None:
            continue
        m = model(F, v)
        bad = []
        cnt = 0
        if n == 'LaguerreFilter':
            cfgs = [([], [g]) for g in (0.0, 0.5, 0.9)]
        elif n == 'RoofingFilter':
            cfgs = [([N, M], []) for N in Ns for M in (2, 5)]
        else:
            cfgs = [([N], []) for N in Ns]
        for ints, floats in cfgs:
            args = _ctor_args(m, 'new', ints, floats)
            if args is None:
                continue
            K = 3 * (sum(ints) if ints else 8) + 10
            outs, probs = transient(m, 'new', args, K)
            if outs is None or all(o is None for o in outs):
                continue
            cnt += 1
            for k, o in enumerate(outs):
                if o is None:
                    continue
                if o == 'nl':
                    bad.append('%s: output %d is not a linear form of the inputs' % (ints or floats, k))
                    break
                if abs(o.get('1', 0.0)) > 1e-12 or any(not a.startswith('u') and a != '1' and abs(c) > 1e-12 for a, c in o.items()):
                    bad.append('%s: output %d has a constant or foreign term %s' % (ints or floats, k, {a: c for a, c in o.items() if not a.startswith('u')}))
                    break
        R.ob('L-history', n, not bad and cnt > 0, 'every reported value from the initial state on is a homogeneous linear form of the inputs (%d configurations)' % cnt
             if not bad and cnt > 0 else (bad[0] if bad else 'nothing analysed'), v.file)
