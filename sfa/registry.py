LEVELS = {}
RUNNERS = {}


def register(prop, level, explanation):
    def deco(fn):
        RUNNERS[prop] = fn
        LEVELS[prop] = (level, explanation)
        return fn
    return deco
