"""C13 — rolling statistics (WelfordRolling, Drawdown, LnReturn): def-use / dataflow rules on the value graph."""
from .model import model
from .e_window import view_by_name
from .e_typed_props import inert_none_path
from .vg import VG, exits_value, subterms, tstr, op, lit, is_some, neg_cond, phi, TRUE, NONE
from .terms import cases, cases_deep, relation, subst_in, map_term, free_ins


def comm(t):
    """Canonical form modulo commutativity of add/mul (operands sorted)."""
    def f(n):
        if n[0] == 'op' and n[1] in ('add', 'mul') and len(n[2]) == 2:
            a, b = n[2]
            if str(a) > str(b):
                return ('op', n[1], (b, a))
        return n
    return map_term(t, f)


def delivering_value(m, cell):
    """Exit value of `cell` on the delivering exits only."""
    from .terms import nondelivering
    exits = [ex for ex in m.up_exits if not nondelivering(ex.pc)]
    return exits_value(exits, lambda ex: ex.fields.get(cell, ('in', cell)))


def trivially_false(c):
    neg = False
    while c[0] == 'op' and c[1] == 'not':
        neg = not neg
        c = c[2][0]
    if c[0] == 'op' and c[1] in ('lt', 'gt', 'ne', 'le', 'ge', 'eq') and len(c[2]) == 2 and c[2][0] == c[2][1]:
        val = c[1] in ('le', 'ge', 'eq')
        return (not val) != neg
    return False


def rel_in(conds, x, y):
    allowed = {'<', '=', '>'}
    for c in conds:
        r = relation(c, x, y)
        if r is not None:
            allowed &= r
    return allowed


def welford_rolling(F, R):
    v = view_by_name(F).get('WelfordRolling')
    if v is None:
        R.violation('WR', 'WelfordRolling', 'not found')
        return
    m = model(F, v)
    V = None
    for t in m.up_fields.values():
        for x in subterms(t):
            if x[0] == 'child':
                V = x
    ints = [c for c in m.touched if m.F and c in ('n',) or False]
    # discover roles: counter = usize cell; mean/s = float cells
    from .e3_bounds import field_types, is_int_ty
    ft = field_types(F, v)
    counters = [c for c in m.touched if is_int_ty(ft.get(c, {}))]
    floats = [c for c in m.touched if ft.get(c, {}).get('param') and ft[c]['param'] not in v.view_params]
    ok_n = False
    n = None
    for c in counters:
        if delivering_value(m, c) == op('iadd', ('in', c), lit(1, 'i')):
            ok_n, n = True, c
    R.ob('WR-count', 'WelfordRolling', ok_n, 'sample counter is incremented by one per delivered value' if ok_n else 'no counter with n := n + 1', v.file)
    if not ok_n or V is None:
        return
    wide = ft.get(n, {}).get('prim') in ('usize', 'u64', 'u128')
    R.ob('WR-count-width', 'WelfordRolling', wide,
         'the sample counter is a %s: it cannot wrap within 2^64 updates' % ft.get(n, {}).get('prim') if wide else
         'the sample counter is a %s: after 2^bits values it overflows (panic in debug, wrap to 0 in release and the mean divides by zero), so the statistics do not hold for streams of any length' % ft.get(n, {}).get('prim'), v.file)
    n1 = op('iadd', ('in', n), lit(1, 'i'))
    mean = s = None
    for c in floats:
        t = comm(delivering_value(m, c))
        want_mean = comm(op('add', ('in', c), op('div', op('sub', V, ('in', c)), op('from_int', n1))))
        if t == want_mean:
            mean = c
    R.ob('WR-mean', 'WelfordRolling', mean is not None,
         'mean := mean + (x − mean)/n with n the post-update count' if mean else 'no cell is updated as mean + (x − mean)/n_after', v.file)
    if mean is None:
        return
    # ... and from the initial state: after k delivered values the mean cell is Σ u_i / k, weight by weight (linear-form domain)
    from .lti import transient, Form, NonConst, _rename_u
    bad = []
    steps = [0]

    def probe(k, ev, ex):
        try:
            f = ev.ev(ex.fields.get(mean, ('in', mean)))
        except NonConst:
            bad.append('after %d values the mean is not a linear form of the inputs' % (k + 1))
            return
        if not isinstance(f, Form):
            bad.append('after %d values the mean is not a linear form of the inputs' % (k + 1))
            return
        f = _rename_u(f, 'u%d' % k)
        steps[0] += 1
        want = {'u%d' % j: 1.0 / (k + 1) for j in range(k + 1)}
        keys = set(f) | set(want)
        if any(abs(f.get(a, 0.0) - want.get(a, 0.0)) > 1e-12 for a in keys):
            a = max(keys, key=lambda a_: abs(f.get(a_, 0.0) - want.get(a_, 0.0)))
            bad.append('after %d values the weight of %s in the mean is %.6g, not 1/%d' % (k + 1, a, f.get(a, 0.0), k + 1))
    ctor_ = [x['fn'].name for x in m.ctor_models if x['init'] is not None]
    if ctor_:
        transient(m, ctor_[0], {}, 40, probe=probe)
    R.ob('WR-mean-history', 'WelfordRolling', not bad and steps[0] > 0,
         'from the initial state the mean after k delivered values is (1/k)·Σ of them, weight by weight, for k = 1..%d' % steps[0]
         if not bad and steps[0] > 0 else (bad[0] if bad else 'nothing analysed'), v.file)
    mean_after = delivering_value(m, mean)
    for c in floats:
        if c == mean:
            continue
        t = comm(delivering_value(m, c))
        want = comm(op('add', ('in', c), op('mul', op('sub', V, ('in', mean)), op('sub', V, mean_after))))
        if t == want:
            s = c
    R.ob('WR-cross', 'WelfordRolling', s is not None,
         's := s + (x − mean_before)(x − mean_after)' if s else 'no cell is updated with the cross term (x − old mean)(x − new mean)', v.file)
    # output: sqrt(s/n) when n > 1, 0 for a single sample, None before the first
    ret = m.last_ret
    good = False
    detail = 'last() is not sqrt(s/n)'
    try:
        cs = cases_deep(ret)
    except OverflowError:
        cs = []
    seen_sqrt = seen_none = False
    bad = None
    for conds, leaf in cs:
        if any(trivially_false(c) for c in conds):
            continue
        if leaf == NONE:
            # nothing is reported exactly when no sample has been seen: n = 0, however it is spelled (n is unsigned)
            seen_none = seen_none or any(relation(c, ('in', n), lit(0, 'i')) in ({'='}, {'<', '='}) for c in conds)
            continue
        if leaf[0] == 'some':
            x = leaf[1]
            from .e3_bounds import Bounds, structural_cond
            from .solve import Hyps, entails_h
            if not hasattr(welford_rolling, '_B') or welford_rolling._B[0] is not F:
                B_ = Bounds(F, v)
                welford_rolling._B = (F, B_, B_.pre + B_.houdini())
            B_, entry_ = welford_rolling._B[1], welford_rolling._B[2]
            ctx_ = B_.ctx(m.last_vg)
            from .e3_bounds import data_driven_int_cells, mentions_cells, field_types as _ft
            ddc_ = data_driven_int_cells(m, _ft(F, v))
            data_conds = [c for c in conds if not structural_cond(c, ctx_) or mentions_cells(c, ddc_)]
            H = Hyps(entry_ + [c for c in conds if structural_cond(c, ctx_)], ctx_)
            if data_conds:
                # which of the three answers is given must depend on the sample count only
                bad = 'the value reported depends on a data condition: %s' % tstr(data_conds[0])[:70]
            elif s and x == op('sqrt', op('div', ('in', s), op('from_int', ('in', n)))):
                if entails_h(H, op('ge', ('in', n), lit(2, 'i'))):
                    seen_sqrt = True
                else:
                    bad = 'sqrt(s/n) outside n > 1'
            elif x == op('sqrt', lit(0.0)):
                if not entails_h(H, op('le', ('in', n), lit(1, 'i'))):
                    bad = '0 is reported although more than one sample may have been seen'
            else:
                bad = 'unexpected output %s' % tstr(x)[:60]
    good = seen_sqrt and seen_none and bad is None
    R.ob('WR-out', 'WelfordRolling', good, 'last() = sqrt(s/n) (population) for n > 1, 0 for one sample, None before the first' if good else (bad or detail), v.file)


def drawdown(F, R):
    v = view_by_name(F).get('Drawdown')
    if v is None:
        R.violation('DD', 'Drawdown', 'not found')
        return
    m = model(F, v)
    V = None
    for t in m.up_fields.values():
        for x in subterms(t):
            if x[0] == 'child':
                V = x
    cells = sorted(m.touched)
    inits = m.inits()
    init = inits[0][1] if inits else {}
    peak = [c for c in cells if init.get(c) == ('sentinel', 'min_value') or init.get(c) == ('sentinel', 'neg_infinity')]
    trough = [c for c in cells if init.get(c) == ('sentinel', 'max_value') or init.get(c) == ('sentinel', 'infinity')]
    mdd = [c for c in cells if init.get(c) == lit(0.0)]
    if m.last_ret[0] == 'some' and m.last_ret[1][0] == 'in' and m.last_ret[1][1] in cells:
        mdd = [m.last_ret[1][1]]
    # roles by structure (independent of how the registers are initialised): the peak is the running maximum of the inner
    # output, the maximum drawdown is what last() returns, the trough is the remaining float register
    if V is not None and len(mdd) == 1:
        pk = []
        for c in cells:
            dv = delivering_value(m, c)
            if dv[0] == 'phi' and {dv[2], dv[3]} == {V, ('in', c)}:
                r = relation(dv[1], V, ('in', c))
                if r is not None and ((dv[2] == V and r <= {'>', '='} and '>' in r) or (dv[3] == V and ({'<', '=', '>'} - r) <= {'>', '='})):
                    pk.append(c)
        if len(pk) == 1:
            rest = [c for c in cells if c not in pk and c not in mdd]
            if len(rest) == 1:
                peak, trough = pk, rest
    if len(peak) != 1 or len(trough) != 1 or len(mdd) != 1 or V is None:
        R.violation('DD', 'Drawdown:roles', 'cannot identify peak / trough / max-drawdown cells from their initial values (min_value, max_value, 0): %s' % {c: tstr(init.get(c, ('?',))) for c in cells}, v.file)
        return
    P, T, M = peak[0], trough[0], mdd[0]
    # initial state: the peak register must start below every admissible (positive) input -- a sentinel or a literal <= 0 --
    # so that the first value becomes the first peak; the maximum drawdown starts at 0 ("0 before any decline")
    okinit = bool(inits)
    whyinit = ''
    for nm, init_, pre in inits:
        ip, im = init_.get(P), init_.get(M)
        okp = ip is not None and ((ip[0] == 'sentinel' and ip[1] in ('min_value', 'neg_infinity')) or (ip[0] == 'lit' and isinstance(ip[1], (int, float)) and ip[1] <= 0))
        okm = im is not None and im[0] == 'lit' and im[1] == 0
        if not okp:
            okinit, whyinit = False, 'the peak register starts at %s: a first value below it never becomes the peak (phantom peak)' % tstr(ip if ip else ('?',))
        elif not okm:
            okinit, whyinit = False, 'the maximum drawdown starts at %s, not 0' % tstr(im if im else ('?',))
    R.ob('DD-init', 'Drawdown', okinit, 'peak starts below every positive input, maximum drawdown at 0' if okinit else whyinit, v.file)
    joint = ('tuple', (delivering_value(m, P), delivering_value(m, T), delivering_value(m, M)))
    try:
        cs = cases_deep(joint)
    except OverflowError:
        R.violation('DD', 'Drawdown:cases', 'too many cases')
        return
    ok_p = ok_t = ok_m = True
    why = []
    n = 0
    for conds, leaf in cs:
        if any(trivially_false(c) for c in conds):
            continue
        n += 1
        p, t, mm = leaf[1]
        inP, inT, inM = ('in', P), ('in', T), ('in', M)
        # running maximum
        rp = rel_in(conds, V, inP)
        if p == V:
            if not rp <= {'>', '='}:
                ok_p = False
                why.append('peak := x although x may be below the peak')
        elif p == inP:
            if not rp <= {'<', '='}:
                ok_p = False
                why.append('peak kept although x may exceed it')
        else:
            ok_p = False
            why.append('peak takes value %s' % tstr(p)[:40])
        # trough: reset on a new peak, lowered otherwise
        rt = rel_in(conds, V, inT)
        if p == V and p != inP and rp <= {'>'}:
            if t != V:
                ok_t = False
                why.append('trough is not reset to x when x is a new peak')
        elif t == V:
            if not (rt <= {'<', '='} or rp <= {'>', '='}):
                ok_t = False
                why.append('trough := x although x may be above it')
        elif t == inT:
            if not rt <= {'>', '='}:
                ok_t = False
                why.append('trough kept although x may be below it')
        else:
            ok_t = False
            why.append('trough takes value %s' % tstr(t)[:40])
        # running maximum of the relative decline measured after both updates
        dd = op('div', op('sub', p, t), p)
        rm = rel_in(conds, dd, inM)
        if mm == dd:
            if not rm <= {'>', '='}:
                ok_m = False
                why.append('max drawdown := dd although dd may be smaller')
        elif mm == inM:
            if not rm <= {'<', '='}:
                ok_m = False
                why.append('max drawdown kept although the current relative decline (peak−trough)/peak may exceed it')
        else:
            ok_m = False
            why.append('max drawdown takes value %s, not (peak−trough)/peak of the updated registers' % tstr(mm)[:60])
    R.ob('DD-peak', 'Drawdown', ok_p and n > 0, 'peak is the running maximum' if ok_p else why[0], v.file)
    R.ob('DD-trough', 'Drawdown', ok_t and n > 0, 'trough is reset on a new peak and lowered otherwise' if ok_t else [w for w in why if 'trough' in w][:1], v.file)
    R.ob('DD-max', 'Drawdown', ok_m and n > 0, 'max drawdown is the running maximum of (peak−trough)/peak formed after both register updates' if ok_m else [w for w in why if 'drawdown' in w][:1], v.file)
    outok = m.last_ret == ('some', ('in', M))
    R.ob('DD-out', 'Drawdown', outok, 'last() reports the max-drawdown cell' if outok else 'last() is %s' % tstr(m.last_ret)[:60], v.file)


def ln_return(F, R):
    """Two-step composition: after delivering x1 then x2 from any state, last() = Some(ln(x2/x1)) (x1 != 0)."""
    v = view_by_name(F).get('LnReturn')
    if v is None:
        R.violation('LR', 'LnReturn', 'not found')
        return
    vg = VG(F, v)
    fields = None
    for step in range(2):
        vg2 = VG(F, v)
        vg2.child_epoch = dict(vg.child_epoch)
        exits = vg2.run(v.update, '', None, fields)
        from .terms import nondelivering
        deliv = [ex for ex in exits if not nondelivering(ex.pc)]
        keys = set()
        for ex in deliv:
            keys |= set(ex.fields)
        fields = {k: exits_value(deliv, lambda ex, k=k: ex.fields.get(k, ('in', k))) for k in keys}
        vg = vg2
    vg3 = VG(F, v)
    exits = vg3.run(v.last, '', None, fields)
    ret = exits_value(exits, lambda ex: ex.ret)
    x1, x2 = ('child', 'view', 1), ('child', 'view', 2)
    kids = [f.name for f in v.children_fields()]
    if kids:
        x1, x2 = ('child', kids[0], 1), ('child', kids[0], 2)
    ok = True
    why = ''
    n_some = 0
    try:
        cs = cases_deep(ret)
    except OverflowError:
        cs = []
        ok = False
        why = 'too many cases'
    for conds, leaf in cs:
        if any(trivially_false(c) for c in conds):
            continue
        if free_ins(leaf) or any(free_ins(c) for c in conds):
            ok = False
            why = 'after two delivered values the answer still depends on older state: %s' % tstr(leaf)[:60]
            break
        if leaf == NONE:
            # allowed only for the zero sentinel on x1
            if not any(relation(c, x1, lit(0.0)) == {'='} for c in conds):
                ok = False
                why = 'None after two delivered values under %s' % [tstr(c)[:40] for c in conds]
            continue
        want = ('some', op('ln', op('div', x2, x1)))
        if leaf != want:
            ok = False
            why = 'reports %s, expected ln(x_t / x_(t-1))' % tstr(leaf)[:70]
        else:
            n_some += 1
    # every constructor (Default impls included) starts from the zero sentinel that last() treats as "no previous value": with any
    # other start the first report would be ln(x_1 / start), not a log return of two delivered values
    m_ = model(F, v)
    bad_init = []
    for mm in m_.ctor_models:
        if mm['init'] is None:
            bad_init.append('%s(): initial state not readable' % mm['fn'].name)
            continue
        for cell, t0 in mm['init'].items():
            if cell in m_.touched and isinstance(t0, tuple) and t0 and t0[0] == 'lit' and len(t0) > 2 and t0[2] == 'f' and t0[1] != 0.0:
                bad_init.append('%s(): register `%s` starts at %s, not at the zero sentinel' % (mm['fn'].name, cell, t0[1]))
            elif cell in m_.touched and isinstance(t0, tuple) and t0 and t0[0] not in ('lit', 'none', 'seq_new', 'seq_rep', 'seq_lit'):
                bad_init.append('%s(): register `%s` starts at %s' % (mm['fn'].name, cell, tstr(t0)[:40]))
    R.ob('LR-init', 'LnReturn', not bad_init, 'every constructor starts the two registers at the zero sentinel (nothing is reported before two delivered values)'
         if not bad_init else bad_init[0], v.file)
    R.ob('LR-compose', 'LnReturn', ok and n_some > 0, 'update(x1); update(x2); last() = Some(ln(x2/x1)) from any prior state (x1 != 0)' if ok and n_some else (why or 'never Some'), v.file)


def run_c13(F, R):
    R.trust('rustc front end; sfa/vg.py; term matching modulo commutativity of + and ·')
    R.assume('positive finite inputs for Drawdown and LnReturn')
    welford_rolling(F, R)
    drawdown(F, R)
    ln_return(F, R)
    inert_none_path(F, R, ['WelfordRolling', 'Drawdown', 'LnReturn'], 'Q1')
    R.floor('WR-count', 1)
    R.floor('WR-mean', 1)
    R.floor('WR-cross', 1)
    R.floor('DD-max', 1)
    R.floor('LR-compose', 1)
    R.decline('equality with the batch definition as a value and absence of error growth over millions of updates are not decided')
