"""Entry point: ./check <property> [--tier quick|thorough] [--src DIR]"""
import argparse
import os
import sys
import traceback

from .extract import extract, ExtractError
from .report import Report

from .registry import LEVELS, RUNNERS

def load_runners():
    from . import props  # noqa: F401  (registers everything)


def selftest(prop, R):
    """Thorough tier: test the checker both ways. Every seeded change written against this property and every
    reverted fix: commit mapped to it is applied to a scratch copy of /repo (outside /repo and /verif, removed
    afterwards); the same rules must report a violation there. A patch that no longer applies is skipped and
    counted, never a failure of the property."""
    import json, shutil, subprocess, tempfile
    from .report import VERIF
    patches = []
    sd = os.path.join(VERIF, 'seeded')
    for d in sorted(os.listdir(sd)) if os.path.isdir(sd) else []:
        if d.startswith(prop + '-') and os.path.exists(os.path.join(sd, d, 'patch.diff')):
            patches.append((d, os.path.join(sd, d, 'patch.diff')))
    mp = os.path.join(VERIF, 'mutants', 'MAP.json')
    if os.path.exists(mp):
        for fn, props in json.load(open(mp)).items():
            if prop in props:
                patches.append((fn, os.path.join(VERIF, 'mutants', fn)))
    killed, skipped, missed = [], [], []
    declined = {}
    dp = os.path.join(VERIF, 'seeded', 'DECLINED.json')
    if os.path.exists(dp):
        declined = json.load(open(dp))
    for name, path in patches:
        d = tempfile.mkdtemp(prefix='sfa_self_')
        try:
            src = os.path.join(d, 'repo')
            subprocess.run(['rsync', '-a', '--exclude', 'target', '--exclude', '.git', '--exclude', 'img', '/repo/', src + '/'], check=True)
            r = subprocess.run(['git', 'apply', '--whitespace=nowarn', path], cwd=src, capture_output=True, text=True)
            if r.returncode != 0:
                skipped.append(name)
                continue
            R2 = Report(prop, 'quick', R.level, 'self-test')
            try:
                F2, _ = extract(src)
                RUNNERS[prop](F2, R2, 'quick')
                fired = any(not o[2] for o in R2.obligations)
            except ExtractError:
                fired = True  # does not compile any more: trivially not silent
            except Exception:
                # an engine error on the CHANGED tree is that tree's fail-closed verdict (exit 1 there); it says nothing about the
                # unchanged tree and must not leak into this run's result
                fired = True
            # A miss says something about the checker, not about /repo: it is recorded in the evidence (and printed), never
            # turned into a violation of the property on the unchanged tree.
            if fired:
                killed.append(name)
                R.ob('SELF-detects', name, True, 'the check reports a violation on the tree with this behaviour-breaking change applied', None)
            else:
                missed.append(name)
        finally:
            shutil.rmtree(d, ignore_errors=True)
    R.extra['selftest'] = {'changes': len(patches), 'detected': killed, 'skipped_no_longer_apply': skipped,
                           'not_detected_declined_clause': {n: declined[n] for n in missed if n in declined},
                           'not_detected_unexplained': [n for n in missed if n not in declined]}
    print('SELFTEST %s: %d/%d behaviour-breaking changes detected; not detected: %s' % (
        prop, len(killed), len(patches) - len(skipped),
        ', '.join('%s (%s)' % (n, 'declined clause' if n in declined else 'UNEXPLAINED') for n in missed) or 'none'))


def main(argv=None):
    ap = argparse.ArgumentParser()
    ap.add_argument('prop')
    ap.add_argument('--tier', default=os.environ.get('VERIF_TIER', 'quick'), choices=['quick', 'thorough'])
    ap.add_argument('--src', default='/repo')
    ap.add_argument('--replay', default=None)
    args = ap.parse_args(argv)
    load_runners()
    if args.replay:
        print(open(args.replay).read())
        return 0
    if args.prop not in RUNNERS:
        print('unknown / unclaimed property %s' % args.prop)
        return 2
    level, expl = LEVELS[args.prop]
    R = Report(args.prop, args.tier, level, expl)
    seed = int(os.environ.get('VERIF_SEED', '0') or 0)
    try:
        F, info = extract(args.src)
        R.extra['analysed'] = info
        RUNNERS[args.prop](F, R, args.tier)
        if args.tier == 'thorough' and args.src == '/repo':
            try:
                selftest(args.prop, R)
            except Exception:
                # the self-test is informational: its own failure is reported, never counted against the unchanged tree
                print('SELFTEST %s: aborted (%s)' % (args.prop, traceback.format_exc().strip().splitlines()[-1][:160]))
    except ExtractError as e:
        R.violation('EXTRACT', 'facts', 'fact extraction failed (fail closed): %s' % str(e)[-1500:])
    except Exception:
        R.violation('INTERNAL', 'engine', 'engine error (fail closed): %s' % traceback.format_exc()[-2500:])
    return R.finish(seed)


if __name__ == '__main__':
    sys.exit(main())
