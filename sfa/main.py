"""Entry point: ./check <property> [--tier quick|thorough] [--src DIR]"""
import argparse
import os
import sys
import traceback

from .extract import extract, ExtractError
from .report import Report

from .registry import LEVELS, RUNNERS

def load_runners():
    from . import props  # noqa: F401  (registers everything)


def main(argv=None):
    ap = argparse.ArgumentParser()
    ap.add_argument('prop')
    ap.add_argument('--tier', default=os.environ.get('VERIF_TIER', 'quick'), choices=['quick', 'thorough'])
    ap.add_argument('--src', default='/repo')
    ap.add_argument('--replay', default=None)
    args = ap.parse_args(argv)
    load_runners()
    if args.replay:
        print(open(args.replay).read())
        return 0
    if args.prop not in RUNNERS:
        print('unknown / unclaimed property %s' % args.prop)
        return 2
    level, expl = LEVELS[args.prop]
    R = Report(args.prop, args.tier, level, expl)
    seed = int(os.environ.get('VERIF_SEED', '0') or 0)
    try:
        F, info = extract(args.src)
        R.extra['analysed'] = info
        RUNNERS[args.prop](F, R, args.tier)
    except ExtractError as e:
        R.violation('EXTRACT', 'facts', 'fact extraction failed (fail closed): %s' % str(e)[-1500:])
    except Exception:
        R.violation('INTERNAL', 'engine', 'engine error (fail closed): %s' % traceback.format_exc()[-2500:])
    return R.finish(seed)


if __name__ == '__main__':
    sys.exit(main())
