"""Value graph (gated SSA) builder over the structured IR.

`VG.run(fn, ...)` abstractly evaluates one function body *without choosing any input*: every value is a
term over the entry state (`('in', field)`), the function arguments, the inner views' outputs and
literals; joins become `phi` terms gated by the branch condition; loops become `fold` terms over
loop-carried variables; private helpers and concrete inner views are inlined. Alongside the terms an
event log records every potentially panicking / partial operation with its path condition.

This is the common representation consumed by the rule engines (typing, mirror, census, bounds).
Terms are hashable tuples, so structural equality is value numbering.
"""
from .sir import canon, children, walk, pp, loc
from .places import strip, pat_is_some, pat_is_none, callee_name, diverges

# ----------------------------------------------------------------------------------------------
# term constructors


def lit(v, t='f'):
    return ('lit', v, t)


ZERO = lit(0.0)
ONE = lit(1.0)
TRUE = lit(True, 'b')
FALSE = lit(False, 'b')
NONE = ('none',)


def some(t):
    return ('some', t)


def _okey(t, d=3):
    """Cheap deterministic ordering key (literals first); ties are broken by the full rendering."""
    if not isinstance(t, tuple) or not t:
        return '0' + str(t)
    if t[0] == 'lit':
        return '0lit' + str(t[1])
    if d == 0:
        return '1' + str(t[0])
    return '1' + str(t[0]) + '(' + ','.join(_okey(x, d - 1) for x in t[1:]) + ')'


def op(name, *args):
    # floating-point + and * are commutative bit for bit (not associative): operands are stored in a canonical order, and
    # x*x is stored as powi(x, 2) (bit-identical), so that rules matching on terms do not depend on how the source spells them
    if name in ('add', 'mul') and len(args) == 2:
        a, b = args
        if name == 'mul' and a == b and isinstance(a, tuple):
            return ('op', 'powi', (a, ('lit', 2, 'i')))
        ka, kb = _okey(a), _okey(b)
        if kb < ka or (ka == kb and a != b and repr(b) < repr(a)):
            args = (b, a)
    if name == 'isub' and len(args) == 2 and isinstance(args[0], tuple) and args[0][:2] == ('op', 'iadd') and isinstance(args[1], tuple) \
            and args[1][:1] == ('lit',) and args[0][2][1] == args[1]:
        return args[0][2][0]        # (x + k) - k
    if name == 'neg' and len(args) == 1 and isinstance(args[0], tuple) and args[0][:2] == ('op', 'div'):
        # -(a / b) and (-a) / b are the same float, bit for bit: one spelling
        return ('op', 'div', (op('neg', args[0][2][0]), args[0][2][1]))
    if name in ('add', 'sub', 'mul') and len(args) == 2 and all(isinstance(a_, tuple) and a_[:1] == ('lit',) and len(a_) == 3 and a_[2] == 'f'
                                                               and isinstance(a_[1], float) and a_[1] == int(a_[1]) and abs(a_[1]) <= 64 for a_ in args):
        # arithmetic on small integral float literals is exact in every float type (`T::one() + T::one()` is 2.0)
        x_, y_ = args[0][1], args[1][1]
        r_ = {'add': x_ + y_, 'sub': x_ - y_, 'mul': x_ * y_}[name]
        if abs(r_) <= 4096:
            return ('lit', float(r_), 'f')
    # integer identities (exact): n - 0, n + 0, n * 1
    if len(args) == 2 and name in ('iadd', 'isub', 'imul'):
        a, b = args
        unit = 1 if name == 'imul' else 0
        if isinstance(b, tuple) and b[:1] == ('lit',) and len(b) == 3 and b[2] == 'i' and b[1] == unit:
            return a
        if name != 'isub' and isinstance(a, tuple) and a[:1] == ('lit',) and len(a) == 3 and a[2] == 'i' and a[1] == unit:
            return b
    return ('op', name, tuple(args))


def _pat_nodes(p):
    yield p
    for key in ('sub', 'pat'):
        if isinstance(p.get(key), dict):
            yield from _pat_nodes(p[key])
    for sp in p.get('pats', []) or []:
        yield from _pat_nodes(sp)
    for f in p.get('fields', []) or []:
        if isinstance(f, dict) and isinstance(f.get('pat'), dict):
            yield from _pat_nodes(f['pat'])


def unk(tag):
    return ('unk', tag)


def phi(c, a, b):
    if a == b:
        return a
    if c == TRUE:
        return a
    if c == FALSE:
        return b
    if a == TRUE and b == FALSE:
        return c
    if a == FALSE and b == TRUE:
        return neg_cond(c)
    if isinstance(b, tuple) and b and b[0] == 'phi' and isinstance(c, tuple) and c[:1] == ('op',) and c[1] in ('gt', 'ge', 'lt', 'le') and len(c[2]) == 2:
        # in the else-branch of `x > y` the test `x <= y` is redundant (values are finite: every stored value has passed the crate's
        # own finiteness assertion, so a comparison and its complement partition the cases): phi(x>y, A, phi(x<=y && R, B, C))
        comp = ('op', {'gt': 'le', 'ge': 'lt', 'lt': 'ge', 'le': 'gt'}[c[1]], c[2])
        c2 = b[1]
        if c2 == comp:
            return ('phi', c, a, b[2])
        if isinstance(c2, tuple) and c2[:2] == ('op', 'and') and comp in c2[2]:
            rest = tuple(x for x in c2[2] if x != comp)
            nc2 = rest[0] if len(rest) == 1 else ('op', 'and', rest)
            return ('phi', c, a, phi(nc2, b[2], b[3]))
    if isinstance(a, tuple) and isinstance(b, tuple) and a and b and a[0] == 'struct' and b[0] == 'struct' \
            and isinstance(a[2], dict) and isinstance(b[2], dict) and a[2] and set(a[2]) == set(b[2]):
        # a selection between two struct values is the struct of the selections (fields are read one by one)
        return ('struct', a[1], {k: phi(c, a[2][k], b[2][k]) for k in a[2]})
    if isinstance(a, tuple) and isinstance(b, tuple) and a and b and a[0] == 'tuple' and b[0] == 'tuple' and len(a[1]) == len(b[1]):
        return ('tuple', tuple(phi(c, x, y) for x, y in zip(a[1], b[1])))
    return ('phi', c, a, b)


def is_some(o):
    if o[0] == 'some':
        return TRUE
    if o[0] == 'none':
        return FALSE
    if o[0] == 'phi':
        a, b = is_some(o[2]), is_some(o[3])
        if a == b:
            return a
        # one arm is None: presence is the gate condition (and the presence of the other arm)
        if b == FALSE:
            return conj([o[1], a])
        if a == FALSE:
            return conj([neg_cond(o[1]), b])
    return ('is_some', o)


def payload(o):
    if o[0] == 'some':
        return o[1]
    if o[0] == 'childlast':
        return ('child', o[1], o[2])
    if o[0] == 'phi':
        # payload distributes over phi when one side is none
        if o[2][0] == 'none':
            return payload(o[3])
        if o[3][0] == 'none':
            return payload(o[2])
        return phi(o[1], payload(o[2]), payload(o[3]))
    return ('payload', o)


def _is_ref_tree(v):
    if not (isinstance(v, tuple) and v):
        return False
    if v[0] == 'ref':
        return True
    return v[0] == 'phi' and _is_ref_tree(v[2]) and _is_ref_tree(v[3])


def _cplace(v):
    if v[0] == 'ref':
        return v[1]
    return ('cplace', v[1], _cplace(v[2]), _cplace(v[3]))


def opt_eq(a, b):
    """Condition term for `a == b` on Option values (None if neither side exposes its constructor)."""
    if a[0] == 'phi' and a[2][0] in ('some', 'none', 'phi') and a[3][0] in ('some', 'none', 'phi'):
        x, y = opt_eq(a[2], b), opt_eq(a[3], b)
        return None if x is None or y is None else phi(a[1], x, y)
    if b[0] == 'phi' and b[2][0] in ('some', 'none', 'phi') and b[3][0] in ('some', 'none', 'phi'):
        return opt_eq(b, a)
    if a[0] == 'none' and b[0] == 'none':
        return TRUE
    if (a[0] == 'none' and b[0] == 'some') or (a[0] == 'some' and b[0] == 'none'):
        return FALSE
    if a[0] == 'some' and b[0] == 'some':
        x, y = a[1], b[1]
        if x == y and isinstance(x, tuple) and x and x[0] in ('front', 'back', 'get', 'child', 'in'):
            return TRUE     # the same stored value on both sides (values are finite: the crate asserts it on every input)
        for p_, q_ in ((x, y), (y, x)):
            if isinstance(p_, tuple) and p_[:2] == ('op', 'partial_cmp') and isinstance(q_, tuple) and q_ and q_[0] == 'const' \
                    and q_[1].startswith('std::cmp::Ordering::'):
                rel = {'Greater': 'gt', 'Less': 'lt', 'Equal': 'eq'}.get(q_[1].split('::')[-1])
                if rel:
                    return op(rel, p_[2][0], p_[2][1])
        return op('eq', x, y)
    if a[0] == 'none':
        return neg_cond(is_some(b))
    if b[0] == 'none':
        return neg_cond(is_some(a))
    if a[0] == 'some':
        return conj([is_some(b), op('eq', a[1], payload(b))])
    if b[0] == 'some':
        return conj([is_some(a), op('eq', payload(a), b[1])])
    return None


def opt_project(t, f):
    """Option<field f> of an Option<struct> value t (option of struct -> struct of options)."""
    if t[0] == 'none':
        return NONE
    if t[0] == 'some':
        x = t[1]
        if isinstance(x, tuple) and x and x[0] == 'struct' and isinstance(x[2], dict) and f in x[2]:
            return some(x[2][f])
        if isinstance(x, tuple) and x and x[0] == 'tuple' and f.isdigit() and int(f) < len(x[1]):
            return some(x[1][int(f)])
        if isinstance(x, tuple) and x and x[0] == 'phi':
            return phi(x[1], opt_project(some(x[2]), f), opt_project(some(x[3]), f))
        return some(('proj', x, int(f)) if f.isdigit() else ('fieldof', x, f))
    if t[0] == 'phi':
        return phi(t[1], opt_project(t[2], f), opt_project(t[3], f))
    return phi(is_some(t), some(('proj', payload(t), int(f)) if f.isdigit() else ('fieldof', payload(t), f)), NONE)


def neg_cond(c):
    if c == TRUE:
        return FALSE
    if c == FALSE:
        return TRUE
    if c[0] == 'op' and c[1] == 'not':
        return c[2][0]
    return op('not', c)


def conj(conds):
    cs = [c for c in conds if c != TRUE]
    if any(c == FALSE for c in cs):
        return FALSE
    if not cs:
        return TRUE
    if len(cs) == 1:
        return cs[0]
    return op('and', *cs)


BIN = {'Add': 'add', 'Sub': 'sub', 'Mul': 'mul', 'Div': 'div', 'Rem': 'rem', 'And': 'and', 'Or': 'or',
       'Eq': 'eq', 'Ne': 'ne', 'Lt': 'lt', 'Le': 'le', 'Gt': 'gt', 'Ge': 'ge',
       'BitAnd': 'bitand', 'BitOr': 'bitor', 'BitXor': 'bitxor', 'Shl': 'shl', 'Shr': 'shr'}
ASSIGN_BIN = {'AddAssign': 'add', 'SubAssign': 'sub', 'MulAssign': 'mul', 'DivAssign': 'div', 'RemAssign': 'rem'}

FLOAT_FNS = {'exp', 'ln', 'log2', 'log10', 'sqrt', 'cbrt', 'powi', 'powf', 'abs', 'cos', 'sin', 'tan', 'tanh',
             'signum', 'clamp', 'max', 'min', 'is_nan', 'is_finite', 'is_infinite', 'floor', 'ceil', 'round',
             'recip', 'exp2', 'ln_1p', 'exp_m1', 'atan', 'atan2', 'asin', 'acos', 'sinh', 'cosh', 'mul_add',
             'hypot', 'to_degrees', 'to_radians', 'trunc', 'fract', 'is_normal', 'is_sign_negative',
             'is_sign_positive', 'abs_sub', 'copysign'}
def is_int_tyname(ty):
    return ty in ('usize', 'isize', 'u8', 'u16', 'u32', 'u64', 'u128', 'i8', 'i16', 'i32', 'i64', 'i128')


FLOAT_CONSTS = {'zero': 0.0, 'one': 1.0}
FLOAT_SENTINELS = {'max_value', 'min_value', 'infinity', 'neg_infinity', 'nan', 'epsilon', 'min_positive_value', 'neg_zero'}

SEQ_TYPES = ('std::vec::Vec<', 'std::collections::VecDeque<', '[')


def is_seq_ty(ty):
    t = ty
    while t.startswith('&'):
        t = t[1:].lstrip()
        if t.startswith('mut '):
            t = t[4:]
    return t.startswith(SEQ_TYPES)


# ----------------------------------------------------------------------------------------------


class Exit:
    def __init__(self, pc, fields, ret, node, kind):
        self.pc, self.fields, self.ret, self.node, self.kind = pc, fields, ret, node, kind


class Event:
    def __init__(self, kind, pc, data, node, ctx):
        self.kind, self.pc, self.data, self.node, self.ctx = kind, pc, data, node, ctx

    def __repr__(self):
        return 'Event(%s %s @%s)' % (self.kind, self.data, loc(self.node) if self.node else '?')


class Frame:
    def __init__(self, fn, prefix, selfid):
        self.fn = fn
        self.prefix = prefix  # field-path prefix of `self` in this frame ('' or 'welford_online.')
        self.selfid = selfid
        self.locals = {}
        self.exits = []
        self.self_struct = None  # for ctor frames: none


class VG:
    """Evaluator. One instance per top-level analysed function."""

    def __init__(self, facts, view, max_inline_depth=6, use_modes=True):
        self.F = facts
        self.view = view
        self.fields = {}      # field path -> term (current value)
        self.pc = []          # list of condition terms
        self.dead = False
        self.events = []
        self.loops = {}       # loop id -> info
        self.loop_stack = []
        self.nloops = 0
        self.child_epoch = {}
        self.child_fed = {}   # child path -> list of (pc, term) values passed to update
        self.writes = []      # (field path, term, pc, node)
        self.depth = 0
        self.max_depth = max_inline_depth
        self.frames = []
        self.view_by_adt = {v.adt_path: v for v in facts.views}
        self.unknowns = []
        # concrete type knowledge per field-path prefix: adt path and generic-parameter bindings
        self.prefix_adt = {'': view.adt_path if view is not None else None}
        self.prefix_bind = {'': {}}
        # mode selectors: fields every constructor sets to the same unit enum variant and update() never writes
        self.const_fields = mode_fields(facts, view) if (view is not None and use_modes) else {}

    # ------------------------------------------------------------------ helpers
    def event(self, kind, data, node):
        self.events.append(Event(kind, tuple(self.pc), data, node, tuple(self.loop_stack)))

    def note_unknown(self, what, node):
        self.unknowns.append((what, loc(node) if node else '?'))
        return unk(what)

    def get_field(self, path):
        if path not in self.fields and self.oos_names(path):
            names = self.oos_names(path)
            comps = {n_: self.get_field(path + '.' + n_) for n_ in names}
            if all(n_.isdigit() for n_ in names):
                inner_ = ('tuple', tuple(payload(comps[n_]) for n_ in names))       # Option<(A, B)>
            else:
                inner_ = ('struct', 'payload-of:' + path, {n_: payload(comps[n_]) for n_ in names})
            return phi(is_some(comps[names[0]]), some(inner_), NONE)
        if path not in self.fields and self.small_array_len(path) is not None:
            return ('seq_lit', tuple(self.get_field('%s.%d' % (path, i)) for i in range(self.small_array_len(path))))
        if path not in self.fields:
            comps = sorted(k for k in self.fields if k.startswith(path + '.') and k[len(path) + 1:].isdigit())
            if comps and [k[len(path) + 1:] for k in comps] == [str(i) for i in range(len(comps))]:
                # a tuple-typed field whose components have been written individually: the whole is their tuple
                return ('tuple', tuple(self.fields[k] for k in comps))
            if path in self.const_fields:
                return self.const_fields[path]
            if self.small_array_len(path) is not None:
                return ('seq_lit', tuple(self.get_field('%s.%d' % (path, i)) for i in range(self.small_array_len(path))))
            if any(k.startswith(path + '.') for k in self.fields) and self._is_plain_struct_field(path):
                # a struct-typed field read as a whole after some of its fields were written: the struct of its cells
                names, adt = self._struct_field_names(path)
                return ('struct', adt, {n_: self.get_field(path + '.' + n_) for n_ in names})
            self.fields[path] = ('in', path)
        return self.fields[path]

    def _is_plain_struct_field(self, path):
        """path names a field whose type is a struct of this crate that is not a View (a group of state cells)."""
        try:
            ty = self.child_type('', path)
        except Exception:
            ty = None
        if not ty or ty.get('adt') not in self.F.adts or ty.get('adt') in self.view_by_adt:
            return False
        a = self.F.adts[ty['adt']]
        return a.get('kind') == 'Struct' and len(a.get('variants', [])) == 1

    def _struct_field_names(self, path):
        ty = self.child_type('', path)
        return [f['name'] for f in self.F.adts[ty['adt']]['variants'][0]['fields']], ty['adt']

    def set_field(self, path, t, node=None):
        if isinstance(t, tuple) and t and t != ('in', path) and self.oos_names(path):
            for n_ in self.oos_names(path):
                self.set_field(path + '.' + n_, opt_project(t, n_), node)
            self.fields.pop(path, None)
            return
        if '.' not in path[-2:] and self.small_array_len(path) is not None and isinstance(t, tuple) and t:
            k_ = self.small_array_len(path)
            for i in range(k_):
                if t[0] == 'seq_lit' and len(t[1]) == k_:
                    x = t[1][i]
                elif t[0] == 'seq_rep':
                    x = t[1]
                else:
                    x = seq_get(t, lit(i, 'i'))
                self.set_field('%s.%d' % (path, i), x, node)
            self.fields.pop(path, None)
            return
        if isinstance(t, tuple) and t and t[0] == 'tuple':
            # a tuple-typed field written as a whole: its components are the cells `path.0`, `path.1`, ..
            for i, x in enumerate(t[1]):
                self.set_field('%s.%d' % (path, i), x, node)
            self.fields.pop(path, None)
            return
        if isinstance(t, tuple) and t and t[0] == 'struct' and isinstance(t[2], dict) and t[2] and (
                any(k.startswith(path + '.') for k in list(self.fields)) or self._is_plain_struct_field(path)):
            # a struct-typed field written as a whole: its fields are the cells `path.f` (that is how they are read)
            for k_, x in t[2].items():
                self.set_field('%s.%s' % (path, k_), x, node)
            self.fields.pop(path, None)
            return
        if isinstance(t, tuple) and t and t[0] == 'in' and t[1] != path and self._is_plain_struct_field(path):
            # `self.prev = self.cur`: a whole-struct copy from another struct-typed field: cell by cell
            names, _ = self._struct_field_names(path)
            for n_ in names:
                self.set_field(path + '.' + n_, self.get_field(t[1] + '.' + n_), node)
            self.fields.pop(path, None)
            return
        if isinstance(t, tuple) and t and t[0] not in ('struct', 'in', 'tuple') and '.' not in path[-2:] and self._is_plain_struct_field(path):
            # a struct-typed field overwritten with a value that is not a struct literal: its cells are the projections of that
            # value (never the stale cells)
            names, _ = self._struct_field_names(path)
            for n_ in names:
                self.set_field(path + '.' + n_, ('fieldof', t, n_), node)
            self.fields.pop(path, None)
            return
        self.fields[path] = t
        self.writes.append((path, t, tuple(self.pc), node))

    def snapshot(self):
        return (dict(self.fields), dict(self.child_epoch))

    # ------------------------------------------------------------------ entry points
    def run(self, fn, prefix='', args=None, self_fields=None):
        """Evaluate fn as the top-level function. Returns list of Exit."""
        if self_fields is not None:
            self.fields = dict(self_fields)
        fr = self.push_frame(fn, prefix, args)
        ret = self.block_value(fn.body, fr)
        if not self.dead:
            fr.exits.append(Exit(tuple(self.pc), dict(self.fields), ret, fn.body, 'end'))
        self.frames.pop()
        if self.view is not None:
            aos_normalise(self, fr.exits)
        return fr.exits

    def push_frame(self, fn, prefix, args):
        ids = fn.param_ids()
        selfid = ids[0][0] if ids and ids[0][1] == 'self' else None
        fr = Frame(fn, prefix, selfid)
        start = 1 if selfid is not None else 0
        for i, (pid, name, ty) in enumerate(ids[start:]):
            if pid is None:
                # a destructuring parameter `(a, b): (A, B)`: bind its sub-patterns
                pat_ = fn.params[start + i]['pat'] if hasattr(fn, 'params') and start + i < len(fn.params) else None
                if pat_ is not None:
                    if args is not None and i < len(args):
                        self.bind_pat(pat_, args[i], fr)
                    else:
                        for bid, bname in _pat_ids(pat_):
                            fr.locals[bid] = ('arg', bname)
                continue
            if args is not None and i < len(args):
                fr.locals[pid] = args[i]
            else:
                fr.locals[pid] = ('arg', name)
        self.frames.append(fr)
        return fr

    # ------------------------------------------------------------------ places
    def place_of(self, e, fr):
        """Resolve an lvalue / borrowed expression to a place:
        ('field', path) | ('local', id) | ('payload', place) | ('elem', place, idxterm) | None"""
        k = e.get('k')
        if k == 'addr':
            return self.place_of(e['e'], fr)
        if k == 'un' and e.get('op') == 'Deref':
            inner = e['e']
            v = self.value_noderef(inner, fr)
            if isinstance(v, tuple) and v and v[0] == 'ref':
                return v[1]
            if isinstance(v, tuple) and v and v[0] == 'phi' and _is_ref_tree(v):
                return _cplace(v)       # a place chosen by a condition
            return self.place_of(inner, fr)
        if k == 'local':
            if e['id'] == fr.selfid:
                return ('self', fr.prefix)
            v = fr.locals.get(e['id'])
            if isinstance(v, tuple) and v and v[0] == 'ref':
                return v[1]
            return ('local', e['id'])
        if k == 'field':
            b = self.place_of(e['base'], fr)
            if b is None:
                return None
            if b[0] == 'payload' and isinstance(b[1], tuple) and b[1][0] == 'field' and self.oos_names(b[1][1]) and e['name'] in self.oos_names(b[1][1]):
                # a field of the struct inside an Option cell (through `as_mut()` / `get_or_insert_with`): the payload of the
                # component cell `opt.field`
                return ('payload', ('field', b[1][1] + '.' + e['name']))
            if b[0] == 'self':
                return ('field', b[1] + e['name'])
            if b[0] == 'field':
                return ('field', b[1] + '.' + e['name'])
            if b[0] in ('local', 'lfield'):
                # a field of a struct value held in a local (`let mut s = Self { .. }; s.m = ..; s`)
                cur = self.read_place(b)
                if isinstance(cur, tuple) and cur and cur[0] == 'struct' and isinstance(cur[2], dict):
                    return ('lfield', b, e['name'])
            return None
        if k == 'index':
            b = self.place_of(e['base'], fr)
            if b is None:
                return None
            iv = self.value(e['idx'], fr)
            if b[0] == 'field' and isinstance(iv, tuple) and iv[:1] == ('lit',) and isinstance(iv[1], int) and self.small_array_len(b[1]) is not None \
                    and 0 <= iv[1] < self.small_array_len(b[1]):
                # `self.regs[1]` of a small fixed-size array field is the cell `regs.1` (the bounds check of the literal index
                # is recorded once per site)
                seen_ = self.__dict__.setdefault('_arr_idx_seen', set())
                if id(e) not in seen_:
                    seen_.add(id(e))
                    self.event('index', (('seq_rep', ZERO, lit(self.small_array_len(b[1]), 'i')), iv), e)
                return ('field', '%s.%d' % (b[1], iv[1]))
            return ('elem', b, iv)
        return None

    def read_place(self, p):
        k = p[0]
        if k == 'field':
            return self.get_field(p[1])
        if k == 'cplace':
            return phi(p[1], self.read_place(p[2]), self.read_place(p[3]))
        if k == 'flocal':
            return self.frames[p[1]].locals.get(p[2], unk('uninit-local')) if p[1] < len(self.frames) else unk('dangling-local')
        if k == 'lfield':
            cur = self.read_place(p[1])
            if isinstance(cur, tuple) and cur and cur[0] == 'struct' and isinstance(cur[2], dict) and p[2] in cur[2]:
                return cur[2][p[2]]
            return ('fieldof', cur, p[2])
        if k == 'local':
            fr = self.frames[-1]
            return fr.locals.get(p[1], unk('uninit-local'))
        if k == 'payload':
            return payload(self.read_place(p[1]))
        if k == 'elem':
            return ('get', self.read_place(p[1]), p[2])
        if k == 'front':
            return ('front', self.read_place(p[1]))
        if k == 'back':
            return ('back', self.read_place(p[1]))
        if k == 'self':
            return ('selfref', p[1])
        return unk('read-place')

    def write_place(self, p, t, node):
        k = p[0]
        if k == 'field':
            self.set_field(p[1], t, node)
        elif k == 'local':
            self.frames[-1].locals[p[1]] = t
        elif k == 'payload':
            self.write_place(p[1], some(t), node)
        elif k == 'elem':
            self.write_place(p[1], ('set', self.read_place(p[1]), p[2], t), node)
        elif k == 'back':
            self.write_place(p[1], ('set_back', self.read_place(p[1]), t), node)
        elif k == 'front':
            self.write_place(p[1], ('set_front', self.read_place(p[1]), t), node)
        elif k == 'flocal':
            if p[1] + 1 < len(self.frames):
                # a write, from inside an inlined callee, to a local of the caller: it happens under the path condition accumulated
                # since the call (branch merging only covers the current frame's locals)
                since = [c for c in self.pc[getattr(self.frames[p[1] + 1], 'base_pc_len', len(self.pc)):]]
                if any(isinstance(c, tuple) and c and c[0] == 'inloop' for c in since) or self.loop_stack != getattr(self.frames[p[1] + 1], 'base_loops', self.loop_stack):
                    self.note_unknown('write to a caller local from inside a loop of the callee', node)
                old_ = self.frames[p[1]].locals.get(p[2], unk('uninit-local'))
                self.frames[p[1]].locals[p[2]] = phi(conj(since), t, old_) if since else t
            elif p[1] < len(self.frames):
                self.frames[p[1]].locals[p[2]] = t
            else:
                self.note_unknown('write-to-dangling-local', node)
        elif k == 'cplace':
            # a write through a reference chosen by condition c: the chosen place takes the value, the other keeps its own
            from .terms import map_term
            c_ = p[1]
            t_yes = map_term(t, lambda n_: (n_[2] if n_[0] == 'phi' and n_[1] == c_ else n_)) if isinstance(t, tuple) else t
            t_no = map_term(t, lambda n_: (n_[3] if n_[0] == 'phi' and n_[1] == c_ else n_)) if isinstance(t, tuple) else t
            self.write_place(p[2], phi(c_, t_yes, self.read_place(p[2])), node)
            self.write_place(p[3], phi(c_, self.read_place(p[3]), t_no), node)
        elif k == 'lfield':
            cur = self.read_place(p[1])
            if isinstance(cur, tuple) and cur and cur[0] == 'struct' and isinstance(cur[2], dict):
                d2 = dict(cur[2])
                d2[p[2]] = t
                self.write_place(p[1], ('struct', cur[1], d2), node)
            else:
                self.note_unknown('write-to-field-of-opaque-local', node)
        elif k == 'self' and isinstance(t, tuple) and t and t[0] == 'struct' and isinstance(t[2], dict):
            # `*self = Self { .. }` inside a method of a (nested) struct: every field of it is written
            flat = flatten_struct(self.F, t, p[1])
            for path_, x_ in flat.items():
                self.set_field(path_, x_, node)
        else:
            self.note_unknown('write-to-%s' % k, node)

    # ------------------------------------------------------------------ statements / blocks
    def block_value(self, b, fr):
        if b.get('k') != 'block':
            return self.value(b, fr)
        for s in b['stmts']:
            if self.dead:
                return unk('dead')
            self.stmt(s, fr)
        if self.dead:
            return unk('dead')
        if 'expr' in b:
            return self.value_noderef(b['expr'], fr)
        return ('unit',)

    def stmt(self, s, fr):
        k = s['k']
        if k in ('expr', 'semi'):
            self.value(s['e'], fr)
            return
        if k == 'item':
            return
        if k == 'let':
            if 'init' not in s:
                for (bid, name) in _pat_ids(s['pat']):
                    fr.locals[bid] = unk('uninit')
                return
            v = self.value_noderef(s['init'], fr)
            if 'els' in s:
                cond = self.pat_cond(s['pat'], v)
                # else branch
                saved = self.save()
                self.pc.append(neg_cond(cond))
                self.block_value(s['els'], fr)
                if not self.dead:
                    self.note_unknown('let-else falls through', s)
                self.restore(saved)
                self.pc.append(cond)
                self.bind_pat(s['pat'], v, fr)
                return
            self.bind_pat(s['pat'], v, fr)
            return
        raise ValueError('stmt kind %s' % k)

    def save(self):
        return (dict(self.fields), list(self.pc), self.dead, dict(self.frames[-1].locals), dict(self.child_epoch))

    def merge_after_closure(self, saved, cond):
        """The closure ran iff `cond`: every field / captured local it wrote is phi(cond, new, old); bindings created inside
        the closure are dropped."""
        before_f, before_l = saved[0], saved[3]
        after_f = dict(self.fields)
        after_l = dict(self.frames[-1].locals)
        self.restore(saved)
        for k_, t_ in after_f.items():
            b_ = before_f.get(k_, ('in', k_))
            if b_ != t_:
                self.fields[k_] = phi(cond, t_, b_)
        for k_, v_ in before_l.items():
            if k_ in after_l and after_l[k_] != v_:
                self.frames[-1].locals[k_] = phi(cond, after_l[k_], v_)

    def restore_pure(self, saved, node=None):
        """Restore the state saved before a closure was evaluated under a path condition. The closure is expected to be pure
        w.r.t. the view's fields: a write inside it would be lost by the restore, so it is reported (fail closed)."""
        before = saved[0]
        changed = [k for k, t in self.fields.items() if before.get(k, ('in', k)) != t]
        if changed:
            self.unknowns.append(('closure-writes-state:%s' % ','.join(sorted(changed)[:3]), loc(node) if node else '?'))
        # ... and to captured locals (bindings that existed before the closure ran)
        loc_before = saved[3]
        loc_now = self.frames[-1].locals
        if any(k in loc_now and loc_now[k] != v for k, v in loc_before.items()):
            self.unknowns.append(('closure-writes-captured-local', loc(node) if node else '?'))
        self.restore(saved)

    def restore(self, saved):
        self.fields, self.pc, self.dead, loc_, self.child_epoch = dict(saved[0]), list(saved[1]), saved[2], dict(saved[3]), dict(saved[4])
        self.frames[-1].locals = loc_

    # ------------------------------------------------------------------ patterns
    def pat_cond(self, p, v):
        """Condition under which value v matches pattern p."""
        k = p['k']
        if k in ('bind', 'wild'):
            if k == 'bind' and 'sub' in p:
                return self.pat_cond(p['sub'], v)
            return TRUE
        multi = self._multi_payload_pats(p)
        if multi is not None:
            if isinstance(v, tuple) and v and v[0] in ('ref', 'optref'):
                v = self.read_place(v[1])
            pv = payload(v)
            return conj([is_some(v)] + [self.pat_cond(sp, self._field_of_value(pv, fn_)) for fn_, sp in multi])
        inner = pat_is_some(p)
        if inner is not None or pat_is_none(p):
            if isinstance(v, tuple) and v and v[0] in ('ref', 'optref'):
                v = self.read_place(v[1])      # matching `&mut self.opt` / `self.opt.as_mut()` tests the Option behind the reference
        if inner is not None:
            return conj([is_some(v), self.pat_cond(inner, payload(v))])
        if pat_is_none(p):
            return neg_cond(is_some(v))
        if k == 'ptuple':
            cs = []
            for i, sp in enumerate(p['pats']):
                cs.append(self.pat_cond(sp, self.tuple_elem(v, i)))
            return conj(cs)
        if k == 'pref':
            return self.pat_cond(p['pat'], v)
        if k == 'pslice':
            cs = [self.pat_cond(sp, self.seq_elem(v, i)) for i, sp in enumerate(p['pats'])]
            if p.get('rest'):
                # `[a, .., y, z]` matches a slice of at least that many elements; `y`, `z` count from the end
                na = len(p.get('after', []))
                cs.append(op('ge', self.seq_len_term(v), lit(len(p['pats']) + na, 'i')))
                cs += [self.pat_cond(sp, self.seq_elem_end(v, na - j)) for j, sp in enumerate(p.get('after', []))]
            return conj(cs)
        if k == 'pstruct' and not pat_is_some(p) and not pat_is_none(p):
            # a struct pattern matches when every field sub-pattern does (`State { flat: false, .. }` is refutable)
            cs = []
            for f in p.get('fields', []):
                if f['pat'].get('k') in ('bind', 'wild') and 'sub' not in f['pat']:
                    continue
                if isinstance(v, tuple) and v and v[0] == 'struct' and isinstance(v[2], dict) and f['name'] in v[2]:
                    fv = v[2][f['name']]
                elif isinstance(v, tuple) and v and v[0] == 'in':
                    fv = self.get_field(v[1] + '.' + f['name'])
                elif isinstance(v, tuple) and v and v[0] == 'ref' and v[1][0] == 'field':
                    fv = self.get_field(v[1][1] + '.' + f['name'])
                else:
                    fv = ('fieldof', v, f['name'])
                cs.append(self.pat_cond(f['pat'], fv))
            return conj(cs)
        if k == 'ptuplestruct' and isinstance(p.get('path'), dict) and self.F.adts.get(p['path'].get('def'), {}).get('kind') == 'Struct':
            cs = []
            for i, sp in enumerate(p['pats']):
                if sp.get('k') in ('bind', 'wild') and 'sub' not in sp:
                    continue
                if isinstance(v, tuple) and v and v[0] == 'struct' and isinstance(v[2], dict) and str(i) in v[2]:
                    fv = v[2][str(i)]
                elif isinstance(v, tuple) and v and v[0] == 'in':
                    fv = self.get_field(v[1] + '.%d' % i)
                else:
                    fv = ('fieldof', v, str(i))
                cs.append(self.pat_cond(sp, fv))
            return conj(cs)
        if k == 'por':
            alts = [self.pat_cond(x, v) for x in p['pats']]
            if any(a == TRUE for a in alts):
                return TRUE
            alts = [a for a in alts if a != FALSE]
            if not alts:
                return FALSE
            if len(alts) == 2 and all(isinstance(a, tuple) and a[:1] == ('op',) and len(a[2]) == 2 for a in alts) and alts[0][2] == alts[1][2]:
                kinds = {alts[0][1], alts[1][1]}
                if kinds == {'gt', 'eq'}:
                    return op('ge', *alts[0][2])       # `Greater | Equal`
                if kinds == {'lt', 'eq'}:
                    return op('le', *alts[0][2])       # `Less | Equal`
                if kinds == {'lt', 'gt'}:
                    return op('ne', *alts[0][2]) if False else op('or', *alts)
            if len(alts) == 1:
                return alts[0]
            return op('or', *alts)
        if k == 'plit':
            if p.get('lit') == 'int':
                val = int(p['v'])
                return op('eq', v, lit(-val if p.get('negated') else val, 'i'))
            if p.get('lit') == 'bool':
                return v if p['v'] else neg_cond(v)
            if p.get('lit') == 'float':
                val = float(p['v'])
                return op('eq', v, lit(-val if p.get('negated') else val, 'f'))
            return op('eq', v, lit(str(p.get('v')), 'x'))
        if k == 'ppath':
            name = canon(p['path']['def'])
            if name.startswith('std::cmp::Ordering::') and isinstance(v, tuple) and v[0] == 'op' and v[1] == 'partial_cmp':
                a, b = v[2]
                return op({'Greater': 'gt', 'Less': 'lt', 'Equal': 'eq'}[name.split('::')[-1]], a, b)
            if isinstance(v, tuple) and v and v[0] == 'const':
                # the scrutinee is a known unit variant (a mode selector fixed by the constructors)
                if v[1] == name:
                    return TRUE
                if v[1].rsplit('::', 1)[0] == name.rsplit('::', 1)[0]:
                    return FALSE
            return op('eq', v, ('const', name))
        return unk('pattern-cond')

    def _multi_payload_pats(self, p):
        """[(field name, sub-pattern)] if p matches the several-field payload variant of an option-like enum, else None."""
        from .places import OPTION_LIKE_SOME_MULTI
        if p.get('k') in ('pstruct', 'ptuplestruct') and isinstance(p.get('path'), dict) and canon(p['path'].get('def', '')) in OPTION_LIKE_SOME_MULTI:
            if p['k'] == 'pstruct':
                return [(f['name'], f['pat']) for f in p['fields']]
            return [(str(i), sp) for i, sp in enumerate(p['pats'])]
        return None

    def _field_of_value(self, x, f):
        if isinstance(x, tuple) and x:
            if x[0] == 'struct' and isinstance(x[2], dict) and f in x[2]:
                return x[2][f]
            if x[0] == 'phi':
                return phi(x[1], self._field_of_value(x[2], f), self._field_of_value(x[3], f))
        return ('fieldof', x, f)

    def tuple_elem(self, v, i):
        if v[0] == 'tuple' and i < len(v[1]):
            return v[1][i]
        if v[0] == 'ref' and isinstance(v[1], tuple) and v[1] and v[1][0] == 'field':
            # a reference to a tuple-typed field destructured by a pattern: references to its component places
            return ('ref', ('field', v[1][1] + '.%d' % i))
        if v[0] == 'selfref':
            return ('proj', v, i)
        if v[0] == 'in':
            return self.get_field(v[1] + '.%d' % i)
        return ('proj', v, i)

    def bind_pat(self, p, v, fr):
        k = p['k']
        if k == 'bind':
            fr.locals[p['id']] = v
            if 'sub' in p:
                self.bind_pat(p['sub'], v, fr)
            return
        if k == 'wild':
            return
        multi = self._multi_payload_pats(p)
        if multi is not None:
            if isinstance(v, tuple) and v and v[0] in ('ref', 'optref'):
                v = self.read_place(v[1])      # (by-reference bindings into the payload of a multi-field variant are read-only here)
            pv = payload(v)
            for fn_, sp in multi:
                self.bind_pat(sp, self._field_of_value(pv, fn_), fr)
            return
        inner = pat_is_some(p)
        if inner is not None:
            if isinstance(v, tuple) and v and v[0] in ('optref', 'ref'):
                # `Some(x)` matched against a (mutable) reference to an Option place binds x to a reference into its payload
                self.bind_pat(inner, ('ref', ('payload', v[1])), fr)
            else:
                self.bind_pat(inner, payload(v), fr)
            return
        if k == 'ptuple':
            for i, sp in enumerate(p['pats']):
                self.bind_pat(sp, self.tuple_elem(v, i), fr)
            return
        if k == 'pslice':
            for i, sp in enumerate(p['pats']):
                self.bind_pat(sp, self.seq_elem(v, i), fr)
            na = len(p.get('after', []))
            for j, sp in enumerate(p.get('after', [])):
                self.bind_pat(sp, self.seq_elem_end(v, na - j), fr)
            return
        if k == 'pref':
            if isinstance(v, tuple) and v and v[0] == 'ref':
                self.bind_pat(p['pat'], self.read_place(v[1]), fr)
            else:
                self.bind_pat(p['pat'], v, fr)
            return
        if k == 'pstruct':
            for f in p['fields']:
                fv = None
                if isinstance(v, tuple) and v and v[0] == 'selfref':
                    fv = ('ref', ('field', v[1] + f['name']))
                elif isinstance(v, tuple) and v and v[0] == 'ref' and v[1][0] == 'field':
                    fv = ('ref', ('field', v[1][1] + '.' + f['name']))
                elif isinstance(v, tuple) and v and v[0] == 'struct':
                    fv = v[2].get(f['name'])
                if fv is None and isinstance(v, tuple) and v and v[0] == 'in':
                    # the struct-typed field read as a whole: its components are the sub-field cells (which may have been
                    # written individually since entry)
                    fv = self.get_field(v[1] + '.' + f['name'])
                if fv is None:
                    fv = ('fieldof', v, f['name'])
                self.bind_pat(f['pat'], fv, fr)
            return
        if k == 'ptuplestruct' and isinstance(p.get('path'), dict) and self.F.adts.get(p['path'].get('def'), {}).get('kind') == 'Struct':
            # `Coeffs(c1, c2, c3)`: destructuring of a tuple struct of this crate: fields `.0`, `.1`, ..
            for i, sp in enumerate(p['pats']):
                fv = None
                if isinstance(v, tuple) and v and v[0] == 'ref' and v[1][0] == 'field':
                    fv = ('ref', ('field', v[1][1] + '.%d' % i))
                elif isinstance(v, tuple) and v and v[0] == 'struct' and isinstance(v[2], dict):
                    fv = v[2].get(str(i))
                elif isinstance(v, tuple) and v and v[0] == 'in':
                    fv = self.get_field(v[1] + '.%d' % i)
                if fv is None:
                    fv = ('fieldof', v, str(i))
                self.bind_pat(sp, fv, fr)
            return
        if k == 'por' and p.get('pats'):
            # `(x, None) | (None, x)`: every alternative binds the same names; a name's value is that of the first alternative
            # that matches
            per_alt = []
            for alt in p['pats']:
                tmp = Frame(fr.fn, fr.prefix, fr.selfid)
                tmp.locals = dict(fr.locals)
                self.bind_pat(alt, v, tmp)
                per_alt.append((self.pat_cond(alt, v), {bid: tmp.locals.get(bid) for bid, _ in _pat_ids(alt)}))
            ids = [bid for bid, _ in _pat_ids(p['pats'][0])]
            for bid in ids:
                acc = per_alt[-1][1].get(bid, unk('pattern-binding'))
                for cond_, vals_ in reversed(per_alt[:-1]):
                    acc = phi(cond_, vals_.get(bid, unk('pattern-binding')), acc)
                fr.locals[bid] = acc
            return
        for (bid, name) in _pat_ids(p):
            fr.locals[bid] = self.note_unknown('pattern-binding', None)

    # ------------------------------------------------------------------ expressions
    def value(self, e, fr):
        """Value of an expression with references dereferenced to the value they point at
        (sufficient for Copy floats/ints)."""
        v = self.value_noderef(e, fr)
        return self.deref(v)

    def deref(self, v):
        if isinstance(v, tuple) and v and v[0] == 'ref':
            return self.read_place(v[1])
        if isinstance(v, tuple) and v and v[0] == 'phi' and _is_ref_tree(v):
            # a reference chosen by a condition (`if c { &mut self.a } else { &mut self.b }`): the chosen place's value
            return phi(v[1], self.deref(v[2]), self.deref(v[3]))
        return v

    def value_noderef(self, e, fr):
        if self.dead:
            return unk('dead')
        k = e.get('k')
        m = getattr(self, 'v_' + k, None)
        if m is None:
            return self.note_unknown('expr-kind-' + str(k), e)
        return m(e, fr)

    const_depth = 0

    def crate_consts(self):
        c = getattr(self.F, '_const_bodies', None)
        if c is None:
            c = {}
            for it in self.F.raw.get('consts', []):
                c[it['def']] = it['body']
                c[canon(it['def'])] = it['body']
            self.F._const_bodies = c
        return c

    def v_lit(self, e, fr):
        if e['lit'] == 'int':
            return lit(int(e['v']), 'i')
        if e['lit'] == 'float':
            return lit(float(e['v']), 'f')
        if e['lit'] == 'bool':
            return lit(bool(e['v']), 'b')
        return lit(e['v'], 's')

    def v_local(self, e, fr):
        if e['id'] == fr.selfid:
            return ('selfref', fr.prefix)
        v = fr.locals.get(e['id'])
        if v is None:
            return self.note_unknown('unbound-local-' + e.get('name', '?'), e)
        return v

    def v_path(self, e, fr):
        name = canon(e['def'])
        if name == 'None':
            return NONE
        c = e.get('callee')
        short = name.split('::')[-1]
        if e.get('defkind', '').startswith('AssocConst') or e.get('defkind', '').startswith('Const'):
            # a constant of this crate: fold its value expression (literals, arithmetic on literals, other constants)
            body = self.crate_consts().get(e['def']) or self.crate_consts().get(name)
            if body is not None and self.const_depth < 4:
                self.const_depth += 1
                try:
                    nu = len(self.unknowns)
                    v_ = self.value(body, Frame(None, '', None))
                    if len(self.unknowns) == nu and isinstance(v_, tuple) and v_ and v_[0] == 'lit':
                        return v_
                    del self.unknowns[nu:]
                except Exception:
                    pass
                finally:
                    self.const_depth -= 1
            return ('const', name)
        if name in ('std::cmp::Ordering::Equal', 'std::cmp::Ordering::Greater', 'std::cmp::Ordering::Less'):
            return ('const', name)
        if short in FLOAT_CONSTS and name.startswith(('num::', 'num_traits::')) and name.split('::')[-2] in ('Zero', 'One', 'Float', 'identities'):
            # `T::zero` / `T::one` passed as a function value (`unwrap_or_else(T::zero)`): the closure `|| 0.0` / `|| 1.0`
            node = {'k': 'closure', 'params': [], 'body': {'k': 'lit', 'lit': 'float', 'v': str(FLOAT_CONSTS[short]), 'ty': e.get('ty', ''), 'sp': e.get('sp')}, 'sp': e.get('sp')}
            return ('closure', id(e), node)
        tgt = self.F.fn_by_def.get(e['def']) if e.get('callee', {}).get('krate') == self.F.raw['crate'] else None
        if tgt is not None and e.get('defkind', '').startswith(('Fn', 'AssocFn')):
            # a function of this crate passed as a value (`max_by(cmp_or_equal)`): the closure `|p0, ..| f(p0, ..)`
            ids = tgt.param_ids()
            if not (ids and ids[0][1] == 'self'):
                params = [{'k': 'bind', 'id': 'fnval%d_%d' % (id(e) % 100000, i), 'name': 'p%d' % i} for i in range(len(ids))]
                call = {'k': 'call', 'callee': e['callee'], 'args': [{'k': 'local', 'id': p_['id'], 'name': p_['name'], 'ty': ''} for p_ in params],
                        'ty': '', 'sp': e.get('sp')}
                return ('closure', id(e), {'k': 'closure', 'params': params, 'body': call, 'sp': e.get('sp')})
        if e.get('defkind') == 'Ctor(Variant, Const)' and e.get('callee', {}).get('krate') == self.F.raw['crate']:
            from .places import OPTION_LIKE_NONE
            if name in OPTION_LIKE_NONE:
                return NONE             # the unit variant of an option-like enum
            return ('const', name)      # a unit variant of an enum of this crate
        return ('fnref', name)

    def v_field(self, e, fr):
        p = self.place_of(e, fr)
        if p is not None:
            return self.read_place(p)
        b = self.value(e['base'], fr)
        if b[0] == 'struct':
            return b[2].get(e['name'], unk('no-field'))
        if b[0] == 'tuple' and e['name'].isdigit():
            return self.tuple_elem(b, int(e['name']))
        if b[0] == 'in':
            return self.get_field(b[1] + '.' + e['name'])
        return ('fieldof', b, e['name'])

    def v_addr(self, e, fr):
        p = self.place_of(e['e'], fr)
        if p is not None and p[0] in ('field', 'payload', 'elem', 'self'):
            if p[0] == 'self':
                return ('selfref', p[1])
            return ('ref', p)
        if p is not None and p[0] in ('local', 'lfield') and e.get('mut'):
            # `&mut x` of a local: a reference to that local (writes through it -- also by an inlined callee -- reach it)
            return ('ref', p)
        return self.value_noderef(e['e'], fr)

    def v_un(self, e, fr):
        o = e['op']
        if o == 'Deref':
            v = self.value_noderef(e['e'], fr)
            return self.deref(v)
        v = self.value(e['e'], fr)
        if o == 'Not':
            return neg_cond(v)
        if o == 'Neg':
            if v[0] == 'lit' and isinstance(v[1], (int, float)):
                return lit(-v[1], v[2])
            return op('neg', v)
        return self.note_unknown('unop-' + o, e)

    def v_bin(self, e, fr):
        o = BIN.get(e['op'])
        if o is None:
            return self.note_unknown('binop-' + e['op'], e)
        lty = e['l'].get('ty', '')
        if o in ('and', 'or'):
            l = self.value(e['l'], fr)
            # short-circuit: evaluate r under the refined pc (events inside r are conditional)
            self.pc.append(l if o == 'and' else neg_cond(l))
            fields_before = dict(self.fields)
            r = self.value(e['r'], fr)
            self.pc.pop()
            cond_r = l if o == 'and' else neg_cond(l)
            for k_, t_ in list(self.fields.items()):
                b_ = fields_before.get(k_, ('in', k_))
                if b_ != t_:
                    # a side effect of the right operand happens only when it is evaluated
                    self.fields[k_] = phi(cond_r, t_, b_)
            return op(o, l, r)
        l = self.value(e['l'], fr)
        r = self.value(e['r'], fr)
        if o in ('eq', 'ne') and any(isinstance(z, tuple) and z and z[0] in ('some', 'none') or
                                     (isinstance(z, tuple) and z and z[0] == 'phi' and z[2][0] in ('some', 'none') and z[3][0] in ('some', 'none'))
                                     for z in (l, r)):
            # equality of two Option values, decided constructor by constructor
            c_ = opt_eq(l, r)
            if c_ is not None:
                return c_ if o == 'eq' else neg_cond(c_)
        if o in ('eq', 'ne'):
            # `a.partial_cmp(&b).unwrap() == Ordering::Greater` (or `!=`): the comparison itself
            for x_, y_ in ((l, r), (r, l)):
                if isinstance(x_, tuple) and x_[:2] == ('op', 'partial_cmp') and isinstance(y_, tuple) and y_ and y_[0] == 'const' \
                        and y_[1].startswith('std::cmp::Ordering::'):
                    rel = {'Greater': 'gt', 'Less': 'lt', 'Equal': 'eq'}.get(y_[1].split('::')[-1])
                    if rel:
                        c_ = op(rel, x_[2][0], x_[2][1])
                        return c_ if o == 'eq' else neg_cond(c_)
        if is_int_tyname(lty):
            if o in ('sub', 'add', 'mul', 'div', 'rem'):
                self.event('int_' + o, (l, r, lty), e)
            if l[0] == 'lit' and r[0] == 'lit' and o in ('add', 'sub', 'mul') and isinstance(l[1], int) and isinstance(r[1], int):
                return lit({'add': l[1] + r[1], 'sub': l[1] - r[1], 'mul': l[1] * r[1]}[o], 'i')
            return op('i' + o if o in ('add', 'sub', 'mul', 'div', 'rem') else o, l, r)
        if o in ('div', 'rem'):
            self.event('fdiv', (l, r), e)
        return op(o, l, r)

    def v_assign(self, e, fr):
        v = self.value_noderef(e['r'], fr)
        p = self.place_of(e['l'], fr)
        if p is not None and p[0] == 'elem':
            self.event('index', (self.read_place(p[1]), p[2]), e['l'])
        if p is None:
            self.note_unknown('assign-target', e)
            return ('unit',)
        if not (isinstance(v, tuple) and v and v[0] in ('ref', 'optref')):
            pass
        else:
            v = self.deref(v) if v[0] == 'ref' else v
        self.write_place(p, v, e)
        return ('unit',)

    def v_assignop(self, e, fr):
        o = ASSIGN_BIN.get(e['op'])
        p = self.place_of(e['l'], fr)
        if p is not None and p[0] == 'elem':
            self.event('index', (self.read_place(p[1]), p[2]), e['l'])
        r = self.value(e['r'], fr)
        if p is None or o is None:
            self.note_unknown('assignop', e)
            return ('unit',)
        cur = self.read_place(p)
        lty = e['l'].get('ty', '')
        if is_int_tyname(lty):
            if o in ('add', 'sub') and isinstance(r, tuple) and r and r[0] == 'phi' and r[2][0] == 'lit' and r[3][0] == 'lit':
                # x op= (c ? a : b) with literal a, b  ==  if c { x op= a } else { x op= b }
                arms = []
                for cond_, k_ in ((r[1], r[2]), (neg_cond(r[1]), r[3])):
                    if k_[1] == 0:
                        arms.append(cur)
                    else:
                        self.pc.append(cond_)
                        self.event('int_' + o, (cur, k_, lty), e)
                        self.pc.pop()
                        arms.append(op('i' + o, cur, k_))
                self.write_place(p, phi(r[1], arms[0], arms[1]), e)
                return ('unit',)
            self.event('int_' + o, (cur, r, lty), e)
            self.write_place(p, op('i' + o, cur, r), e)
        else:
            if o in ('div', 'rem'):
                self.event('fdiv', (cur, r), e)
            self.write_place(p, op(o, cur, r), e)
        return ('unit',)

    def v_index(self, e, fr):
        b = self.value(e['base'], fr)
        i = self.value(e['idx'], fr)
        if isinstance(i, tuple) and i and i[0] == 'range':
            # `x[a..b]`: the slice obligation a <= b <= len, not an element access
            hi = i[2] if i[2] is not None else ('len', b)
            self.event('slice', (b, i[1], _iadd(hi, lit(1, 'i')) if i[3] else hi), e)
        else:
            self.event('index', (b, i), e)
        return seq_get(b, i)

    def seq_elem(self, v, i):
        """i-th element of an array value (literal arrays project directly)."""
        if isinstance(v, tuple) and v and v[0] == 'ref':
            v = self.read_place(v[1])
        if isinstance(v, tuple) and v and v[0] == 'seq_lit' and i < len(v[1]):
            return v[1][i]
        if isinstance(v, tuple) and v and v[0] == 'seq_rep':
            return v[1]
        if isinstance(v, tuple) and v and v[0] == 'phi':
            return phi(v[1], self.seq_elem(v[2], i), self.seq_elem(v[3], i))
        return ('get', v, lit(i, 'i'))

    def _slice_parts(self, v):
        """(base sequence, lo, hi) of a slice value `base[lo..hi]`, or (v, 0, len v) for a whole sequence."""
        if isinstance(v, tuple) and v and v[0] == 'ref':
            v = self.read_place(v[1])
        if isinstance(v, tuple) and v and v[0] == 'get' and isinstance(v[2], tuple) and v[2] and v[2][0] == 'range':
            r = v[2]
            hi = r[2] if r[2] is not None else ('len', v[1])
            if r[3]:
                hi = _iadd(hi, lit(1, 'i'))
            return v[1], r[1], hi
        if isinstance(v, tuple) and v and v[0] == 'seq_lit':
            return v, lit(0, 'i'), lit(len(v[1]), 'i')
        return v, lit(0, 'i'), ('len', v)

    def seq_len_term(self, v):
        base, lo, hi = self._slice_parts(v)
        return _isub(hi, lo)

    def seq_elem_end(self, v, k):
        """k-th element from the end (k = 1 is the last one) of a sequence or slice value."""
        base, lo, hi = self._slice_parts(v)
        if isinstance(base, tuple) and base and base[0] == 'seq_lit' and hi == lit(len(base[1]), 'i') and k <= len(base[1]):
            return base[1][len(base[1]) - k]
        return ('get', base, _isub(hi, lit(k, 'i')))

    def v_repeat(self, e, fr):
        # [x; N]: a fixed-size array with N copies (N is part of the type)
        import re as _re
        mt = _re.search(r';\s*(\d+)\]$', str(e.get('ty', '')))
        x = self.value(e['e'], fr)
        if not mt:
            return self.note_unknown('repeat-length', e)
        return ('seq_rep', x, lit(int(mt.group(1)), 'i'))

    def v_tuple(self, e, fr):
        return ('tuple', tuple(self.value_noderef(x, fr) for x in e['es']))

    def v_array(self, e, fr):
        return ('seq_lit', tuple(self.value_noderef(x, fr) for x in e['es']))

    def v_cast(self, e, fr):
        return op('cast:' + e.get('ty', '?'), self.value(e['e'], fr))

    def v_block(self, e, fr):
        return self.block_value(e, fr)

    def v_massert(self, e, fr):
        if e['name'] == 'panic':
            # an explicit panic!/unreachable!/todo!/unimplemented! is a panic edge: the event carries the path condition,
            # and the consumer (E3) must show that path infeasible
            self.event('panic', (e.get('macro', 'panic'),), e)
            self.dead = True
            return unk('panic')
        if e.get('debug'):
            # a debug assertion is compiled out of release builds: its arguments must not have effects, or the two profiles
            # behave differently (the facts are extracted from the dev profile, where the effect is visible)
            f_before = dict(self.fields)
            l_before = dict(fr.locals)
            args = [self.value(a, fr) for a in e['args']]
            if any(f_before.get(k_, ('in', k_)) != t_ for k_, t_ in self.fields.items()) or \
                    any(k_ in fr.locals and fr.locals[k_] != v_ for k_, v_ in l_before.items()):
                self.note_unknown('side effect inside debug_assert! (compiled out of release builds)', e)
        else:
            args = [self.value(a, fr) for a in e['args']]
        self.event('assert' if not e['debug'] else 'debug_assert', (e['name'], tuple(args)), e)
        if e['name'] == 'assert' and not e['debug'] and args:
            # a hard assert constrains the continuation (constructor preconditions)
            self.pc.append(args[0])
        elif e['name'] == 'assert_ne' and not e['debug'] and len(args) == 2:
            self.pc.append(op('ne', args[0], args[1]))
        return ('unit',)

    def v_struct(self, e, fr):
        name = canon(e['path']['def'])
        if name in ('std::ops::Range', 'std::ops::RangeInclusive'):
            f = {x['name']: self.value(x['e'], fr) for x in e['fields']}
            return ('range', f.get('start', lit(0, 'i')), f.get('end', unk('end')), name.endswith('Inclusive'))
        if name == 'std::ops::RangeFrom':
            f = {x['name']: self.value(x['e'], fr) for x in e['fields']}
            return ('range', f.get('start', lit(0, 'i')), None, False)      # unbounded above
        if name in ('std::ops::RangeTo', 'std::ops::RangeToInclusive'):
            f = {x['name']: self.value(x['e'], fr) for x in e['fields']}
            return ('range', lit(0, 'i'), f.get('end', unk('end')), name.endswith('Inclusive'))
        fs = {}
        if 'base' in e:
            # `Self { a, ..base }`: the remaining fields come from the base value
            bv = self.value_noderef(e['base'], fr)
            if isinstance(bv, tuple) and bv and bv[0] == 'ref':
                bv = self.deref(bv)
            if isinstance(bv, tuple) and bv and bv[0] == 'struct' and isinstance(bv[2], dict):
                fs.update(bv[2])
            else:
                self.note_unknown('struct-update-base', e)
        for x in e['fields']:
            fs[x['name']] = self.value_noderef(x['e'], fr)
        from .places import OPTION_LIKE_SOME_MULTI, OPTION_LIKE_SOME
        if name in OPTION_LIKE_SOME_MULTI:
            return some(('struct', name, {k_: self.deref(v_) if isinstance(v_, tuple) and v_ and v_[0] == 'ref' else v_ for k_, v_ in fs.items()}))
        if name in OPTION_LIKE_SOME and len(fs) == 1:
            v_ = list(fs.values())[0]
            return some(self.deref(v_) if isinstance(v_, tuple) and v_ and v_[0] == 'ref' else v_)
        return ('struct', name, fs)

    def v_ctor(self, e, fr):
        name = callee_name(e)
        args = [self.value_noderef(a, fr) for a in e['args']]
        if name == 'Some':
            a = args[0]
            if isinstance(a, tuple) and a and a[0] == 'ref':
                a = self.deref(a)
            return some(a)
        from .places import OPTION_LIKE_SOME, OPTION_LIKE_SOME_MULTI
        if name in OPTION_LIKE_SOME_MULTI:
            return some(('struct', name, {str(i): (self.deref(a) if isinstance(a, tuple) and a and a[0] == 'ref' else a) for i, a in enumerate(args)}))
        if name in OPTION_LIKE_SOME and len(args) == 1:
            a = args[0]
            if isinstance(a, tuple) and a and a[0] == 'ref':
                a = self.deref(a)
            return some(a)              # the payload variant of an option-like enum
        cal = e.get('callee') or {}
        if not cal and (e.get('fexpr') or {}).get('defkind') == 'SelfCtor':
            # `Self(a, b)` inside an impl of a tuple struct of this crate
            sadt = getattr(fr.fn, 'adt', None) if fr.fn is not None else None
            if sadt in self.F.adts and self.F.adts[sadt].get('kind') == 'Struct':
                return ('struct', sadt, {str(i): a for i, a in enumerate(args)})
        adt = self.F.adts.get(cal.get('def'))
        if adt is not None and adt.get('kind') == 'Struct' and cal.get('krate') == self.F.raw['crate']:
            # a tuple struct of this crate: its fields are `.0`, `.1`, .. (references stay references: a borrowing newtype)
            return ('struct', cal['def'], {str(i): a for i, a in enumerate(args)})
        return ('ctor', name, tuple(self.deref(a) for a in args))

    def v_closure(self, e, fr):
        return ('closure', id(e), e)

    def v_ret(self, e, fr):
        v = self.value(e['e'], fr) if 'e' in e else ('unit',)
        if self.loop_stack:
            self.note_unknown('return-inside-loop', e)
        fr.exits.append(Exit(tuple(self.pc), dict(self.fields), v, e, 'return'))
        self.dead = True
        return unk('dead')

    def v_break(self, e, fr):
        self.note_unknown('break', e)
        self.dead = True
        return unk('dead')

    def v_continue(self, e, fr):
        self.note_unknown('continue', e)
        self.dead = True
        return unk('dead')

    def v_try(self, e, fr):
        v = self.value(e['e'], fr)
        cond = is_some(v)
        saved = self.save()
        self.pc.append(neg_cond(cond))
        fr.exits.append(Exit(tuple(self.pc), dict(self.fields), NONE, e, 'try'))
        self.restore(saved)
        self.pc.append(cond)
        return payload(v)

    def v_letexpr(self, e, fr):
        v = self.value_noderef(e['init'], fr)
        c = self.pat_cond(e['pat'], self.deref(v) if v and v[0] == 'ref' else v)
        self._pending_let = (e['pat'], v)
        return c

    def v_if(self, e, fr):
        cond_node = e['cond']
        pending = None
        if cond_node.get('k') == 'letexpr':
            v = self.value_noderef(cond_node['init'], fr)
            vv = v
            c = self.pat_cond(cond_node['pat'], self.deref(v) if isinstance(v, tuple) and v and v[0] == 'ref' else (v if not (isinstance(v, tuple) and v and v[0] == 'optref') else self.read_place(v[1])))
            pending = (cond_node['pat'], vv)
        else:
            c = self.value(cond_node, fr)
        if self.dead:
            return unk('dead')
        base = self.save()
        # then
        self.pc.append(c)
        if pending:
            self.bind_pat(pending[0], pending[1], fr)
        tv = self.block_value(e['then'], fr)
        t_state = self.save()
        # else
        self.restore(base)
        self.pc.append(neg_cond(c))
        ev = ('unit',)
        if 'else' in e:
            ev = self.block_value(e['else'], fr)
        e_state = self.save()
        return self.merge(c, base, t_state, tv, e_state, ev)

    def merge(self, c, base, t_state, tv, e_state, ev):
        t_dead, e_dead = t_state[2], e_state[2]
        if t_dead and e_dead:
            self.restore(base)
            self.dead = True
            return unk('dead')
        if t_dead:
            self.restore(e_state)
            # path condition keeps ¬c (the other side left)
            return ev
        if e_dead:
            self.restore(t_state)
            return tv
        # both alive: join
        self.restore(base)
        tf, ef = t_state[0], e_state[0]
        for key in set(tf) | set(ef):
            a = tf.get(key, ('in', key))
            b = ef.get(key, ('in', key))
            self.fields[key] = phi(c, a, b)
        tl, el = t_state[3], e_state[3]
        locs = self.frames[-1].locals
        for key in set(tl) | set(el):
            if key in tl and key in el:
                locs[key] = phi(c, tl[key], el[key])
            elif key in base[3]:
                locs[key] = base[3][key]
        te, ee = t_state[4], e_state[4]
        for key in set(te) | set(ee):
            self.child_epoch[key] = max(te.get(key, 0), ee.get(key, 0))
        if tv == ('unit',) and ev == ('unit',):
            return ('unit',)
        return phi(c, tv, ev)

    def v_match(self, e, fr):
        sv = self.value_noderef(e['scrut'], fr)
        svd = sv
        if isinstance(sv, tuple) and sv and sv[0] == 'ref':
            svd = self.deref(sv)
        if self.dead:
            return unk('dead')
        base = self.save()
        results = []  # (cond, state, value)
        prior = []
        arms = e['arms']
        for i, a in enumerate(arms):
            self.restore(base)
            c = self.pat_cond(a['pat'], svd)
            full = conj([neg_cond(p) for p in prior] + [c]) if i < len(arms) - 1 or c != TRUE else conj([neg_cond(p) for p in prior])
            self.pc.append(conj([neg_cond(p) for p in prior] + [c]))
            self.bind_pat(a['pat'], sv if a['pat']['k'] != 'ptuple' else svd, fr)
            if 'guard' in a:
                g = self.value(a['guard'], fr)
                self.pc.append(g)
                c = conj([c, g])
            v = self.block_value(a['body'], fr)
            results.append((c, self.save(), v))
            prior.append(c)
        # fold from the last arm backwards
        acc_state, acc_val = results[-1][1], results[-1][2]
        for (c, st, v) in reversed(results[:-1]):
            val = self.merge(c, base, st, v, acc_state, acc_val)
            acc_state, acc_val = self.save(), val
        self.restore(acc_state)
        return acc_val

    # ------------------------------------------------------------------ loops
    def v_loop(self, e, fr):
        # `while C { B }` (no break/continue/return inside B) is modelled as a single guarded iteration plus the residual
        # obligation `C is false afterwards` (event 'while-once'): when the consumer proves the obligation from the class
        # invariant the model is exact -- the common "evict until there is room" idiom runs at most once.
        body = e.get('body', {})
        if e.get('src') == 'While' and body.get('k') == 'block' and not body.get('stmts') and body.get('expr', {}).get('k') == 'if':
            iff = body['expr']
            els = iff.get('else')
            then = iff.get('then')
            only_break = (els is not None and els.get('k') == 'block' and 'expr' not in els and len(els.get('stmts', [])) == 1
                          and strip(els['stmts'][0].get('e', {})).get('k') == 'break')
            clean = then is not None and not any(n.get('k') in ('break', 'continue', 'ret', 'try', 'loop', 'for') for n in walk(then))
            if only_break and clean and iff['cond'].get('k') == 'letexpr':
                # `while let Some(pat) = it.next() { body }` over an iterator held in a local is `for pat in it { body }`
                c_ = iff['cond']
                inner_pat = pat_is_some(c_['pat'])
                init_ = strip(c_['init'])
                if inner_pat is not None and init_.get('k') == 'call' and init_.get('method') == 'next' and len(init_.get('args', [])) == 1 \
                        and strip(init_['args'][0]).get('k') == 'local':
                    itv = fr.locals.get(strip(init_['args'][0])['id'])
                    if isinstance(itv, tuple) and itv and itv[0] in ('iter', 'range', 'enumerate', 'take', 'skip', 'rev', 'copied', 'zip', 'iter_mut'):
                        forn = {'k': 'for', 'pat': inner_pat, 'iter': init_['args'][0], 'body': then, 'ty': '()', 'sp': e.get('sp')}
                        return self.v_for(forn, fr)
            counted = self._counted_while(iff, then, fr) if only_break and iff['cond'].get('k') != 'letexpr' else None
            if counted is not None:
                return counted
            if only_break and clean and iff['cond'].get('k') != 'letexpr':
                once = {'k': 'if', 'cond': iff['cond'], 'then': then, 'ty': '()', 'sp': e.get('sp')}
                self.value(once, fr)
                if not self.dead:
                    c2 = self.value(iff['cond'], fr)
                    self.event('while-once', (c2,), e)
                return ('unit',)
        if e.get('src') == 'Loop':
            r = self._counted_loop_letelse(e, fr)
            if r is not None:
                return r
        self.note_unknown('bare-loop', e)
        for (path) in self._assigned_fields(e['body'], fr):
            self.fields[path] = unk('loop-carried')
        return ('unit',)

    def _counted_while(self, iff, then, fr):
        """`while i < N { body; i += 1; }` with i a local changed nowhere else, N not changed by the body, and no
        break/continue/return inside is `for i in i0..N { body }` followed by `i = max(i0, N)`; None if the shape differs."""
        c = strip(iff['cond'])
        if c.get('k') != 'bin' or c.get('op') not in ('Lt', 'Le', 'Gt', 'Ge'):
            return None
        l_, r_ = strip(c['l']), strip(c['r'])
        o_ = c['op']
        if o_ in ('Gt', 'Ge'):
            l_, r_, o_ = r_, l_, {'Gt': 'Lt', 'Ge': 'Le'}[o_]
        if o_ == 'Lt' and l_.get('k') == 'lit' and str(l_.get('v')) == '0' and r_.get('k') == 'local' and is_int_tyname(r_.get('ty', '')):
            # `while i > 0 { i -= 1; body }`: a count-down over i0-1, .., 0
            return self._countdown_while(r_['id'], then, fr, iff)
        if l_.get('k') != 'local' or not is_int_tyname(l_.get('ty', '')):
            return None
        return self._counted_core(l_['id'], then, r_, lambda: self.value(r_, fr), o_ == 'Le', fr, iff)

    def _countdown_while(self, iid, then, fr, node):
        if then.get('k') != 'block' or 'expr' in then or len(then.get('stmts', [])) < 1:
            return None
        first = strip(then['stmts'][0].get('e', {})) if then['stmts'][0].get('k') != 'let' else {}
        if first.get('k') != 'assignop' or first.get('op') != 'SubAssign':
            return None
        tl, tr = strip(first['l']), strip(first['r'])
        if tl.get('k') != 'local' or tl['id'] != iid or tr.get('k') != 'lit' or str(tr.get('v')) != '1':
            return None
        rest = dict(then)
        rest['stmts'] = then['stmts'][1:]
        if any(n.get('k') in ('break', 'continue', 'ret', 'try', 'loop', 'closure') for n in walk(rest)):
            return None
        for n in walk(rest):
            if n.get('k') in ('assign', 'assignop'):
                t0 = strip(n['l'])
                if t0.get('k') == 'local' and t0['id'] == iid:
                    return None
            if n.get('k') == 'addr' and n.get('mut') and any(x.get('k') == 'local' and x.get('id') == iid for x in walk(n)):
                return None
        i0 = fr.locals.get(iid)
        if i0 is None:
            return None
        # at the top of each iteration the counter holds i0, i0-1, .., 1; the decrement stays in the body (its underflow
        # obligation is judged under the loop hypotheses)
        forn = {'k': 'for', 'pat': {'k': 'bind', 'id': iid}, 'iter': node, 'body': then, 'ty': '()', 'sp': node.get('sp')}
        L_ = 'L%d' % (self.nloops + 1)
        self.v_for(forn, fr, it=('rev', ('range', lit(1, 'i'), _iadd(i0, lit(1, 'i')), False)))
        if L_ in self.loops:
            self.loops[L_]['carried'].pop(('local', iid), None)
        fr.locals[iid] = lit(0, 'i')
        return ('unit',)

    def _counted_loop_letelse(self, e, fr):
        """`loop { let Some(p) = S.get(i) else { break V }; body; i += 1; }` is `for i in i0..S.len() { let Some(p) = S.get(i); body }`
        followed by V (evaluated after the loop, with i = max(i0, len)); None if the shape differs."""
        body = e.get('body', {})
        if body.get('k') != 'block' or 'expr' in body or len(body.get('stmts', [])) < 2:
            return None
        first = body['stmts'][0]
        if first.get('k') != 'let' or 'els' not in first or 'init' not in first or pat_is_some(first['pat']) is None:
            return None
        if any(n.get('k') not in ('bind', 'wild', 'pref', 'ptuple') for n in _pat_nodes(pat_is_some(first['pat']))):
            return None         # a refutable inner pattern could leave the loop early
        els = first['els']
        brk = None
        if els.get('k') == 'block' and not els.get('stmts') and 'expr' in els:
            brk = strip(els['expr'])
        elif els.get('k') == 'block' and 'expr' not in els and len(els.get('stmts', [])) == 1 and els['stmts'][0].get('k') in ('expr', 'semi'):
            brk = strip(els['stmts'][0]['e'])
        if brk is None or brk.get('k') != 'break':
            return None
        init = strip(first['init'])
        if init.get('k') != 'call' or init.get('method') != 'get' or len(init.get('args', [])) != 2:
            return None
        seq_n, idx_n = init['args'][0], strip(init['args'][1])
        if idx_n.get('k') != 'local' or not is_int_tyname(idx_n.get('ty', '')):
            return None
        if any(n.get('k') == 'break' for n in walk(brk.get('e', {}))):
            return None

        def hi_fn():
            v0 = self.value(init, fr)
            if isinstance(v0, tuple) and v0 and v0[0] == 'phi' and v0[1][0] == 'op' and v0[1][1] == 'lt' \
                    and isinstance(v0[1][2][1], tuple) and v0[1][2][1][0] == 'len' and v0[3] == NONE:
                return v0[1][2][1]
            return None
        then = dict(body)
        plain_let = {k_: v_ for k_, v_ in first.items() if k_ != 'els'}
        then['stmts'] = [plain_let] + body['stmts'][1:]
        r = self._counted_core(idx_n['id'], then, seq_n, hi_fn, False, fr, e)
        if r is None:
            return None
        if 'e' in brk:
            return self.value_noderef(brk['e'], fr)
        return ('unit',)

    def _counted_core(self, iid, then, inv_node, hi_fn, incl, fr, node):
        if then.get('k') != 'block' or 'expr' in then or not then.get('stmts'):
            return None
        lastst = strip(then['stmts'][-1].get('e', {})) if then['stmts'][-1].get('k') != 'let' else {}
        if lastst.get('k') != 'assignop' or lastst.get('op') != 'AddAssign':
            return None
        tl, tr = strip(lastst['l']), strip(lastst['r'])
        if tl.get('k') != 'local' or tl['id'] != iid or tr.get('k') != 'lit' or str(tr.get('v')) != '1':
            return None
        body = dict(then)
        body['stmts'] = then['stmts'][:-1]
        if any(n.get('k') in ('break', 'continue', 'ret', 'try', 'loop') for n in walk(body)):
            return None
        # the counter is only read inside the body
        for n in walk(body):
            if n.get('k') in ('assign', 'assignop'):
                t0 = strip(n['l'])
                if t0.get('k') == 'local' and t0['id'] == iid:
                    return None
            if n.get('k') == 'addr' and n.get('mut') and any(x.get('k') == 'local' and x.get('id') == iid for x in walk(n)):
                return None
            if n.get('k') == 'call' and 'method' in n and n.get('recv_ty_adj', '').startswith('&mut') and n.get('args'):
                r0 = strip(n['args'][0])
                if r0.get('k') == 'local' and r0.get('id') == iid:
                    return None
            if n.get('k') == 'closure':
                return None
        # the bound is not changed by the body: locals it reads are not written, fields it reads are not written
        wl, wf = set(), set()
        for n in walk(body):
            tgt = None
            if n.get('k') in ('assign', 'assignop'):
                tgt = strip(n['l'])
            elif n.get('k') == 'call' and 'method' in n and n.get('recv_ty_adj', '').startswith('&mut') and n.get('args'):
                tgt = strip(n['args'][0])
            elif n.get('k') == 'addr' and n.get('mut'):
                tgt = strip(n.get('e', {}))
            while tgt is not None and tgt.get('k') in ('index', 'field', 'un'):
                if tgt.get('k') == 'field':
                    pth = self.place_of_static(tgt, fr)
                    if pth:
                        wf.add(pth)
                tgt = strip(tgt.get('base') or tgt.get('e') or {})
            if tgt is not None and tgt.get('k') == 'local':
                if tgt['id'] == fr.selfid:
                    wf.add('*')
                wl.add(tgt['id'])
                v_ = fr.locals.get(tgt['id'])
                if isinstance(v_, tuple) and v_ and v_[0] == 'ref':
                    wf.add('*')       # a write through a reference held in a local: the target is not tracked here
        for n in walk(inv_node):
            if n.get('k') == 'local' and (n['id'] in wl or n['id'] == iid):
                return None
            if n.get('k') == 'local' and wf:
                v_ = fr.locals.get(n['id'])
                if isinstance(v_, tuple) and v_ and v_[0] == 'ref':
                    pl = v_[1]
                    while isinstance(pl, tuple) and pl and pl[0] != 'field' and len(pl) > 1 and isinstance(pl[1], tuple):
                        pl = pl[1]
                    pth = pl[1] if isinstance(pl, tuple) and pl and pl[0] == 'field' else None
                    if '*' in wf or pth is None or any(pth == w or pth.startswith(w + '.') or w.startswith(pth + '.') for w in wf):
                        return None
            if n.get('k') == 'field':
                pth = self.place_of_static(n, fr)
                if '*' in wf or (pth and any(pth == w or pth.startswith(w + '.') or w.startswith(pth + '.') for w in wf)):
                    return None
            if n.get('k') in ('closure', 'assign', 'assignop', 'loop', 'for'):
                return None
            if n.get('k') == 'call' and not ('method' in n and n['method'] in ('len', 'min', 'max', 'saturating_sub')):
                return None
        i0 = fr.locals.get(iid)
        if i0 is None:
            return None
        hi = hi_fn()
        if self.dead or hi is None:
            return None
        # the increment stays in the body (its overflow obligation is judged under the loop hypotheses); the counter is
        # re-bound to the position at the start of every iteration, so it is not a carried variable
        forn = {'k': 'for', 'pat': {'k': 'bind', 'id': iid}, 'iter': inv_node, 'body': then, 'ty': '()', 'sp': node.get('sp')}
        L_ = 'L%d' % (self.nloops + 1)
        self.v_for(forn, fr, it=('range', i0, hi, incl))
        self.loops[L_]['carried'].pop(('local', iid), None)
        end = _iadd(hi, lit(1, 'i')) if incl else hi
        fr.locals[iid] = phi(op('lt', i0, end), end, i0)
        return ('unit',)

    def _assigned_fields(self, body, fr):
        out = []
        for n in walk(body):
            if n.get('k') in ('assign', 'assignop'):
                p = self.place_of_static(n['l'], fr)
                if p:
                    out.append(p)
        return out

    def place_of_static(self, e, fr):
        e = strip(e)
        if e.get('k') == 'field':
            b = strip(e['base'])
            if b.get('k') == 'local' and b['id'] == fr.selfid:
                return fr.prefix + e['name']
        if e.get('k') == 'index':
            return self.place_of_static(e['base'], fr)
        return None

    def v_for(self, e, fr, it=None):
        if it is None:
            it = self.value_noderef(e['iter'], fr)
            lit_ = it
            if isinstance(lit_, tuple) and lit_ and lit_[0] in ('iter', 'copied') and isinstance(lit_[1], tuple) and lit_[1] and lit_[1][0] == 'seq_lit':
                lit_ = lit_[1]
            if isinstance(lit_, tuple) and lit_ and lit_[0] == 'seq_lit' and len(lit_[1]) <= 8 \
                    and not any(n.get('k') in ('break', 'continue') for n in walk(e['body'])):
                # a loop over an array literal is its unrolling: the body once per element, in order
                for x_ in lit_[1]:
                    if self.dead:
                        break
                    self.bind_pat(e['pat'], x_, fr)
                    self.block_value(e['body'], fr)
                return ('unit',)
        if self.dead:
            return unk('dead')
        if isinstance(it, tuple) and it and it[0] == 'ref' and isinstance(it[1], tuple) and it[1][0] in ('field', 'local', 'elem'):
            # `for x in &seq` / `for x in &seq[a..b]`: shared iteration over the sequence (or slice) behind the reference
            if it[1][0] == 'elem' and isinstance(it[1][2], tuple) and it[1][2] and it[1][2][0] == 'range':
                base = self.read_place(it[1][1])
                r = it[1][2]
                hi = r[2] if r[2] is not None else ('len', base)
                self.event('slice', (base, r[1], _iadd(hi, lit(1, 'i')) if r[3] else hi), e['iter'])
                it = ('iter', ('get', base, r))
            elif it[1][0] != 'elem':
                it = ('iter', self.read_place(it[1]))
        # `for x in it.map(f).filter(p)`: adaptors applied to the item (map) / guarding the body (filter), outermost first
        adaptors = []
        while isinstance(it, tuple) and it and it[0] in ('map', 'filter') and len(it) == 3 and isinstance(it[2], tuple) and it[2] and it[2][0] == 'closure':
            adaptors.append((it[0], it[2]))
            it = it[1]
        self.nloops += 1
        L = 'L%d' % self.nloops
        body = e['body']
        # loop-carried variables: locals bound outside and assigned inside; fields written inside
        bound_inside = set()
        for n in walk(body):
            if n.get('k') == 'let':
                bound_inside |= {i for i, _ in _pat_ids(n['pat'])}
            if n.get('k') == 'for':
                bound_inside |= {i for i, _ in _pat_ids(n['pat'])}
        carried_locals = set()
        carried_fields = set()
        refs_written = set()
        for n in walk(body):
            if n.get('k') in ('assign', 'assignop'):
                tgt = n['l']
                t0 = strip(tgt)
                while t0.get('k') == 'index':
                    t0 = strip(t0['base'])
                if t0.get('k') == 'local' and t0['id'] not in bound_inside:
                    v = fr.locals.get(t0['id'])
                    if isinstance(v, tuple) and v and v[0] == 'ref' and v[1][0] in ('field', 'payload'):
                        pth = v[1]
                        while pth[0] != 'field':
                            pth = pth[1]
                        carried_fields.add(pth[1])
                    else:
                        carried_locals.add(t0['id'])
                elif t0.get('k') == 'local':
                    refs_written.add(t0['id'])
                elif t0.get('k') == 'field':
                    p = self.place_of_static(t0, fr)
                    if p:
                        carried_fields.add(p)
            if n.get('k') == 'call' and 'method' in n and n.get('recv_ty_adj', '').startswith('&mut') and n['args']:
                r0 = strip(n['args'][0])
                if r0.get('k') == 'local' and r0['id'] not in bound_inside and r0['id'] != fr.selfid:
                    carried_locals.add(r0['id'])
                p = self.place_of_static(r0, fr)
                if p:
                    carried_fields.add(p)
                if r0.get('k') == 'local' and r0['id'] == fr.selfid:
                    self.note_unknown('self-method-in-loop', n)
        # the iterated buffer, if iterated mutably, is carried
        mut_place = _iter_mut_place(it)
        if mut_place is not None and mut_place[0] == 'field':
            carried_fields.add(mut_place[1])
        info = {'iter': it, 'node': e, 'carried': {}, 'outer': tuple(self.loop_stack)}
        self.loops[L] = info
        inits = {}
        for lid in carried_locals:
            inits[('local', lid)] = fr.locals.get(lid, unk('uninit'))
            fr.locals[lid] = ('mu', L, ('local', lid))
        for fp in carried_fields:
            inits[('field', fp)] = self.get_field(fp)
            self.fields[fp] = ('mu', L, ('field', fp))
        # bind the item pattern
        item, hyps = self.iter_model(it, L)
        if self.last_canon is not None:
            info['iter'] = self.last_canon
        info['hyps'] = hyps
        if item == ('item', L):
            # an iterator this model has no element relation for (step_by, windows, chunks, ...): fail closed -- an opaque item
            # would otherwise be typed as an input-independent quantity
            self.note_unknown('loop over an iterator whose items are not modelled', e)
        saved_pc = list(self.pc)
        self.pc.append(('inloop', L))
        self.loop_stack.append(L)
        keep_ = []
        for kind_, cl_ in reversed(adaptors):
            if kind_ == 'map':
                item = self.apply_closure(cl_, [item], fr)
            else:
                keep_.append(self.deref(self.apply_closure(cl_, [item if (isinstance(item, tuple) and item and item[0] == 'ref') else item], fr)))
        self.bind_pat(e['pat'], item, fr)
        if keep_:
            # a filtered-out item skips the body: its effects are conditional on the predicate
            cond_ = conj(keep_)
            saved_ = self.save()
            self.pc.append(cond_)
            self.block_value(body, fr)
            if not self.dead:
                self.merge_after_closure(saved_, cond_)
        else:
            self.block_value(body, fr)
        self.loop_stack.pop()
        if self.dead:
            self.note_unknown('loop-body-diverges', e)
            self.dead = False
        self.pc = saved_pc
        for key, init in inits.items():
            if key[0] == 'local':
                nxt = fr.locals.get(key[1])
                info['carried'][key] = (init, nxt)
                fr.locals[key[1]] = ('fold', L, key, init, nxt)
            else:
                nxt = self.fields.get(key[1])
                info['carried'][key] = (init, nxt)
                self.fields[key[1]] = ('fold', L, key, init, nxt)
                self.writes.append((key[1], self.fields[key[1]], tuple(self.pc), e))
        return ('unit',)

    def iter_model(self, it, L):
        """(item term bound to the loop pattern, hypotheses on the position variable ('idx', L)).

        ('idx', L) is the position in the base sequence (or the value of a base range). Adaptors are
        applied from the base outwards: skip raises the lower bound, take bounds the count from the
        current lower bound, enumerate counts from the current lower bound. Unsupported adaptors give
        an opaque item (no element/index relation is assumed)."""
        self.last_canon = None
        if _needs_canon(it):
            d_ = iter_desc(it)
            if d_ is None:
                return ('item', L), []
            count, item_fn = d_
            p = ('idx', L)
            if count is None:
                return ('item', L), []
            # canonical form: positions 0 .. count-1; every consumer of loop records sees a plain range
            self.last_canon = ('range', lit(0, 'i'), count, False)
            return item_fn(p), [op('ge', p, lit(0, 'i')), op('lt', p, count)]
        chain = []
        cur = it
        while isinstance(cur, tuple) and cur and cur[0] in ('enumerate', 'take', 'skip', 'copied'):
            chain.append(cur)
            cur = cur[1]
        p = ('idx', L)
        hyps = []
        if not isinstance(cur, tuple) or not cur:
            return ('item', L), []
        if cur[0] == 'range':
            lo = cur[1]
            hyps.append(op('ge', p, lo))
            hyps.append(op('le' if cur[3] else 'lt', p, cur[2]))
            item = p
        elif cur[0] == 'iter':
            lo = lit(0, 'i')
            hyps.append(op('lt', p, ('len', cur[1])))
            item = ('get', cur[1], p)
        elif cur[0] == 'rev' and isinstance(cur[1], tuple) and cur[1] and cur[1][0] in ('iter', 'copied') and _iter_seq(cur[1]) is not None:
            # reversed traversal: the p-th item is element len-1-p
            seq = _iter_seq(cur[1])
            lo = lit(0, 'i')
            hyps.append(op('lt', p, ('len', seq)))
            item = ('get', seq, op('isub', op('isub', ('len', seq), lit(1, 'i')), p))
        elif cur[0] == 'iter_mut':
            lo = lit(0, 'i')
            seq0 = self.read_place(cur[1])
            hyps.append(op('lt', p, ('len', seq0)))
            item = ('ref', ('elem', cur[1], p))
        else:
            return ('item', L), []
        for a in reversed(chain):
            if a[0] == 'skip':
                lo = op('iadd', lo, a[2]) if lo != lit(0, 'i') else a[2]
                hyps.append(op('ge', p, lo))
            elif a[0] == 'take':
                hyps.append(op('lt', p, op('iadd', lo, a[2]) if lo != lit(0, 'i') else a[2]))
            elif a[0] == 'enumerate':
                cnt = p if lo == lit(0, 'i') else op('isub', p, lo)
                item = ('tuple', (cnt, item))
            elif a[0] == 'copied':
                pass
        return item, hyps

    # ------------------------------------------------------------------ calls
    def v_call(self, e, fr):
        name = callee_name(e)
        if name is None:
            f = self.value_noderef(e['fexpr'], fr) if 'fexpr' in e else unk('callee')
            if isinstance(f, tuple) and f and f[0] == 'ref':
                f = self.deref(f)
            args = [self.value_noderef(a, fr) for a in e['args']]
            if isinstance(f, tuple) and f and f[0] == 'closure':
                # a closure kept in a local and called later: evaluate its body at the call site (captures are by reference,
                # so reading the enclosing locals at call time is the right semantics)
                return self.apply_closure(f, args, fr)
            return self.note_unknown('indirect-call', e)
        short = name.split('::')[-1]
        c = e['callee']
        # ---- View protocol on children
        if name in ('View::update', 'View::last'):
            return self.call_view(e, fr, short)
        # ---- local functions: inline
        res = c.get('resolved')
        target = None
        if c.get('krate') == self.F.raw['crate']:
            target = self.F.fn_by_def.get(c['def']) or (self.F.fn_by_def.get(res) if res else None)
            if target is None:
                # match by canonical name
                for f in self.F.fns:
                    if canon(f.defpath) == name:
                        target = f
                        break
        if target is None and res and res in self.F.fn_by_def and not self.F.fn_by_def[res].derived:
            # a std trait method (`From::from`, `Default::default`, `Into::into` ..) resolved to a hand-written impl of this crate
            target = self.F.fn_by_def[res]
        if target is not None:
            return self.inline(e, fr, target)
        argv = [self.value_noderef(a, fr) for a in e['args']]
        return self.lib_call(e, fr, name, short, argv)

    def child_path(self, recv, fr):
        p = self.place_of(recv, fr)
        if p and p[0] == 'field':
            return p[1]
        return None

    def call_view(self, e, fr, short):
        recv = e['args'][0]
        cp = self.child_path(recv, fr)
        c = e['callee']
        if cp is None:
            return self.note_unknown('view-call-on-non-field', e)
        res = c.get('resolved')
        target = self.F.fn_by_def.get(res) if res else None
        cty = self.child_type(fr.prefix, cp)
        if target is None and cty is not None:
            cv = self.view_by_adt.get(cty.get('adt'))
            if cv is not None:
                target = cv.update if short == 'update' else cv.last
        if target is not None:
            # concrete inner view: inline with prefixed field paths
            if cty is not None and cty.get('adt') in self.F.adts:
                self.prefix_adt[cp + '.'] = cty['adt']
                gens = self.F.adts[cty['adt']]['generics']
                self.prefix_bind[cp + '.'] = dict(zip(gens, cty.get('args', [])))
            return self.inline(e, fr, target, prefix=cp + '.')
        if short == 'update':
            arg = self.value(e['args'][1], fr)
            self.child_epoch[cp] = self.child_epoch.get(cp, 0) + 1
            self.child_fed.setdefault(cp, []).append((tuple(self.pc), arg, e))
            self.event('child_update', (cp, arg), e)
            return ('unit',)
        return ('childlast', cp, self.child_epoch.get(cp, 0))

    def child_type(self, prefix, cp):
        """Concrete type (ty json) of the field at path cp owned by the struct at `prefix`, if known."""
        adt = self.prefix_adt.get(prefix)
        if adt is None or adt not in self.F.adts:
            return None
        name = cp[len(prefix):]
        if '.' in name:
            # a field of a nested concrete inner view reached through a reference (e.g. handed to a free helper function):
            # resolve the owner first, then the field in the owner's type
            owner, last = name.rsplit('.', 1)
            oty = self.child_type(prefix, prefix + owner)
            if oty is None or oty.get('adt') not in self.F.adts:
                return None
            sub = prefix + owner + '.'
            if sub not in self.prefix_adt:
                self.prefix_adt[sub] = oty['adt']
                gens = self.F.adts[oty['adt']]['generics']
                self.prefix_bind[sub] = dict(zip(gens, oty.get('args', [])))
            return self.child_type(sub, cp)
        for fld in self.F.adts[adt]['variants'][0]['fields']:
            if fld['name'] == name:
                ty = fld['ty']
                if 'param' in ty:
                    return self.prefix_bind.get(prefix, {}).get(ty['param'])
                if 'adt' in ty:
                    b = self.prefix_bind.get(prefix, {})
                    from .sir import norm_option_like_ty
                    return norm_option_like_ty(self.F, {'adt': ty['adt'], 'args': [b.get(a['param'], a) if 'param' in a else a for a in ty.get('args', [])]})
                if 'array' in ty or 'tuple' in ty:
                    return ty
                return None
        return None

    def oos_names(self, path):
        """Payload field names if the field at `path` is an Option of a plain struct / an option-like enum with several payload
        fields (presented as one Option cell per payload field), else None."""
        cache = self.__dict__.setdefault('_oos_cache', {})
        if path not in cache:
            names = None
            try:
                from .sir import oos_components
                ty = self.child_type('', path)
                oc = oos_components(self.F, ty) if isinstance(ty, dict) else None
                if oc:
                    names = [n for n, _ in oc]
            except Exception:
                names = None
            cache[path] = names
        return cache[path]

    def small_array_len(self, path):
        """k if the field at `path` is a fixed-size array `[T; k]` with k <= 4 (a handful of registers), else None."""
        cache = self.__dict__.setdefault('_arr_cache', {})
        if path not in cache:
            k = None
            try:
                ty = self.child_type('', path)
            except Exception:
                ty = None
            if isinstance(ty, dict) and 'array' in ty and str(ty.get('len_str', '')).strip().isdigit() and int(str(ty['len_str']).strip()) <= 4:
                k = int(str(ty['len_str']).strip())
            cache[path] = k
        return cache[path]

    def inline(self, e, fr, target, prefix=None):
        if self.depth >= self.max_depth:
            return self.note_unknown('inline-depth', e)
        ids = target.param_ids()
        has_self = bool(ids) and ids[0][1] == 'self'
        args = e['args']
        self_value = None
        if has_self and prefix is None:
            # `self` is not (part of) the analysed view when the method belongs to a foreign type (an extension trait implemented
            # for VecDeque) or the receiver is a local value (a borrowing newtype built on the stack): then `self` is an ordinary
            # parameter -- a reference to the receiver's place, or the receiver's value
            rp0 = self.place_of(args[0], fr)
            foreign = getattr(target, 'adt', None) not in self.F.adts
            if rp0 is not None and rp0[0] == 'field' and not foreign:
                cur0 = self.read_place(rp0)
                if isinstance(cur0, tuple) and cur0 and cur0[0] == 'const':
                    # a method of a mode selector (`self.kind.prefers(a, b)`): `self` is that unit variant
                    self_value = cur0
            if self_value is None and (foreign or (rp0 is not None and rp0[0] == 'local') or rp0 is None):
                rv0 = self.value_noderef(args[0], fr)
                if not (isinstance(rv0, tuple) and rv0 and rv0[0] == 'selfref'):
                    if rp0 is not None and rp0[0] in ('field', 'elem', 'payload') :
                        self_value = ('ref', rp0)
                    elif isinstance(rv0, tuple) and rv0 and rv0[0] in ('struct', 'ref', 'tuple', 'const'):
                        self_value = rv0
                    elif foreign and rp0 is not None and rp0[0] == 'local':
                        self_value = ('ref', rp0)
        if self_value is not None:
            prefix = fr.prefix
            argv = [self.value_noderef(a, fr) for a in args[1:]]
        elif has_self:
            if prefix is None:
                rp = self.place_of(args[0], fr)
                if rp is None:
                    rv = self.value_noderef(args[0], fr)
                    if isinstance(rv, tuple) and rv and rv[0] == 'selfref':
                        prefix = rv[1]
                    else:
                        return self.note_unknown('inline-receiver', e)
                elif rp[0] == 'self':
                    prefix = rp[1]
                elif rp[0] == 'field':
                    prefix = rp[1] + '.'
                    if prefix not in self.prefix_adt:
                        # a method of a nested private struct: remember its concrete type so that inner views it owns resolve
                        oty = self.child_type(fr.prefix, rp[1])
                        if oty is not None and oty.get('adt') in self.F.adts:
                            self.prefix_adt[prefix] = oty['adt']
                            gens = self.F.adts[oty['adt']]['generics']
                            self.prefix_bind[prefix] = dict(zip(gens, oty.get('args', [])))
                else:
                    return self.note_unknown('inline-receiver', e)
            argv = [self.value_noderef(a, fr) for a in args[1:]]
        else:
            prefix = ''
            argv = [self.value_noderef(a, fr) for a in args]
        argv = [a if (isinstance(a, tuple) and a and a[0] in ('ref', 'selfref', 'optref', 'closure')) else a for a in argv]
        # a mutable borrow of a caller's LOCAL handed to the callee: the callee's writes through it are not modelled (locals are
        # per-frame), so the local's value after the call is unknown -- fail closed instead of keeping the old value
        # (a mutable borrow of a caller's local handed to the callee is a reference pinned to the caller's frame -- see _pin below)
        caller_idx = len(self.frames) - 1

        def _pin(a_):
            # a reference to a local of the caller stays a reference to THAT frame's local inside the callee
            if isinstance(a_, tuple) and a_ and a_[0] == 'ref' and isinstance(a_[1], tuple) and a_[1] and a_[1][0] == 'local':
                return ('ref', ('flocal', caller_idx, a_[1][1]))
            if isinstance(a_, tuple) and a_ and a_[0] == 'ref' and isinstance(a_[1], tuple) and a_[1] and a_[1][0] == 'lfield':
                def pin_place(pl):
                    if pl[0] == 'local':
                        return ('flocal', caller_idx, pl[1])
                    if pl[0] == 'lfield':
                        return ('lfield', pin_place(pl[1]), pl[2])
                    return pl
                return ('ref', pin_place(a_[1]))
            return a_
        argv = [_pin(a_) for a_ in argv]
        copy_back = None
        if self_value is not None and isinstance(self_value, tuple) and self_value and self_value[0] == 'struct' \
                and str(e.get('recv_ty_adj', '')).startswith('&mut'):
            rp_ = self.place_of(args[0], fr)
            if rp_ is not None and rp_[0] in ('local', 'lfield'):
                copy_back = rp_        # `&mut self` on a struct value held in a local: the callee's writes go back to it
            else:
                self.note_unknown('&mut self method on a temporary struct value', e)
        self_value = _pin(self_value) if self_value is not None else None
        self.depth += 1
        nf = self.push_frame(target, prefix, argv)
        nf.base_pc_len = len(self.pc)
        nf.base_loops = list(self.loop_stack)
        self_pid = nf.selfid
        if self_value is not None:
            nf.locals[nf.selfid] = self_value
            nf.selfid = None
        base_pc = list(self.pc)
        ret = self.block_value(target.body, nf)
        if not self.dead:
            nf.exits.append(Exit(tuple(self.pc), dict(self.fields), ret, target.body, 'end'))
        self.frames.pop()
        self.depth -= 1
        if copy_back is not None:
            if len(nf.exits) <= 1:
                self.write_place(copy_back, nf.locals.get(self_pid, unk('self-after-call')), e)
            else:
                self.note_unknown('&mut self method with several exits on a struct value in a local', e)
                self.write_place(copy_back, unk('self-after-call'), e)
        # merge the callee's exits back into one state
        exits = nf.exits
        self.dead = False
        self.pc = base_pc
        if not exits:
            self.dead = True
            return unk('dead')
        if len(exits) == 1:
            self.fields = dict(exits[0].fields)
            extra = exits[0].pc[len(base_pc):]
            self.pc = base_pc + [x for x in extra if not (isinstance(x, tuple) and x and x[0] == 'inloop')]
            return exits[0].ret
        # several exits: phi-chain in order; conditions relative to the call point
        last = exits[-1]
        acc_fields, acc_ret = dict(last.fields), last.ret
        for ex in reversed(exits[:-1]):
            c = conj(list(ex.pc[len(base_pc):]))
            keys = set(acc_fields) | set(ex.fields)
            nfields = {}
            for key in keys:
                nfields[key] = phi(c, ex.fields.get(key, ('in', key)), acc_fields.get(key, ('in', key)))
            acc_fields = nfields
            acc_ret = phi(c, ex.ret, acc_ret) if not (ex.ret == ('unit',) and acc_ret == ('unit',)) else ('unit',)
        self.fields = acc_fields
        return acc_ret

    def lib_call(self, e, fr, name, short, argv):
        d = self.deref
        # ---- numeric constants / conversions
        if name.startswith('num::') or name.startswith('num_traits::'):
            if short in FLOAT_CONSTS and not argv:
                return lit(FLOAT_CONSTS[short], 'f')
            if short in FLOAT_SENTINELS and not argv:
                return ('sentinel', short)
            if short in ('from', 'cast') and len(argv) == 1 and (short == 'from' or name.endswith('cast::cast') or name.endswith('::cast')):
                a = d(argv[0])
                aty = e['args'][0].get('ty', '')
                if a[0] == 'lit' and a[2] == 'f':
                    return some(a)
                if a[0] == 'lit' and a[2] == 'i':
                    return some(op('from_int', a))
                if aty in ('f64', 'f32'):
                    return some(op('from_float', a))
                return some(op('from_int', a))
            if short in FLOAT_FNS:
                args = [d(a) for a in argv]
                if short in ('ln', 'log2', 'log10', 'sqrt'):
                    self.event('f' + short, tuple(args), e)
                if short == 'clamp':
                    self.event('fclamp', tuple(args), e)
                # partial functions: a finite argument outside the domain gives NaN/inf
                if short == 'recip':
                    self.event('fdiv', (ONE, args[0]), e)
                elif short == 'powf':
                    self.event('fdomain', ('positive', args[0], 'powf base'), e)
                elif short == 'powi' and not (args[1][0] == 'lit' and isinstance(args[1][1], int) and args[1][1] >= 0):
                    self.event('fdiv', (ONE, args[0]), e)
                elif short in ('asin', 'acos'):
                    self.event('fdomain', ('unit', args[0], short + ' argument'), e)
                elif short == 'ln_1p':
                    self.event('fdomain', ('positive', op('add', args[0], ONE), 'ln_1p argument + 1'), e)
                if short == 'mul_add' and len(args) == 3:
                    # fused multiply-add: the same real-arithmetic expression a·b + c (one rounding instead of two)
                    return op('add', op('mul', args[0], args[1]), args[2])
                if short == 'recip' and len(args) == 1:
                    return op('div', ONE, args[0])
                return op(short, *args)
            if short in ('to_f64', 'to_f32'):
                return some(op(short, d(argv[0])))
            if short in ('to_usize', 'to_i64', 'to_u64', 'to_isize', 'to_i32', 'to_u32', 'to_u8', 'to_u16', 'to_i8', 'to_i16', 'to_u128', 'to_i128'):
                aty = e['args'][0].get('ty', '') if e.get('args') else ''
                x = d(argv[0])
                if is_int_tyname(aty.lstrip('&')) and short[3:] in ('u128', 'i128') :
                    return some(op(short, x))
                # a float (or wider integer) converts only when the value fits: presence is an opaque proposition
                return phi(op('conv_fits:' + short, x), some(op(short, x)), NONE)
            return self.note_unknown('num-fn-' + short, e)
        # ---- Option
        if name.startswith('std::option::Option::'):
            o = argv[0]
            if short in ('unwrap', 'expect'):
                if isinstance(o, tuple) and o and o[0] == 'optref':
                    self.event('unwrap', (self.read_place(o[1]),), e)
                    return ('ref', ('payload', o[1]))
                if isinstance(o, tuple) and o and o[0] == 'ref':
                    o = self.deref(o)
                if isinstance(o, tuple) and o and o[0] == 'some' and o[1][0] == 'op' and o[1][1] == 'partial_cmp':
                    self.event('unwrap_cmp', (o[1],), e)
                    return o[1]
                self.event('unwrap', (o,), e)
                p = payload(o)
                return p
            if short == 'as_mut' or short == 'as_ref':
                if isinstance(o, tuple) and o and o[0] == 'ref':
                    return ('optref', o[1])
                rp = self.place_of(e['args'][0], fr)
                if rp is not None:
                    return ('optref', rp)
                return o
            od = o
            if isinstance(od, tuple) and od and od[0] in ('ref',):
                od = self.deref(od)
            if isinstance(od, tuple) and od and od[0] == 'optref':
                od = self.read_place(od[1])
            if short == 'is_some':
                return is_some(od)
            if short == 'is_none':
                return neg_cond(is_some(od))
            if short in ('copied', 'cloned'):
                return od
            if short == 'unwrap_or':
                return phi(is_some(od), payload(od), d(argv[1]))
            if short == 'map':
                cl = argv[1]
                if isinstance(cl, tuple) and cl[0] == 'closure':
                    saved = self.save()
                    self.pc.append(is_some(od))
                    r = self.apply_closure(cl, [payload(od)], fr)
                    # closure side effects on fields are not expected; keep conservative state
                    self.merge_after_closure(saved, is_some(od))
                    return phi(is_some(od), some(r), NONE)
                return self.note_unknown('option-map-non-closure', e)
            if short in ('take',):
                rp = self.place_of(e['args'][0], fr)
                if rp is not None:
                    cur = self.read_place(rp)
                    self.write_place(rp, NONE, e)
                    return cur
            if short in ('replace', 'insert', 'get_or_insert', 'get_or_insert_with'):
                rp = self.place_of(e['args'][0], fr)
                if rp is None and isinstance(o, tuple) and o and o[0] in ('ref', 'optref'):
                    rp = o[1]
                if rp is not None:
                    cur = self.read_place(rp)
                    if short == 'replace':
                        self.write_place(rp, some(d(argv[1])), e)
                        return cur
                    if short == 'insert':
                        self.write_place(rp, some(d(argv[1])), e)
                        return ('ref', ('payload', rp))
                    if short == 'get_or_insert':
                        newv = d(argv[1])
                    else:
                        cl = argv[1]
                        if isinstance(cl, tuple) and cl and cl[0] == 'closure':
                            saved = self.save()
                            self.pc.append(neg_cond(is_some(cur)))
                            newv = d(self.apply_closure(cl, [], fr))
                            self.merge_after_closure(saved, neg_cond(is_some(cur)))
                        else:
                            fn_node = strip(e['args'][1])
                            fname = canon(fn_node.get('def', '')) if fn_node.get('k') == 'path' else ''
                            if fname.split('::')[-1] in FLOAT_CONSTS and fname.startswith(('num::', 'num_traits::')):
                                newv = lit(FLOAT_CONSTS[fname.split('::')[-1]], 'f')
                            else:
                                return self.note_unknown('option-get_or_insert_with-non-closure', e)
                    self.write_place(rp, phi(is_some(cur), cur, some(newv)), e)
                    return ('ref', ('payload', rp))
            if short in ('zip',):
                b = d(argv[1])
                return phi(conj([is_some(od), is_some(b)]), some(('tuple', (payload(od), payload(b)))), NONE)
            if short in ('filter', 'and_then', 'is_some_and', 'map_or', 'unwrap_or_else', 'or_else', 'map_or_else', 'is_none_or'):
                cl = argv[-1]
                if not (isinstance(cl, tuple) and cl and cl[0] == 'closure'):
                    return self.note_unknown('option-%s-non-closure' % short, e)
                if short in ('unwrap_or_else', 'or_else'):
                    saved = self.save()
                    self.pc.append(neg_cond(is_some(od)))
                    r = self.apply_closure(cl, [], fr)
                    self.merge_after_closure(saved, neg_cond(is_some(od)))
                    return phi(is_some(od), payload(od) if short == 'unwrap_or_else' else od, d(r) if short == 'unwrap_or_else' else r)
                saved = self.save()
                self.pc.append(is_some(od))
                r = self.apply_closure(cl, [payload(od)], fr)
                self.merge_after_closure(saved, is_some(od))
                if isinstance(r, tuple) and r and r[0] == 'ref':
                    r = self.deref(r)
                if short == 'filter':
                    return phi(conj([is_some(od), r]), od, NONE)
                if short == 'and_then':
                    return phi(is_some(od), r, NONE)
                if short == 'is_some_and':
                    return conj([is_some(od), r])
                if short == 'is_none_or':
                    return op('or', neg_cond(is_some(od)), r)
                if short == 'map_or':
                    return phi(is_some(od), r, d(argv[1]))
                if short == 'map_or_else':
                    dcl = argv[1]
                    if isinstance(dcl, tuple) and dcl and dcl[0] == 'closure':
                        saved = self.save()
                        self.pc.append(neg_cond(is_some(od)))
                        dv = self.apply_closure(dcl, [], fr)
                        self.merge_after_closure(saved, neg_cond(is_some(od)))
                        return phi(is_some(od), r, d(dv))
            if short == 'inspect' and len(argv) == 2 and isinstance(argv[1], tuple) and argv[1] and argv[1][0] == 'closure':
                saved = self.save()
                self.pc.append(is_some(od))
                self.apply_closure(argv[1], [payload(od)], fr)
                self.merge_after_closure(saved, is_some(od))
                return od
            if short == 'or':
                return phi(is_some(od), od, d(argv[1]))
            if short == 'and':
                return phi(is_some(od), d(argv[1]), NONE)
            if short == 'xor':
                b = d(argv[1])
                return phi(is_some(od), phi(is_some(b), NONE, od), b)
            return self.note_unknown('option-' + short, e)
        # ---- sequences
        if name.startswith(('std::collections::VecDeque::', 'std::vec::Vec::', 'slice::', 'std::vec::from_elem')):
            return self.seq_call(e, fr, name, short, argv)
        # ---- iterator adaptors
        if name.startswith('std::iter::Iterator::') or name.startswith('std::iter::IntoIterator::') or name.startswith('std::iter::DoubleEndedIterator::'):
            return self.iter_call(e, fr, name, short, argv)
        if name == 'std::ops::RangeInclusive::new':
            return ('range', d(argv[0]), d(argv[1]), True)
        if name == 'std::iter::once' and len(argv) == 1:
            return ('once', d(argv[0]))
        if name in ('std::iter::repeat', 'std::iter::repeat_n', 'std::iter::repeat_with'):
            x = argv[0]
            if short == 'repeat_with':
                if isinstance(x, tuple) and x and x[0] == 'closure':
                    x = self.apply_closure(x, [], fr)
                else:
                    fn_node = strip(e['args'][0])
                    fname = canon(fn_node.get('def', '')) if fn_node.get('k') == 'path' else ''
                    if fname.split('::')[-1] in FLOAT_CONSTS and fname.startswith(('num::', 'num_traits::')):
                        x = lit(FLOAT_CONSTS[fname.split('::')[-1]], 'f')
                    else:
                        return self.note_unknown('repeat_with-non-closure', e)
            return ('repeat', d(x), d(argv[1]) if short == 'repeat_n' else None)
        if name in ('std::default::Default::default',):
            ty = e.get('ty', '')
            if 'PhantomData' in ty:
                return ('phantom',)
            if ty.startswith('std::option::Option'):
                return NONE
            return ('default', ty)
        if name in ('std::cmp::PartialOrd::partial_cmp',):
            return some(op('partial_cmp', d(argv[0]), d(argv[1])))
        if name in ('std::cmp::Ord::cmp',) and len(argv) == 2:
            # a total order (integers): the Ordering itself; `match a.cmp(&b) { Less => .., Equal => .., Greater => .. }`
            return op('partial_cmp', d(argv[0]), d(argv[1]))
        if name in ('std::cmp::PartialOrd::lt', 'std::cmp::PartialOrd::le', 'std::cmp::PartialOrd::gt', 'std::cmp::PartialOrd::ge',
                    'std::cmp::PartialEq::eq', 'std::cmp::PartialEq::ne'):
            return op(short, d(argv[0]), d(argv[1]))
        if name in ('std::clone::Clone::clone',):
            return d(argv[0])
        if name.startswith('std::ops::') and short in ('add', 'sub', 'mul', 'div', 'neg', 'rem'):
            args = [d(a) for a in argv]
            if short in ('div', 'rem'):
                self.event('fdiv', tuple(args), e)
            return op(short, *args)
        if name == 'std::iter::Extend::extend' and len(argv) == 2 and (
                (isinstance(argv[0], tuple) and argv[0] and argv[0][0] == 'ref') or self.place_of(e['args'][0], fr) is not None):
            # v.extend(iterator) with a describable iterator: the sequence grows by `count` items item(0..count-1)
            place = argv[0][1] if (isinstance(argv[0], tuple) and argv[0] and argv[0][0] == 'ref') else self.place_of(e['args'][0], fr)
            it = argv[1]
            if isinstance(it, tuple) and it and it[0] == 'ref':
                it = ('iter', self.read_place(it[1]))
            d_ = iter_desc(it) if isinstance(it, tuple) else None
            if d_ is not None and d_[0] is not None and place[0] in ('local', 'field'):
                cnt, item_fn = d_
                self.nloops += 1
                L = 'L%d' % self.nloops
                p_ = ('idx', L)
                cur = self.read_place(place)
                self.loops[L] = {'iter': ('range', lit(0, 'i'), cnt, False), 'node': e, 'carried': {}, 'outer': tuple(self.loop_stack),
                                 'hyps': [op('ge', p_, lit(0, 'i')), op('lt', p_, cnt)], 'item': self.deref(item_fn(p_))}
                self.event('grow', (place, cur), e)
                self.write_place(place, ('ext', cur, L, cnt), e)
                return ('unit',)
        if name in ('std::convert::From::from', 'std::convert::Into::into') and len(argv) == 1:
            aty = str(e['args'][0].get('ty', '')).lstrip('&')
            rty = str(e.get('ty', ''))
            a = d(argv[0])
            if aty == 'bool' and is_int_tyname(rty):
                return phi(a, lit(1, 'i'), lit(0, 'i'))
            if is_int_tyname(aty) and is_int_tyname(rty):
                return a        # widening integer conversion
            if aty == rty:
                return a
        if name in ('std::mem::swap', 'std::mem::replace', 'std::mem::take'):
            if short == 'replace' and isinstance(argv[0], tuple) and argv[0][0] == 'ref':
                old = self.read_place(argv[0][1])
                self.write_place(argv[0][1], d(argv[1]), e)
                return old
            if short == 'swap' and all(isinstance(a, tuple) and a[0] == 'ref' for a in argv[:2]):
                a, b = self.read_place(argv[0][1]), self.read_place(argv[1][1])
                self.write_place(argv[0][1], b, e)
                self.write_place(argv[1][1], a, e)
                return ('unit',)
        if name in ('std::cmp::Ord::max', 'std::cmp::Ord::min', 'std::cmp::max', 'std::cmp::min'):
            return op('i' + short, d(argv[0]), d(argv[1]))
        if name.startswith('std::option::Option') or name.startswith('std::result::Result'):
            return self.note_unknown('lib-' + name, e)
        if name.startswith('std::marker::PhantomData'):
            return ('phantom',)
        if short == 'checked_sub' and len(argv) == 2:
            a, b = d(argv[0]), d(argv[1])
            return phi(op('ge', a, b), some(op('isub', a, b)), NONE)
        if short == 'checked_add' and len(argv) == 2:
            return some(op('iadd', d(argv[0]), d(argv[1])))   # usize + usize does not overflow within 2^64 (stated assumption)
        if short in ('saturating_sub', 'wrapping_sub', 'saturating_add', 'wrapping_add'):
            return op(short, *[d(a) for a in argv])
        if short in ('then', 'then_some') and 'bool' in name and len(argv) == 2:
            c = d(argv[0])
            if short == 'then_some':
                return phi(c, some(d(argv[1])), NONE)
            cl = argv[1]
            if isinstance(cl, tuple) and cl and cl[0] == 'closure':
                saved = self.save()
                self.pc.append(c)
                r = self.apply_closure(cl, [], fr)
                self.merge_after_closure(saved, c)
                if isinstance(r, tuple) and r and r[0] == 'ref':
                    r = self.deref(r)
                return phi(c, some(r), NONE)
        return self.note_unknown('lib-' + name, e)

    def apply_closure(self, cl, args, fr):
        node = cl[2]
        for p, a in zip(node['params'], args):
            self.bind_pat(p, a, fr)
        # a `return` inside the closure leaves the closure, not the enclosing function: collect such exits separately and
        # merge them with the fall-through value (phi chain over their path conditions, as for an inlined function)
        has_ret = any(n.get('k') in ('ret', 'try') for n in walk(node['body']))
        if not has_ret:
            return self.block_value(node['body'], fr) if node['body'].get('k') == 'block' else self.value(node['body'], fr)
        saved_exits = fr.exits
        saved_loops = self.loop_stack
        fr.exits = []
        self.loop_stack = []
        base_pc = list(self.pc)
        try:
            v = self.block_value(node['body'], fr) if node['body'].get('k') == 'block' else self.value(node['body'], fr)
            rets = fr.exits
        finally:
            fr.exits = saved_exits
            self.loop_stack = saved_loops
        fell = not self.dead
        self.dead = False
        self.pc = base_pc
        acc = v if fell else None
        for ex in reversed(rets):
            c = conj([x for x in ex.pc[len(base_pc):] if not (isinstance(x, tuple) and x and x[0] == 'inloop')])
            acc = ex.ret if acc is None else phi(c, ex.ret, acc)
        if acc is None:
            self.dead = True
            return unk('dead')
        return acc

    def _closure_assigned_locals(self, node):
        """ids of locals bound outside the closure that its body assigns (captured by mutable reference)."""
        inside = set()
        for p_ in node.get('params', []):
            inside |= {i for i, _ in _pat_ids(p_)}
        for n in walk(node['body']):
            if n.get('k') in ('let', 'for') and 'pat' in n:
                inside |= {i for i, _ in _pat_ids(n['pat'])}
            if n.get('k') == 'closure':
                for p_ in n.get('params', []):
                    inside |= {i for i, _ in _pat_ids(p_)}
        out = set()
        for n in walk(node['body']):
            tgt = None
            if n.get('k') in ('assign', 'assignop'):
                tgt = strip(n['l'])
            elif n.get('k') == 'call' and 'method' in n and n.get('recv_ty_adj', '').startswith('&mut') and n.get('args'):
                tgt = strip(n['args'][0])
            elif n.get('k') == 'addr' and n.get('mut'):
                tgt = strip(n.get('e', {}))
            while tgt is not None and tgt.get('k') in ('index', 'field'):
                tgt = strip(tgt['base'])
            if tgt is not None and tgt.get('k') == 'local' and tgt['id'] not in inside:
                out.add(tgt['id'])
        return out

    def seq_place(self, e, fr):
        """Place of the receiver sequence of a method call (for mutation)."""
        recv = e['args'][0]
        p = self.place_of(recv, fr)
        if p is not None and p[0] in ('field', 'local', 'elem', 'payload'):
            return p
        return None

    def seq_call(self, e, fr, name, short, argv):
        d = self.deref
        if name == 'std::vec::from_elem':
            self.event('alloc', (d(argv[1]),), e)
            return ('seq_rep', d(argv[0]), d(argv[1]))
        if short in ('new',):
            return ('seq_new',)
        if short == 'with_capacity':
            self.event('alloc', (d(argv[0]),), e)
            return ('seq_new',)
        recv = argv[0]
        s = d(recv) if not (isinstance(recv, tuple) and recv and recv[0] == 'ref') else self.read_place(recv[1])
        place = self.seq_place(e, fr)
        if isinstance(recv, tuple) and recv and recv[0] == 'ref':
            place = recv[1]
        if short == 'len':
            return ('len', s)
        if short == 'is_empty':
            return op('eq', ('len', s), lit(0, 'i'))
        if short in ('push_back', 'push'):
            v = d(argv[1])
            if place is None:
                return self.note_unknown('push-on-nonplace', e)
            self.event('grow', (place, s), e)
            self.write_place(place, ('push_back', s, v), e)
            return ('unit',)
        if short == 'push_front':
            v = d(argv[1])
            if place is None:
                return self.note_unknown('push-on-nonplace', e)
            self.event('grow', (place, s), e)
            self.write_place(place, ('push_front', s, v), e)
            return ('unit',)
        if short in ('pop_front', 'pop_back', 'pop'):
            if place is None:
                return self.note_unknown('pop-on-nonplace', e)
            which = 'front' if short == 'pop_front' else 'back'
            self.write_place(place, ('pop_' + which, s), e)
            nonempty = op('gt', ('len', s), lit(0, 'i'))
            return phi(nonempty, some((which, s)), NONE)
        if short in ('front', 'back', 'last', 'first'):
            which = {'last': 'back', 'first': 'front'}.get(short, short)
            nonempty = op('gt', ('len', s), lit(0, 'i'))
            return phi(nonempty, some((which, s)), NONE)
        if short in ('front_mut', 'back_mut', 'last_mut', 'first_mut'):
            which = {'last_mut': 'back', 'first_mut': 'front', 'front_mut': 'front', 'back_mut': 'back'}[short]
            nonempty = op('gt', ('len', s), lit(0, 'i'))
            self.event('unwrap-implicit', (nonempty,), e)
            return phi(nonempty, some(('ref', (which, place))), NONE) if place is not None else self.note_unknown('mutref', e)
        if short == 'get':
            i = d(argv[1])
            inb = op('lt', i, ('len', s))
            return phi(inb, some(seq_get(s, i)), NONE)
        if short == 'get_mut':
            i = d(argv[1])
            inb = op('lt', i, ('len', s))
            if place is None:
                return self.note_unknown('get_mut', e)
            return phi(inb, some(('ref', ('elem', place, i))), NONE)
        if short == 'remove':
            i = d(argv[1])
            if place is None:
                return self.note_unknown('remove-on-nonplace', e)
            self.event('index', (s, i), e)
            self.write_place(place, ('remove', s, i), e)
            if name.startswith('std::vec::Vec'):
                return ('get', s, i)
            return phi(op('lt', i, ('len', s)), some(('get', s, i)), NONE)
        if short in ('clear',):
            if place is not None:
                self.write_place(place, ('seq_new',), e)
            return ('unit',)
        if short in ('truncate',):
            if place is not None:
                self.write_place(place, ('truncate', s, d(argv[1])), e)
            return ('unit',)
        if short in ('iter',):
            return ('iter', s)
        if short in ('iter_mut',):
            if place is None:
                return self.note_unknown('iter_mut-on-nonplace', e)
            return ('iter_mut', place)
        if short in ('contains',):
            return op('contains', s, d(argv[1]))
        if short in ('as_slices', 'make_contiguous', 'as_slice', 'as_mut_slice'):
            return self.note_unknown('seq-' + short, e)
        if short in ('insert',):
            if place is not None:
                self.event('grow', (place, s), e)
                self.write_place(place, ('insert', s, d(argv[1]), d(argv[2])), e)
            return ('unit',)
        if short in ('extend', 'append', 'resize', 'extend_from_slice', 'resize_with'):
            if place is not None:
                self.event('grow-unbounded', (place, s), e)
                self.write_place(place, unk('seq-' + short), e)
            return ('unit',)
        if short in ('swap',):
            if place is not None:
                i_, j_ = d(argv[1]), d(argv[2])
                if isinstance(s, tuple) and s and s[0] == 'seq_lit' and all(isinstance(x_, tuple) and x_[:1] == ('lit',) and isinstance(x_[1], int) and 0 <= x_[1] < len(s[1]) for x_ in (i_, j_)):
                    # swapping two registers of a small fixed-size array: the literal with the two elements exchanged
                    elems = list(s[1])
                    elems[i_[1]], elems[j_[1]] = elems[j_[1]], elems[i_[1]]
                    self.event('index', (s, i_), e)
                    self.event('index', (s, j_), e)
                    self.write_place(place, ('seq_lit', tuple(elems)), e)
                else:
                    self.write_place(place, ('swap', s, i_, j_), e)
            return ('unit',)
        if short in ('drain', 'retain', 'dedup', 'sort', 'sort_by', 'reverse', 'rotate_left', 'rotate_right', 'split_off'):
            if place is not None:
                self.write_place(place, unk('seq-' + short), e)
            return self.note_unknown('seq-' + short, e)
        return self.note_unknown('seq-' + short, e)

    def iter_call(self, e, fr, name, short, argv):
        d = self.deref
        it = argv[0]
        if short == 'into_iter':
            if isinstance(it, tuple) and it and it[0] == 'ref':
                return ('iter', self.read_place(it[1]))
            if isinstance(it, tuple) and it and it[0] in ('range', 'iter', 'iter_mut', 'enumerate', 'take', 'skip', 'rev', 'copied', 'zip', 'step_by', 'map'):
                return it
            return ('iter', d(it))
        if short in ('enumerate', 'copied', 'cloned', 'rev', 'peekable', 'by_ref'):
            tag = {'cloned': 'copied', 'peekable': 'copied', 'by_ref': 'copied'}.get(short, short)
            return (tag, it)
        if short == 'take' and isinstance(it, tuple) and it and it[0] == 'repeat' and it[2] is None:
            return ('repeat', it[1], d(argv[1]))
        if short == 'collect' and isinstance(it, tuple) and it and it[0] == 'repeat' and it[2] is not None:
            self.event('alloc', (it[2],), e)
            return ('seq_rep', it[1], it[2])
        if short == 'collect' and isinstance(it, tuple) and it and it[0] in ('iter', 'copied') and _iter_seq(it) is not None and not _needs_canon(it):
            seq = _iter_seq(it)
            self.event('alloc', (('len', seq),), e)
            return seq
        if short == 'chain' and len(argv) == 2:
            other = argv[1]
            if isinstance(other, tuple) and other and other[0] == 'ref':
                other = ('iter', self.read_place(other[1]))
            elif not (isinstance(other, tuple) and other and other[0] in ('iter', 'range', 'enumerate', 'take', 'skip', 'rev', 'copied', 'zip', 'once', 'chain')):
                other = ('iter', d(other))
            return ('chain', it, other)
        if short == 'collect' and isinstance(it, tuple) and it and iter_desc(it) is not None and iter_desc(it)[0] is not None \
                and str(e.get('ty', '')).startswith(('std::vec::Vec', 'std::collections::VecDeque', 'alloc::vec::Vec')):
            # collecting a describable iterator: a new sequence of `count` items item(0..count-1)
            cnt, item_fn = iter_desc(it)
            self.nloops += 1
            L = 'L%d' % self.nloops
            p_ = ('idx', L)
            self.loops[L] = {'iter': ('range', lit(0, 'i'), cnt, False), 'node': e, 'carried': {}, 'outer': tuple(self.loop_stack),
                             'hyps': [op('ge', p_, lit(0, 'i')), op('lt', p_, cnt)], 'item': self.deref(item_fn(p_))}
            self.event('alloc', (cnt,), e)
            return ('ext', ('seq_new',), L, cnt)
        if short in ('take', 'skip', 'step_by'):
            return (short, it, d(argv[1]))
        if short == 'zip':
            return ('zip', it, argv[1] if isinstance(argv[1], tuple) and argv[1][0] in ('iter', 'range', 'enumerate', 'take', 'skip', 'rev', 'copied') else ('iter', d(argv[1])))
        if short in ('max_by', 'min_by'):
            cl = argv[1]
            natural = False
            if isinstance(cl, tuple) and cl[0] == 'closure':
                # the comparator is evaluated on two symbols: it is the natural order iff the result is exactly
                # partial_cmp(a, b) (after unwrap / expect / unwrap_or(Equal) on the always-Some result)
                A_, B_ = ('cmp_lhs',), ('cmp_rhs',)
                saved_c = self.save()
                ev_before = len(self.events)
                unk_before = len(self.unknowns)
                try:
                    rc = self.apply_closure(cl, [A_, B_], fr)
                except Exception:
                    rc = None
                del self.events[ev_before:]
                del self.unknowns[unk_before:]
                self.restore(saved_c)
                if isinstance(rc, tuple) and rc and rc[0] == 'ref':
                    rc = self.deref(rc)
                natural = rc == op('partial_cmp', A_, B_)
            if isinstance(cl, tuple) and cl[0] == 'closure':
                for x in walk(cl[2]['body']):
                    if x.get('k') == 'call' and callee_name(x) in ('std::option::Option::unwrap', 'std::option::Option::expect'):
                        self.event('unwrap_cmp', (seq_of_iter(it),), x)
            kind = ('max' if short == 'max_by' else 'min') if natural else ('reduce_' + short)
            seq = _iter_seq(it)
            nonempty = op('gt', ('len', seq), lit(0, 'i')) if seq is not None else unk('iter-nonempty')
            red = ('reduce', kind, seq if seq is not None else it)
            byref = not _iter_copied(it)
            return phi(nonempty, some(red), NONE)
        if short == 'next' and isinstance(it, tuple) and it:
            rp = self.place_of(e['args'][0], fr)
            base = self.read_place(it[1]) if it[0] == 'ref' else it
            if it[0] == 'ref':
                rp = it[1]
            d_ = iter_desc(base) if isinstance(base, tuple) else None
            if d_ is not None and d_[0] is not None and rp is not None and rp[0] == 'local':
                cnt, item_fn = d_
                first = self.deref(item_fn(lit(0, 'i')))
                self.write_place(rp, ('skip', base, lit(1, 'i')), e)
                return phi(op('gt', cnt, lit(0, 'i')), some(first), NONE)
        if short == 'map':
            return ('map', it, argv[1])
        if short == 'filter' and len(argv) == 2 and isinstance(argv[1], tuple) and argv[1] and argv[1][0] == 'closure':
            return ('filter', it, argv[1])
        if short in ('sum', 'product', 'fold', 'for_each', 'count') and not (short == 'count' and isinstance(it, tuple) and it and it[0] in ('iter', 'copied') and _iter_seq(it) is not None):
            # synthesise a fold over the iterator: acc' = acc (+|*) item, or closure(acc, item); map / filter adaptors are
            # applied to the item (a filtered-out item leaves the accumulator unchanged)
            base = it
            maps = []
            while isinstance(base, tuple) and base and base[0] in ('map', 'filter'):
                maps.append((base[0], base[2]))
                base = base[1]
            if isinstance(base, tuple) and base and (base[0] in ('iter', 'range', 'enumerate', 'take', 'skip', 'copied', 'rev') or (_needs_canon(base) and iter_desc(base) is not None and iter_desc(base)[0] is not None)):
                self.nloops += 1
                L = 'L%d' % self.nloops
                key = ('local', 'acc%d' % self.nloops)
                item, hyps = self.iter_model(base, L)
                info = {'iter': self.last_canon if self.last_canon is not None else base, 'node': e, 'carried': {}, 'outer': tuple(self.loop_stack), 'hyps': hyps}
                self.loops[L] = info
                saved_pc = list(self.pc)
                fields_before = dict(self.fields)
                self.pc.append(('inloop', L))
                self.loop_stack.append(L)
                item = self.deref(item) if not (isinstance(item, tuple) and item and item[0] == 'tuple') else item
                ok = True
                keep = []
                # locals of the enclosing function that the closures assign are carried by the synthesised loop
                cap_inits = {}
                for cl_ in [c_ for _, c_ in maps] + [a_ for a_ in argv[1:]]:
                    if isinstance(cl_, tuple) and cl_ and cl_[0] == 'closure':
                        for lid in self._closure_assigned_locals(cl_[2]):
                            if lid in fr.locals and lid not in cap_inits:
                                cap_inits[lid] = fr.locals[lid]
                                fr.locals[lid] = ('mu', L, ('local', lid))

                def close_captured():
                    for lid, i0 in cap_inits.items():
                        n0 = fr.locals.get(lid)
                        info['carried'][('local', lid)] = (i0, n0)
                        fr.locals[lid] = ('fold', L, ('local', lid), i0, n0)
                for kind_, cl in reversed(maps):
                    if isinstance(cl, tuple) and cl[0] == 'closure':
                        if kind_ == 'map':
                            item = self.apply_closure(cl, [item], fr)
                        else:
                            # filter closures take a reference to the item
                            keep.append(self.deref(self.apply_closure(cl, [item], fr)))
                    else:
                        ok = False
                mu = ('mu', L, key)
                if short == 'count':
                    init, nxt = lit(0, 'i'), op('iadd', mu, lit(1, 'i'))
                elif short == 'sum':
                    init, nxt = lit(0.0), op('add', mu, self.deref(item))
                elif short == 'product':
                    init, nxt = lit(1.0), op('mul', mu, self.deref(item))
                elif short == 'fold' and len(argv) == 3 and isinstance(argv[2], tuple) and argv[2][0] == 'closure':
                    init = d(argv[1]) if not (isinstance(argv[1], tuple) and argv[1] and argv[1][0] in ('tuple', 'struct')) else argv[1]
                    if isinstance(init, tuple) and init and init[0] == 'struct' and isinstance(init[2], dict) and init[2]:
                        # struct accumulator: one carried variable per field (scalar replacement), as for tuples
                        names = list(init[2])
                        keys = [('local', 'acc%d_%s' % (self.nloops, f_)) for f_ in names]
                        mus = ('struct', init[1], {f_: ('mu', L, k_) for f_, k_ in zip(names, keys)})
                        nx = self.apply_closure(argv[2], [mus, item], fr)
                        if isinstance(nx, tuple) and nx and nx[0] == 'struct' and isinstance(nx[2], dict) and list(nx[2]) and set(nx[2]) == set(names):
                            self.loop_stack.pop()
                            self.pc = saved_pc
                            close_captured()
                            for f_, k_ in zip(names, keys):
                                info['carried'][k_] = (d(init[2][f_]), d(nx[2][f_]))
                            return ('struct', init[1], {f_: ('fold', L, k_, d(init[2][f_]), d(nx[2][f_])) for f_, k_ in zip(names, keys)})
                        ok = False
                        nxt = unk('iter-fold-struct')
                    elif isinstance(init, tuple) and init and init[0] == 'tuple':
                        # tuple accumulator: one carried variable per component (scalar replacement)
                        keys = [('local', 'acc%d_%d' % (self.nloops, i)) for i in range(len(init[1]))]
                        mus = ('tuple', tuple(('mu', L, k_) for k_ in keys))
                        nx = self.apply_closure(argv[2], [mus, item], fr)
                        if isinstance(nx, tuple) and nx and nx[0] == 'tuple' and len(nx[1]) == len(keys):
                            self.loop_stack.pop()
                            self.pc = saved_pc
                            close_captured()
                            for k_, i0, n0 in zip(keys, init[1], nx[1]):
                                info['carried'][k_] = (d(i0), d(n0))
                            return ('tuple', tuple(('fold', L, k_, d(i0), d(n0)) for k_, i0, n0 in zip(keys, init[1], nx[1])))
                        ok = False
                        nxt = unk('iter-fold-tuple')
                    else:
                        nxt = self.apply_closure(argv[2], [mu, item], fr)
                else:
                    ok = False
                    init = nxt = unk('iter-' + short)
                self.loop_stack.pop()
                self.pc = saved_pc
                close_captured()
                if any(fields_before.get(k_, ('in', k_)) != t_ for k_, t_ in self.fields.items()):
                    # a closure passed to an iterator adaptor wrote a field: that is a loop-carried effect this synthesis does not model
                    self.fields = fields_before
                    return self.note_unknown('iterator-closure-writes-state', e)
                if ok:
                    if keep:
                        nxt = phi(conj(keep), nxt, mu)
                    info['carried'][key] = (init, nxt)
                    return ('fold', L, key, init, nxt)
            return self.note_unknown('iter-' + short, e)
        if short == 'reduce' and len(argv) == 2 and isinstance(argv[1], tuple) and argv[1][0] == 'closure':
            seq = _iter_seq(it)
            if seq is not None and it[0] in ('iter', 'copied') and not _needs_canon(it):
                # first element seeds the accumulator, the remaining ones are folded in
                base = ('skip', it, lit(1, 'i'))
                self.nloops += 1
                L = 'L%d' % self.nloops
                key = ('local', 'acc%d' % self.nloops)
                item, hyps = self.iter_model(base, L)
                info = {'iter': base, 'node': e, 'carried': {}, 'outer': tuple(self.loop_stack), 'hyps': hyps}
                self.loops[L] = info
                saved_pc = list(self.pc)
                self.pc.append(('inloop', L))
                self.pc.append(op('gt', ('len', seq), lit(0, 'i')))
                self.loop_stack.append(L)
                mu = ('mu', L, key)
                nxt = self.apply_closure(argv[1], [mu, self.deref(item)], fr)
                self.loop_stack.pop()
                self.pc = saved_pc
                init = ('get', seq, lit(0, 'i'))
                info['carried'][key] = (init, d(nxt))
                return phi(op('gt', ('len', seq), lit(0, 'i')), some(('fold', L, key, init, d(nxt))), NONE)
        if short in ('count', 'max', 'min', 'last', 'nth', 'next', 'filter', 'collect',
                     'any', 'all', 'position', 'find', 'rposition', 'min_by_key', 'max_by_key', 'reduce', 'scan', 'windows'):
            seq = _iter_seq(it)
            if short == 'count' and seq is not None and it[0] in ('iter', 'copied'):
                return ('len', seq)
            return self.note_unknown('iter-' + short, e)
        return self.note_unknown('iter-' + short, e)


def seq_get(s, i):
    """Element i of a sequence term; the first and the last element have one spelling (front / back)."""
    if isinstance(s, tuple) and s and s[0] == 'seq_lit' and isinstance(i, tuple) and i[:1] == ('lit',) and isinstance(i[1], int) and 0 <= i[1] < len(s[1]):
        return s[1][i[1]]
    if i == lit(0, 'i') and isinstance(s, tuple) and s and s[0] in ('in', 'push_back', 'pop_front', 'pop_back', 'phi', 'push_front', 'mu'):
        return ('front', s)
    if isinstance(i, tuple) and i[:2] == ('op', 'isub') and i[2][0] == ('len', s) and i[2][1] == lit(1, 'i'):
        return ('back', s)
    return ('get', s, i)


def _iadd(a, b):
    if a == lit(0, 'i'):
        return b
    if b == lit(0, 'i'):
        return a
    if a[0] == 'lit' and b[0] == 'lit':
        return lit(a[1] + b[1], 'i')
    return op('iadd', a, b)


def _isub(a, b):
    if b == lit(0, 'i'):
        return a
    if a[0] == 'lit' and b[0] == 'lit':
        return lit(a[1] - b[1], 'i')
    return op('isub', a, b)


def _needs_canon(it):
    """Iterators outside the natively modelled forms (zip, slices, unbounded ranges, rev under other adaptors)."""
    top = True
    cur = it
    while isinstance(cur, tuple) and cur:
        k = cur[0]
        if k == 'zip':
            return True
        if k == 'range':
            return cur[2] is None
        if k == 'iter':
            s_ = cur[1]
            return isinstance(s_, tuple) and s_ and s_[0] == 'get' and isinstance(s_[2], tuple) and s_[2] and s_[2][0] == 'range'
        if k == 'rev':
            if not top:
                return True
            inner = cur[1]
            while isinstance(inner, tuple) and inner and inner[0] == 'copied':
                inner = inner[1]
            return not (isinstance(inner, tuple) and inner and inner[0] == 'iter' and not _needs_canon(inner))
        if k in ('enumerate', 'take', 'skip', 'copied', 'step_by', 'map'):
            top = False
            cur = cur[1]
            continue
        return False
    return False


def iter_desc(it):
    """(count term or None when unbounded, item(p) for the 0-based position p) of an iterator term, or None."""
    if not (isinstance(it, tuple) and it):
        return None
    k = it[0]
    if k == 'range':
        lo, hi, incl = it[1], it[2], it[3]
        cnt = None if hi is None else (_iadd(_isub(hi, lo), lit(1, 'i')) if incl else _isub(hi, lo))
        return cnt, (lambda p, lo=lo: _iadd(lo, p))
    if k == 'iter':
        s_ = it[1]
        if isinstance(s_, tuple) and s_ and s_[0] == 'get' and isinstance(s_[2], tuple) and s_[2] and s_[2][0] == 'range':
            base, r = s_[1], s_[2]
            lo = r[1]
            hi = r[2] if r[2] is not None else ('len', base)
            if r[3]:
                hi = _iadd(hi, lit(1, 'i'))
            return _isub(hi, lo), (lambda p, base=base, lo=lo: ('get', base, _iadd(lo, p)))
        return ('len', s_), (lambda p, s_=s_: ('get', s_, p))
    if k == 'copied':
        return iter_desc(it[1])
    if k == 'rev':
        d_ = iter_desc(it[1])
        if d_ is None or d_[0] is None:
            return None
        cnt, f = d_
        return cnt, (lambda p, cnt=cnt, f=f: f(_isub(_isub(cnt, lit(1, 'i')), p)))
    if k == 'skip':
        d_ = iter_desc(it[1])
        if d_ is None:
            return None
        cnt, f = d_
        return (None if cnt is None else _isub(cnt, it[2])), (lambda p, f=f, n=it[2]: f(_iadd(p, n)))
    if k == 'take':
        d_ = iter_desc(it[1])
        if d_ is None:
            return None
        cnt, f = d_
        return (it[2] if cnt is None else op('imin', cnt, it[2])), f
    if k == 'enumerate':
        d_ = iter_desc(it[1])
        if d_ is None:
            return None
        cnt, f = d_
        return cnt, (lambda p, f=f: ('tuple', (p, f(p))))
    if k == 'once':
        return lit(1, 'i'), (lambda p, x=it[1]: x)
    if k == 'chain':
        a, b = iter_desc(it[1]), iter_desc(it[2])
        if a is None or b is None or a[0] is None:
            return None
        cnt = None if b[0] is None else _iadd(a[0], b[0])
        return cnt, (lambda p, fa=a[1], fb=b[1], na=a[0]: phi(op('lt', p, na), fa(p), fb(_isub(p, na))))
    if k == 'zip':
        a, b = iter_desc(it[1]), iter_desc(it[2])
        if a is None or b is None:
            return None
        if a[0] is None:
            cnt = b[0]
        elif b[0] is None:
            cnt = a[0]
        else:
            cnt = a[0] if a[0] == b[0] else op('imin', a[0], b[0])
        return cnt, (lambda p, fa=a[1], fb=b[1]: ('tuple', (fa(p), fb(p))))
    return None


def _pat_ids(p):
    from .places import pat_bindings
    return pat_bindings(p)


def _iter_mut_place(it):
    while isinstance(it, tuple) and it:
        if it[0] == 'iter_mut':
            return it[1]
        if it[0] in ('enumerate', 'take', 'skip', 'rev', 'copied', 'step_by'):
            it = it[1]
        else:
            return None
    return None


def seq_of_iter(it):
    s = _iter_seq(it)
    return s if s is not None else ('unk', 'iter')


def _iter_seq(it):
    while isinstance(it, tuple) and it:
        if it[0] == 'iter':
            return it[1]
        if it[0] in ('copied', 'rev'):
            it = it[1]
        else:
            return None
    return None


def _iter_copied(it):
    while isinstance(it, tuple) and it:
        if it[0] == 'copied':
            return True
        if it[0] in ('rev',):
            it = it[1]
        else:
            return False
    return False


# ----------------------------------------------------------------------------------------------
# term utilities


def subterms(t):
    """Pre-order over all sub-terms (tuples) of t."""
    stack = [t]
    while stack:
        x = stack.pop()
        if not isinstance(x, tuple):
            continue
        yield x
        if not x:
            continue
        k = x[0]
        if k == 'op':
            stack.extend(x[2])
        elif k == 'tuple' or k == 'seq_lit':
            stack.extend(x[1])
        elif k == 'struct':
            stack.extend(x[2].values())
        elif k == 'closure':
            continue
        elif k == 'lit':
            continue
        else:
            for y in x[1:]:
                if isinstance(y, tuple):
                    stack.append(y)


def tstr(t, depth=0):
    """Compact rendering of a term for evidence and diagnostics."""
    if not isinstance(t, tuple) or not t:
        return str(t)
    if depth > 14:
        return '…'
    k = t[0]
    r = lambda x: tstr(x, depth + 1)
    if k == 'lit':
        return str(t[1])
    if k == 'in':
        return 'in.' + t[1]
    if k == 'arg':
        return 'arg.' + t[1]
    if k == 'child':
        return '%s.out' % t[1]
    if k == 'childlast':
        return '%s.last()' % t[1]
    if k == 'op':
        sym = {'add': '+', 'sub': '-', 'mul': '*', 'div': '/', 'iadd': '+', 'isub': '-', 'imul': '*', 'idiv': '/',
               'eq': '==', 'ne': '!=', 'lt': '<', 'le': '<=', 'gt': '>', 'ge': '>=', 'and': '&&', 'or': '||'}
        if t[1] in sym and len(t[2]) == 2:
            return '(%s %s %s)' % (r(t[2][0]), sym[t[1]], r(t[2][1]))
        if t[1] in ('and', 'or'):
            return '(' + (' %s ' % sym[t[1]]).join(r(x) for x in t[2]) + ')'
        if t[1] == 'not':
            return '!' + r(t[2][0])
        if t[1] == 'neg':
            return '-' + r(t[2][0])
        if t[1] == 'from_int':
            return 'T(%s)' % r(t[2][0])
        return '%s(%s)' % (t[1], ', '.join(r(x) for x in t[2]))
    if k == 'phi':
        return 'φ(%s ? %s : %s)' % (r(t[1]), r(t[2]), r(t[3]))
    if k == 'some':
        return 'Some(%s)' % r(t[1])
    if k == 'none':
        return 'None'
    if k in ('len', 'front', 'back', 'payload', 'is_some', 'pop_front', 'pop_back', 'iter'):
        return '%s(%s)' % (k, r(t[1]))
    if k in ('push_back', 'push_front', 'get', 'remove'):
        return '%s(%s, %s)' % (k, r(t[1]), r(t[2]))
    if k == 'set':
        return 'set(%s, %s, %s)' % (r(t[1]), r(t[2]), r(t[3]))
    if k == 'fold':
        return 'fold[%s](%s; init=%s; next=%s)' % (t[1], t[2][1], r(t[3]), r(t[4]))
    if k == 'mu':
        return 'μ[%s].%s' % (t[1], t[2][1])
    if k == 'idx':
        return 'i[%s]' % t[1]
    if k == 'tuple':
        return '(' + ', '.join(r(x) for x in t[1]) + ')'
    if k == 'reduce':
        return '%s(%s)' % (t[1], r(t[2]))
    if k == 'seq_new':
        return '[]'
    if k == 'seq_rep':
        return '[%s; %s]' % (r(t[1]), r(t[2]))
    if k == 'unk':
        return '?%s' % t[1]
    if k == 'struct':
        return '%s{…}' % t[1].split('::')[-1]
    if k == 'closure':
        return '<closure>'
    if k == 'range':
        return '%s..%s%s' % (r(t[1]), '=' if t[3] else '', r(t[2]))
    if k == 'sentinel':
        return 'T::%s' % t[1]
    if k == 'inloop':
        return 'in ' + t[1]
    return '%s(%s)' % (k, ', '.join(r(x) if isinstance(x, tuple) else str(x) for x in t[1:]))


def exits_value(exits, getter):
    """Combine the mutually exclusive exits into one phi-chain for `getter(exit)`."""
    if not exits:
        return unk('no-exit')
    # The exits partition the input space by their path conditions, which share prefixes (a path condition grows literal by
    # literal). Rebuild the decision tree, so that an early return and the equivalent nested if/else give the same term:
    # split on the first literal of the first exit when every exit starts with that literal or its negation.
    items = [([c for c in ex.pc if not (isinstance(c, tuple) and c and c[0] == 'inloop')], getter(ex)) for ex in exits]

    def chain(its):
        acc = its[-1][1]
        for pc, v in reversed(its[:-1]):
            acc = phi(conj(list(pc)), v, acc)
        return acc

    def tree(its, depth):
        if len(its) == 1:
            return its[0][1]
        if depth > 40 or not its[0][0]:
            return chain(its)
        c = its[0][0][0]
        nc = neg_cond(c)
        yes, no = [], []
        for pc, v in its:
            if pc and pc[0] == c:
                yes.append((pc[1:], v))
            elif pc and pc[0] == nc:
                no.append((pc[1:], v))
            else:
                return chain(its)
        if not no:
            # every exit lies under c: it is the enclosing context, not a decision
            return tree(yes, depth + 1)
        return phi(c, tree(yes, depth + 1), tree(no, depth + 1))
    return tree(items, 0)


SEQ_ADTS = ('std::vec::Vec', 'std::collections::VecDeque')


def aos_components(vg, path):
    """Names of the element fields if `path` is a Vec/VecDeque whose elements are a plain struct of this crate or a tuple
    (an array of structs), else None."""
    cache = vg.__dict__.setdefault('_aos_cache', {})
    if path in cache:
        return cache[path]
    names = None
    try:
        ty = vg.child_type('', path)
    except Exception:
        ty = None
    if isinstance(ty, dict) and ty.get('adt') in SEQ_ADTS and ty.get('args'):
        el = ty['args'][0]
        if isinstance(el, dict) and isinstance(el.get('tuple'), list) and len(el['tuple']) >= 2:
            names = [str(i) for i in range(len(el['tuple']))]
        elif isinstance(el, dict) and el.get('adt') in vg.F.adts and el.get('adt') not in vg.view_by_adt:
            a = vg.F.adts[el['adt']]
            if a.get('kind') == 'Struct' and len(a.get('variants', [])) == 1 and a['variants'][0]['fields']:
                names = [f['name'] for f in a['variants'][0]['fields']]
    cache[path] = names
    return names


def _aos_root(vg, S):
    """The AoS field a sequence term is rooted at (through push/pop/phi/set), or None."""
    seen = 0
    while isinstance(S, tuple) and S and seen < 200:
        seen += 1
        if S[0] == 'in':
            return S[1] if aos_components(vg, S[1]) else None
        if S[0] in ('push_back', 'push_front', 'pop_front', 'pop_back', 'set', 'set_back', 'set_front', 'skip', 'take'):
            S = S[1]
        elif S[0] == 'phi':
            r = _aos_root(vg, S[2])
            return r if r else _aos_root(vg, S[3])
        else:
            return None
    return None


def _aos_field_of(x, f):
    """Field f of an element value."""
    if isinstance(x, tuple) and x:
        if x[0] == 'struct' and isinstance(x[2], dict) and f in x[2]:
            return x[2][f]
        if x[0] == 'tuple' and f.isdigit() and int(f) < len(x[1]):
            return x[1][int(f)]
        if x[0] == 'phi':
            return phi(x[1], _aos_field_of(x[2], f), _aos_field_of(x[3], f))
        if x[0] == 'some':
            return some(_aos_field_of(x[1], f))
    return ('proj', x, int(f)) if f.isdigit() else ('fieldof', x, f)


def _aos_project(vg, S, f):
    """The sequence of the f-components of the elements of S (structure of arrays)."""
    if not isinstance(S, tuple) or not S:
        return S
    k = S[0]
    if k == 'in':
        return ('in', S[1] + '.' + f)
    if k in ('push_back', 'push_front'):
        return (k, _aos_project(vg, S[1], f), _aos_field_of(S[2], f))
    if k in ('pop_front', 'pop_back'):
        return (k, _aos_project(vg, S[1], f))
    if k == 'phi':
        return phi(S[1], _aos_project(vg, S[2], f), _aos_project(vg, S[3], f))
    if k == 'seq_new':
        return S
    if k == 'set':
        return ('set', _aos_project(vg, S[1], f), S[2], _aos_field_of(S[3], f))
    if k in ('set_back', 'set_front'):
        return (k, _aos_project(vg, S[1], f), _aos_field_of(S[2], f))
    if k in ('skip', 'take'):
        return (k, _aos_project(vg, S[1], f), S[2])
    return ('projseq', S, f)


def aos_normalise(vg, exits):
    """A queue of small structs / tuples is the same state as one queue per component, pushed and popped together. Rewrite
    every term accordingly (array of structs -> structure of arrays): `front(q).f` becomes `front(q.f)`, `len(q)` the length
    of the first component, the cell `q` the cells `q.f`; the rules then see the same shapes as for parallel queues."""
    from .terms import map_term
    # quick exit: is there any AoS field at all?
    if vg.view is None or not getattr(vg.view, 'adt', None):
        return
    if not vg.__dict__.get('_has_aos'):
        has = False

        def scan(adt, prefix, depth):
            nonlocal has
            for fld in adt['variants'][0]['fields']:
                if aos_components(vg, prefix + fld['name']):
                    has = True
                ty = fld['ty']
                inner = vg.F.adts.get(ty.get('adt')) if isinstance(ty, dict) else None
                if inner is not None and inner.get('kind') == 'Struct' and len(inner.get('variants', [])) == 1 and depth < 3:
                    scan(inner, prefix + fld['name'] + '.', depth + 1)
        try:
            scan(vg.view.adt, '', 0)
        except Exception:
            has = False
        vg._has_aos = 'yes' if has else 'no'
    if vg._has_aos != 'yes':
        return
    memo = {}

    def f(n):
        k = n[0]
        if k == 'op':
            return op(n[1], *n[2])
        if k in ('fieldof', 'proj'):
            E, name = n[1], str(n[2])
            if isinstance(E, tuple) and E:
                if E[0] in ('front', 'back') and _aos_root(vg, E[1]):
                    return (E[0], _aos_project(vg, E[1], name))
                if E[0] == 'get' and _aos_root(vg, E[1]):
                    return ('get', _aos_project(vg, E[1], name), E[2])
                if E[0] in ('struct', 'tuple', 'phi'):
                    r = _aos_field_of(E, name)
                    if r != n:
                        return map_term(r, f, memo) if r[0] in ('fieldof', 'proj') else r
            return n
        if k == 'len' and _aos_root(vg, n[1]):
            root = _aos_root(vg, n[1])
            return ('len', _aos_project(vg, n[1], aos_components(vg, root)[0]))
        if k == 'iter' and isinstance(n[1], tuple) and _aos_root(vg, n[1]):
            root = _aos_root(vg, n[1])
            return ('iter', _aos_project(vg, n[1], aos_components(vg, root)[0]))
        return n

    def rw(t):
        return map_term(t, f, memo) if isinstance(t, tuple) else t

    def rw_fields(fields):
        out = {}
        for key, t in fields.items():
            names = aos_components(vg, key)
            t2 = rw(t)
            if names:
                for nm in names:
                    out[key + '.' + nm] = _aos_project(vg, t2, nm)
            else:
                out[key] = t2
        return out

    for ex in exits:
        ex.pc = tuple(rw(c) for c in ex.pc)
        ex.fields = rw_fields(ex.fields)
        if isinstance(ex.ret, tuple) and ex.ret and ex.ret[0] == 'struct' and isinstance(ex.ret[2], dict):
            # a constructor's result: split the array-of-structs fields here as well
            d2 = {}
            for key, t in ex.ret[2].items():
                names = aos_components(vg, key)
                if names:
                    for nm in names:
                        d2[key + '.' + nm] = _aos_project(vg, rw(t), nm)
                else:
                    d2[key] = rw(t)
            ex.ret = ('struct', ex.ret[1], d2)
        else:
            ex.ret = rw(ex.ret)
    vg.fields = rw_fields(vg.fields)
    new_events = []
    for ev in vg.events:
        ev.pc = tuple(rw(c) for c in ev.pc)
        if ev.kind == 'grow' and isinstance(ev.data, tuple) and len(ev.data) == 2 and isinstance(ev.data[0], tuple) \
                and ev.data[0][0] == 'field' and aos_components(vg, ev.data[0][1]):
            for nm in aos_components(vg, ev.data[0][1]):
                new_events.append(Event('grow', ev.pc, (('field', ev.data[0][1] + '.' + nm), _aos_project(vg, rw(ev.data[1]), nm)), ev.node, ev.ctx))
            continue
        if isinstance(ev.data, tuple):
            ev.data = tuple(rw(x) if isinstance(x, tuple) else x for x in ev.data)
        new_events.append(ev)
    vg.events[:] = new_events
    for L, info in vg.loops.items():
        if isinstance(info.get('iter'), tuple):
            info['iter'] = rw(info['iter'])
        info['hyps'] = [rw(h) for h in info.get('hyps', [])]
        info['carried'] = {key: (rw(a), rw(b) if b is not None else None) for key, (a, b) in info.get('carried', {}).items()}
    for cp, feeds in vg.child_fed.items():
        vg.child_fed[cp] = [(tuple(rw(c) for c in pc_), rw(a_), n_) for pc_, a_, n_ in feeds]
    neww = []
    for (path, t, pc_, node) in vg.writes:
        names = aos_components(vg, path)
        if names:
            for nm in names:
                neww.append((path + '.' + nm, _aos_project(vg, rw(t), nm), tuple(rw(c) for c in pc_), node))
        else:
            neww.append((path, rw(t), tuple(rw(c) for c in pc_), node))
    vg.writes[:] = neww
    # an element used as a whole (not through its fields) is not covered by this normal form: fail closed
    for ex in exits:
        for t in list(ex.fields.values()) + [ex.ret] + list(ex.pc):
            if isinstance(t, tuple):
                for x in subterms(t):
                    if x[0] == 'in' and aos_components(vg, x[1]):
                        vg.unknowns.append(('array-of-structs element used as a whole: %s' % x[1], '?'))
                        return


def flatten_struct(F, ret, prefix=''):
    """Flatten a ('struct', name, {f: term}) value (with nested local structs) to field paths; None if not a struct."""
    out = {}
    if not isinstance(ret, tuple) or not ret or ret[0] != 'struct':
        return None
    local = {v.adt_path for v in F.views} | {'Self'} | set(F.adts)
    for k, t in ret[2].items():
        if isinstance(t, tuple) and t and t[0] == 'struct' and t[1] in local:
            sub = flatten_struct(F, t, prefix + k + '.')
            if sub:
                out.update(sub)
                continue
        out[prefix + k] = t
    return out


_mode_cache = {}


def mode_fields(F, view):
    """{field path: ('const', variant)} for the fields of `view` (nested private structs included) that every constructor
    sets to the same unit enum variant and that update() never writes: the view is a specialisation of shared code, and
    reading such a field gives that variant."""
    key = (id(F), view.name)
    if key in _mode_cache:
        return _mode_cache[key]
    _mode_cache[key] = {}
    cand = None
    for c in view.ctors:
        vg = VG(F, view, use_modes=False)
        try:
            exits = vg.run(c, '')
        except Exception:
            exits = []
        if not exits:
            continue
        ret = exits_value(exits, lambda ex: ex.ret)
        init = flatten_struct(F, ret)
        if init is None:
            cand = {}
            break
        consts = {k: t for k, t in init.items() if isinstance(t, tuple) and t and t[0] == 'const'}
        # a parameter stored twice, once as given and once pre-converted (`window_len_t: T::from(window_len)`): the converted copy
        # is the conversion of the stored parameter
        as_given = {}
        for k, t in init.items():
            if isinstance(t, tuple) and t and t[0] == 'arg':
                as_given.setdefault(t, k)
        for k, t in init.items():
            if isinstance(t, tuple) and t[:2] == ('op', 'from_int') and t[2][0] in as_given:
                consts[k] = ('op', 'from_int', (('in', as_given[t[2][0]]),))
        cand = consts if cand is None else {k: t for k, t in cand.items() if consts.get(k) == t}
    cand = cand or {}
    if cand and view.update is not None:
        vg = VG(F, view, use_modes=False)
        try:
            vg.run(view.update, '')
            written = {w[0] for w in vg.writes}
        except Exception:
            written = set(cand)
        cand = {k: t for k, t in cand.items() if not any(w == k or k.startswith(w + '.') or w.startswith(k + '.') for w in written)}
        # a replacement term may only mention fields update() never writes either (a parameter copy that is really a counter
        # initialised from the argument does not stay equal to the argument)
        def _reads_written(t):
            return any(x[0] == 'in' and any(w == x[1] or x[1].startswith(w + '.') or w.startswith(x[1] + '.') for w in written)
                       for x in subterms(t)) if isinstance(t, tuple) else False
        cand = {k: t for k, t in cand.items() if not _reads_written(t)}
    _mode_cache[key] = cand
    return cand


def analyse_fn(facts, view, fn, args=None, self_fields=None):
    vg = VG(facts, view)
    exits = vg.run(fn, '', args, self_fields)
    return vg, exits
