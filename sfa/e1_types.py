"""E1 — types and items: field-type allow-list, globals, unsafe, callee closure, trait shape, Clone.

Serves C17 (determinism / purity of last() / clone independence) and provides the field inventory
used by C14 and C18.
"""
import re
from .sir import canon, walk, loc

# --- T1: type constructors that cannot share, hide or mutate state behind `&self` -------------
ALLOWED_ADTS = {
    'std::option::Option', 'std::vec::Vec', 'std::collections::VecDeque', 'std::marker::PhantomData',
    'std::alloc::Global',
}
FORBIDDEN_HINT = {
    'std::cell::Cell': 'interior mutability', 'std::cell::RefCell': 'interior mutability',
    'std::cell::UnsafeCell': 'interior mutability', 'std::cell::OnceCell': 'interior mutability',
    'std::sync::Mutex': 'shared mutable state', 'std::sync::RwLock': 'shared mutable state',
    'std::sync::OnceLock': 'interior mutability', 'std::rc::Rc': 'shared ownership (clone is shallow)',
    'std::sync::Arc': 'shared ownership (clone is shallow)',
    'std::collections::HashMap': 'RandomState iteration order is not deterministic',
    'std::collections::HashSet': 'RandomState iteration order is not deterministic',
}


def ty_problems(ty, view_adts, path='', out=None):
    """Return [(where-in-type, reason)] for every constructor outside the allow-list."""
    if out is None:
        out = []
    if 'prim' in ty:
        if ty['prim'] in ('str',):
            out.append((path, 'unsized str'))
        return out
    if 'param' in ty:
        return out
    if 'adt' in ty:
        a = ty['adt']
        if a in ALLOWED_ADTS or a in view_adts:
            for i, x in enumerate(ty.get('args', [])):
                ty_problems(x, view_adts, path + '<' + a.split('::')[-1] + '>', out)
            return out
        hint = FORBIDDEN_HINT.get(a)
        if hint is None and a.startswith('std::sync::atomic'):
            hint = 'atomic: interior mutability'
        out.append((path, 'type constructor %s is not in the allow-list%s' % (a, ' (%s)' % hint if hint else '')))
        return out
    if 'tuple' in ty:
        for x in ty['tuple']:
            ty_problems(x, view_adts, path + '(tuple)', out)
        return out
    if 'array' in ty:
        return ty_problems(ty['array'], view_adts, path + '[array]', out)
    if 'ref' in ty:
        out.append((path, 'reference field: shares state with something outside the view'))
        return out
    if 'ptr' in ty:
        out.append((path, 'raw pointer field'))
        return out
    if 'slice' in ty:
        out.append((path, 'unsized slice'))
        return out
    out.append((path, 'type %s is not in the allow-list (fn pointer / dyn / closure / other)' % ty.get('other', '?')))
    return out


# --- T4: callee closure ------------------------------------------------------------------------
ALLOWED_PREFIXES = (
    'std::ops::', 'std::cmp::', 'std::option::', 'std::result::', 'std::iter::', 'slice::', 'core::slice::',
    'std::slice::', 'std::vec::', 'std::collections::VecDeque::', 'std::collections::vec_deque::', 'std::num::',
    'std::f32::', 'std::f64::', 'std::clone::', 'std::default::', 'std::marker::', 'std::convert::', 'std::fmt::',
    'std::rt::panic_fmt', 'core::panicking::', 'std::panicking::', 'std::mem::swap', 'std::mem::replace',
    'std::mem::take', 'std::array::', 'std::borrow::', 'std::boxed::Box::new', 'std::intrinsics::',
    'std::hint::', 'std::primitive', 'std::usize::', 'core::num::', 'std::alloc::', 'alloc::',
    'std::iter::range::', 'core::iter::', 'core::ops::', 'core::cmp::', 'core::option::', 'core::fmt::',
    'std::rt::', 'std::panic::', 'core::', 'std::string::', 'std::str::',
)
# callees that make behaviour depend on something other than the view's logical value and its inputs
FORBIDDEN_PREFIXES = (
    'std::time', 'std::env', 'std::fs', 'std::io', 'std::net', 'std::thread', 'std::sync', 'std::process',
    'std::cell', 'std::rc', 'std::hash', 'std::collections::hash', 'std::collections::HashMap',
    'std::collections::HashSet', 'std::random', 'std::os', 'std::ptr', 'std::mem::forget', 'std::mem::transmute',
    'std::mem::zeroed', 'std::mem::uninitialized', 'std::mem::MaybeUninit', 'std::mem::ManuallyDrop',
    'std::boxed::Box::leak', 'std::any', 'core::cell', 'core::sync', 'core::ptr', 'core::any', 'core::hash',
    'std::alloc::System', 'rand',
    # the address of a value and the caller's source location are not part of a view's logical value
    'std::panic::Location', 'core::panic::Location', 'std::fmt::Pointer', 'core::fmt::Pointer', 'std::fmt::pointer_fmt_inner',
    'core::fmt::pointer_fmt_inner', 'std::backtrace', 'std::intrinsics::caller_location', 'std::intrinsics::type_id',
    'std::intrinsics::type_name', 'std::mem::size_of_val', 'std::mem::align_of_val',
)
FORBIDDEN_SUBSTRINGS = ('new_pointer', 'Location::caller', 'fmt::Pointer')
# methods whose result is not a function of the container's logical value (not preserved by Clone,
# allocator dependent) or which leak
FORBIDDEN_METHODS = {
    'capacity', 'reserve', 'reserve_exact', 'try_reserve', 'try_reserve_exact', 'shrink_to_fit', 'shrink_to',
    'as_ptr', 'as_mut_ptr', 'as_ptr_range', 'as_mut_ptr_range', 'from_raw_parts', 'from_raw_parts_in',
    'into_raw_parts', 'set_len', 'leak', 'spare_capacity_mut', 'allocator', 'as_non_null', 'into_raw',
    'from_raw', 'addr', 'expose_provenance', 'as_slices', 'as_mut_slices',
}
ALLOWED_CRATES = {'num_traits', 'num'}


def callee_verdict(krate, name, resolved):
    """(ok, reason) for one resolved callee."""
    for n in (name, resolved):
        if not n:
            continue
        last = n.split('::')[-1]
        if last in FORBIDDEN_METHODS and (n.startswith('std::vec') or n.startswith('std::collections') or
                                          n.startswith('slice') or n.startswith('std::string') or n.startswith('core::slice')):
            return False, 'observes/changes allocation state or physical layout that Clone does not preserve, or leaks (%s)' % n
        for p in FORBIDDEN_PREFIXES:
            if n.startswith(p):
                return False, 'impure or sharing callee (%s)' % n
            # trait methods resolve to `<SelfTy as Trait>::method`: the forbidden type then sits inside the angle brackets
            if n.startswith('<') and (p + '::' in n or p + '<' in n or p + ' ' in n or ('<' + p) in n) and p not in ('rand',):
                return False, 'impure or sharing callee (%s)' % n
        for p in FORBIDDEN_SUBSTRINGS:
            if p in n:
                return False, 'callee observes an address or the caller location (%s)' % n
    if krate in ALLOWED_CRATES:
        return True, ''
    if name == '<indirect>':
        return False, 'indirect call through a function pointer: callee unknown'
    if krate in ('core', 'alloc', 'std'):
        for p in ALLOWED_PREFIXES:
            if name.startswith(p):
                return True, ''
        return False, 'std callee outside the reviewed allow-list (%s)' % name
    return None, 'local'


def run_c17(F, R):
    view_adts = {v.adt_path for v in F.views}
    local_adts = set(F.adts.keys())
    R.trust('rustc front end: resolved types of struct fields, impl metadata, MIR call terminators')
    R.trust('allow-list of type constructors / callee modules in sfa/e1_types.py (reviewed by hand)')
    R.assume('generic children V: View<T> obey the same rules (they do when drawn from this crate: every local View is checked)')
    R.assume('T is a plain float (f32/f64): num::Float operations are pure')

    # T0: catalogue
    R.floor('T1-fields', 38)
    R.floor('T5-trait-shape', 2)
    R.floor('T6-clone-derived', 36)
    # T1: every field of every local ADT (views and anything they may embed)
    # ADTs that can be part of a view's state: reachable from a view's field types. A type outside that set that carries a lifetime
    # parameter (a borrowing helper built on the stack, e.g. `struct NewestFirst<'a, T>(&'a VecDeque<T>)`) cannot be stored in a
    # view (no view has a lifetime parameter): a *shared* reference field there is a temporary borrow, not shared state.
    reach = set(view_adts)
    work = list(view_adts)

    def _adts_in(ty, acc):
        if isinstance(ty, dict):
            if ty.get('adt') in F.adts:
                acc.add(ty['adt'])
            for k_ in ('args', 'tuple'):
                for x in ty.get(k_, []) or []:
                    _adts_in(x, acc)
            for k_ in ('array', 'slice', 'ref', 'ptr'):
                if isinstance(ty.get(k_), dict):
                    _adts_in(ty[k_], acc)
        return acc
    while work:
        a_ = F.adts.get(work.pop())
        if not a_:
            continue
        for var in a_['variants']:
            for fld in var['fields']:
                for nxt in _adts_in(fld['ty'], set()):
                    if nxt not in reach:
                        reach.add(nxt)
                        work.append(nxt)
    for path, adt in sorted(F.adts.items()):
        probs = []
        nfields = 0
        stack_only = path not in reach
        for var in adt['variants']:
            for fld in var['fields']:
                nfields += 1
                for (w, reason) in ty_problems(fld['ty'], local_adts):
                    if stack_only and reason.startswith('reference field') and isinstance(fld['ty'], dict) and 'ref' in fld['ty'] and not fld['ty'].get('mut'):
                        continue
                    probs.append('%s.%s%s: %s' % (adt['name'], fld['name'], w, reason))
        R.ob('T1-fields', adt['name'], not probs,
             '; '.join(probs) if probs else '%d fields, all of allow-listed owned value types' % nfields,
             '%s:%d' % (adt['where'][0], adt['where'][1]))
    # T2: globals
    for st in F.statics:
        R.violation('T2-globals', st['path'], 'static item %s: %s%s — global state' % (
            st['path'], st['ty_str'], ' (mutable)' if st['mutable'] else ''), '%s:%d' % (st['where'][0], st['where'][1]))
    for it in F.raw.get('other_items', []):
        if it['kind'].startswith('Const') and re.search(r'LocalKey|Cell|Mutex|Atomic|Lock|Lazy', it.get('ty_str', '')):
            R.violation('T2-globals', it['path'], 'const item of type %s: thread-local / lazily initialised global state' % it['ty_str'],
                        '%s:%d' % (it['where'][0], it['where'][1]))
    R.ob('T2-globals', 'crate', True, '%d static items, %d other non-fn items inspected' % (len(F.statics), len(F.raw.get('other_items', []))))
    # T3: unsafe
    for u in F.unsafes:
        if any(m.startswith('derive macro:') for m in u.get('mac', [])):
            continue
        if any(m.startswith('desugar:FormatLiteral') or m in ('macro:format_args', 'macro:$crate::__export::format_args', 'macro:$crate::format_args')
               for m in u.get('mac', [])):
            continue    # compiler-generated `unsafe { Arguments::new(..) }` inside format_args!: not user-written unsafe
        R.violation('T3-unsafe', '%s:%s' % (u['what'], u.get('fn', '')), '%s in non-test code' % u['what'],
                    '%s:%d' % (u['where'][0], u['where'][1]))
    for fm in F.foreign_mods:
        R.violation('T3-unsafe', 'extern-block', 'extern block in non-test code', '%s:%d' % (fm['where'][0], fm['where'][1]))
    R.ob('T3-unsafe', 'crate', True, 'no unsafe block/fn/impl and no extern block besides the ones reported')
    # T4: callee closure over every local body (fns + closures), from the MIR call terminators
    ncalls = 0
    bad = {}
    for m in F.raw['mir']:
        for c in m['calls']:
            cal = c['callee']
            ncalls += 1
            name = canon(cal['def'])
            res = canon(cal.get('resolved')) if cal.get('resolved') else None
            ok, reason = callee_verdict(cal.get('krate'), name, res)
            if ok is None:
                if cal.get('krate') == F.raw['crate']:
                    continue
                ok, reason = False, 'callee from crate %s is not reviewed' % cal.get('krate')
            if not ok:
                key = '%s->%s' % (canon(m['def']), name)
                bad.setdefault(key, (reason, '%s:%d' % (c['sp'][0], c['sp'][1])))
    for key, (reason, where) in sorted(bad.items()):
        R.violation('T4-callees', key, reason, where)
    R.ob('T4-callees', 'crate', True, '%d call terminators in %d MIR bodies, all callees in the pure allow-list or crate-local' % (ncalls, len(F.raw['mir'])))
    R.extra['mir_bodies'] = len(F.raw['mir'])
    R.extra['call_sites'] = ncalls
    # T7: no address ever becomes a value: no expression of raw-pointer type, no pointer/reference/fn -> integer cast.
    # (safe code cannot dereference a raw pointer, so the only use of one is to observe an address, which Clone and moves
    # do not preserve)
    from .sir import walk as _walk, loc as _loc
    nexpr = 0
    ncast = 0
    for f in F.fns:
        if f.derived:
            continue
        for n in _walk(f.raw['body']):
            if not isinstance(n, dict):
                continue
            nexpr += 1
            ty = str(n.get('ty', ''))
            if ty.startswith(('*const ', '*mut ')):
                R.violation('T7-addresses', '%s:raw-pointer-expr' % canon(f.defpath),
                            'expression of raw-pointer type %s: an address is being observed' % ty, _loc(n))
            if n.get('k') == 'cast':
                ncast += 1
                sty = str(n['e'].get('ty', ''))
                if sty.startswith(('*const ', '*mut ', '&', 'fn(', 'for<', 'unsafe fn', 'extern ')) or ' {' in sty or sty.startswith('fn '):
                    R.violation('T7-addresses', '%s:pointer-cast' % canon(f.defpath),
                                'cast of %s to %s: an address (of a value or a function) becomes data' % (sty, n.get('ty')), _loc(n))
    # T1b: no local, temporary or intermediate value of a forbidden type either (a per-instance HashSet iterated inside
    # update() makes the result depend on RandomState even though no field has that type)
    forbidden_types = list(FORBIDDEN_HINT) + ['std::collections::hash', 'std::sync::atomic', 'std::thread', 'std::time', 'std::rc::Weak', 'std::sync::Weak',
                                              'std::hash::RandomState', 'std::collections::hash_map', 'std::collections::hash_set']
    seen_bad = {}
    for f in F.fns:
        if f.derived:
            continue
        for n in _walk(f.raw['body']):
            if isinstance(n, dict) and n.get('ty'):
                ty = str(n['ty'])
                for ft in forbidden_types:
                    if ft in ty:
                        seen_bad.setdefault((canon(f.defpath), ft), _loc(n))
    for (fn_, ft), where in sorted(seen_bad.items()):
        R.violation('T1-fields', '%s:local:%s' % (fn_, ft.split('::')[-1]),
                    'a value of type %s is used inside %s: %s' % (ft, fn_, FORBIDDEN_HINT.get(ft, 'shared, interior-mutable or non-deterministic state')), where)
    R.ob('T7-addresses', 'crate', True, '%d expressions (%d casts) in %d local bodies inspected: none has raw-pointer type and no cast starts from a pointer, reference or fn item' % (nexpr, ncast, len(F.fns)))
    R.extra['expressions_inspected'] = nexpr
    # T5: trait shape
    tr = F.traits.get('View')
    if not tr:
        R.violation('T5-trait-shape', 'View', 'trait View not found')
    else:
        ms = {m['name']: m for m in tr['methods']}
        up, la = ms.get('update'), ms.get('last')
        R.ob('T5-trait-shape', 'View::update', bool(up) and up['inputs'] == ['&mut Self', 'T'] and up['output'] == '()',
             'update%s -> %s' % (up['inputs'] if up else '?', up['output'] if up else '?'))
        R.ob('T5-trait-shape', 'View::last', bool(la) and la['inputs'] == ['&Self'] and la['output'] == 'std::option::Option<T>',
             'last%s -> %s: shared reference, cannot mutate without interior mutability (T1) or unsafe (T3)' % (
                 la['inputs'] if la else '?', la['output'] if la else '?'))
        extra = [m for m in ms if m not in ('update', 'last')]
        for m in extra:
            R.violation('T5-trait-shape', 'View::' + m, 'unexpected extra trait method %s' % m)
    # every impl of View::last takes &self (follows from the trait) — also check the impls' signatures
    for v in F.views:
        if v.last and v.last.inputs and not v.last.inputs[0].startswith('&') or (v.last and v.last.inputs[0].startswith('&mut')):
            R.violation('T5-trait-shape', v.name + '::last', 'last does not take &self: %s' % v.last.inputs)
    # T6: Clone impls of local ADTs are derived
    for imp in F.impls:
        if imp['trait'] == 'std::clone::Clone' and imp['self_ty'].get('adt') in local_adts:
            name = imp['self_ty']['adt'].split('::')[-1]
            R.ob('T6-clone-derived', name, imp['automatically_derived'] and any(m == 'derive macro:Clone' for m in imp['mac']),
                 'impl Clone for %s is %s' % (name, '#[derive(Clone)] (field-wise deep copy of owned T1 fields)'
                                               if imp['automatically_derived'] else 'hand-written: may share or drop state'),
                 '%s:%d' % (imp['where'][0], imp['where'][1]))
    # hand-written Drop impls could observe/alter state at clone/drop boundaries
    for imp in F.impls:
        if imp['trait'] in ('std::ops::Drop', 'std::marker::Copy') and imp['self_ty'].get('adt') in local_adts and imp['trait'] == 'std::ops::Drop':
            R.violation('T6-clone-derived', imp['self_ty']['adt'].split('::')[-1] + ':Drop', 'hand-written Drop impl')
    R.decline('nothing: determinism, purity of last() and clone independence all follow from T1-T6 for every view and chain')
