"""Run the rustc_private driver over a source tree (default: /repo's working tree) and load the facts.

The tree is only type-checked (`cargo +nightly check --lib`): nothing is linked or executed.
"""
import os
import shutil
import subprocess
import sys
import time
import uuid
import glob

from .sir import Facts

VERIF = os.path.dirname(os.path.dirname(os.path.abspath(__file__)))
DRIVER = os.path.join(VERIF, 'driver', 'target', 'release', 'sfa-driver')
CACHE = os.path.join(VERIF, '.cache')


class ExtractError(Exception):
    pass


def sysroot_lib():
    out = subprocess.run(['rustc', '+nightly', '--print', 'sysroot'], capture_output=True, text=True, check=True)
    return os.path.join(out.stdout.strip(), 'lib')


def ensure_driver():
    if os.path.exists(DRIVER):
        return
    env = dict(os.environ, CARGO_NET_OFFLINE='true')
    r = subprocess.run(['cargo', '+nightly', 'build', '--release', '--offline'],
                       cwd=os.path.join(VERIF, 'driver'), env=env, capture_output=True, text=True)
    if r.returncode != 0 or not os.path.exists(DRIVER):
        raise ExtractError('cannot build driver:\n' + r.stderr[-4000:])


def extract(src='/repo', target_dir=None, crate='sliding_features', keep=False):
    """Type-check `src` with the driver injected and return (Facts, info dict)."""
    ensure_driver()
    os.makedirs(CACHE, exist_ok=True)
    if target_dir is None:
        target_dir = os.environ.get('SFA_TARGET_DIR') or os.path.join(CACHE, 'target')
    os.makedirs(target_dir, exist_ok=True)
    import fcntl
    lock = open(os.path.join(target_dir, '.sfa.lock'), 'w')
    fcntl.flock(lock, fcntl.LOCK_EX)  # concurrent checks share the dependency cache: serialise
    try:
        return _extract_locked(src, target_dir, crate, keep)
    finally:
        fcntl.flock(lock, fcntl.LOCK_UN)
        lock.close()


def _extract_locked(src, target_dir, crate, keep):
    # cargo's freshness cache would skip the wrapper: drop the member's fingerprints
    for d in glob.glob(os.path.join(target_dir, 'debug', '.fingerprint', crate + '-*')):
        shutil.rmtree(d, ignore_errors=True)
    nonce = uuid.uuid4().hex
    out = os.path.join(CACHE, 'facts-%s.json' % nonce)
    env = dict(os.environ)
    env.update({
        'CARGO_NET_OFFLINE': 'true',
        'LD_LIBRARY_PATH': sysroot_lib() + ':' + env.get('LD_LIBRARY_PATH', ''),
        'RUSTFLAGS': '-Zmir-opt-level=0 -Awarnings',
        'RUSTC_WORKSPACE_WRAPPER': DRIVER,
        'CARGO_TARGET_DIR': target_dir,
        'SFA_FACTS_OUT': out,
        'SFA_NONCE': nonce,
        'SFA_CRATE': crate,
    })
    env.pop('RUSTC_WRAPPER', None)
    t0 = time.time()
    r = subprocess.run(['cargo', '+nightly', 'check', '--offline', '--lib', '--quiet'],
                       cwd=src, env=env, capture_output=True, text=True)
    dt = time.time() - t0
    if r.returncode != 0:
        raise ExtractError('cargo check failed on %s (the tree does not compile?):\n%s' % (src, r.stderr[-6000:]))
    if not os.path.exists(out):
        raise ExtractError('driver produced no fact file (stale cargo cache?)\n' + r.stderr[-2000:])
    try:
        facts = Facts(out)
    finally:
        if not keep:
            try:
                os.remove(out)
            except OSError:
                pass
    if facts.nonce != nonce:
        raise ExtractError('fact file nonce mismatch: stale replay')
    info = {'src': src, 'extract_s': round(dt, 2), 'fns': len(facts.fns), 'views': len(facts.views),
            'facts_file': out if keep else None}
    return facts, info


if __name__ == '__main__':
    f, info = extract(sys.argv[1] if len(sys.argv) > 1 else '/repo', keep=True)
    print(info)
