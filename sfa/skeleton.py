"""E7 — integer/typestate skeleton: constant propagation of `new(N..); update()^k; last()` with every float ⊤.

State: usize cells and buffer lengths are concrete, Option cells are Some/None/unknown, floats are ⊤ ('F').
No input value is ever supplied: conditions that depend on a float evaluate to unknown, and both outcomes are
followed (the set of abstract states is tracked). Used for warm-up thresholds (C08) and definite
counter-examples.
"""
from .vg import subterms, tstr, TRUE, FALSE

F = 'F'          # unknown float
NZ = 'NZ'        # a delivered input value of a positive-domain view: finite and non-zero


def _isflit(x):
    return isinstance(x, tuple) and len(x) == 2 and x[0] == 'flit'

U = None         # unknown boolean / value


class Seq:
    __slots__ = ('n',)

    def __init__(self, n):
        self.n = n

    def __eq__(self, o):
        return isinstance(o, Seq) and o.n == self.n

    def __hash__(self):
        return hash(('seq', self.n))

    def __repr__(self):
        return 'Seq(%s)' % self.n


class Opt:
    __slots__ = ('some', 'inner')

    def __init__(self, some, inner=None):
        self.some = some  # True / False / None(unknown)
        self.inner = inner  # Seq when the payload is an array / sequence (Option<[T; n]>), else None

    def __eq__(self, o):
        return isinstance(o, Opt) and o.some == self.some and o.inner == self.inner

    def __hash__(self):
        return hash(('opt', self.some, self.inner))

    def __repr__(self):
        return 'Opt(%s%s)' % (self.some, '' if self.inner is None else ', %r' % (self.inner,))


class Skel:
    def __init__(self, state, args=None, deliver=True, child_value=F):
        self.s = state
        self.args = args or {}
        self.deliver = deliver
        self.child_value = child_value
        self.memo = {}
        self.assume = {}

    def ev(self, t):
        if self.assume:
            for (at, av) in self.assume.values():
                if at is t or at == t:
                    return av
        k = id(t)
        h = self.memo.get(k)
        if h is not None and h[0] is t:
            return h[1]
        r = self._ev(t)
        self.memo[k] = (t, r)
        return r

    def _ev(self, t):
        k = t[0]
        if k == 'lit':
            if t[2] == 'i':
                return int(t[1])
            if t[2] == 'b':
                return bool(t[1])
            if t[2] == 'f' and isinstance(t[1], float):
                return ('flit', t[1])
            return F
        if k == 'in':
            return self.s.get(t[1], F)
        if k == 'arg':
            return self.args.get(t[1], F)
        if k == 'childlast':
            return Opt(True if self.deliver else (False if self.deliver is False else None))
        if k == 'child':
            return self.child_value
        if k == 'some':
            pv = self.ev(t[1])
            # the payload is kept when it is part of the skeleton: a sequence, an integer, or the one float fact the skeleton knows
            # (a delivered value of a positive-domain view is non-zero; a literal)
            return Opt(True, pv if (isinstance(pv, Seq) or (isinstance(pv, int) and not isinstance(pv, bool)) or pv == NZ) else None)
        if k == 'none':
            return Opt(False)
        if k == 'is_some':
            v = self.ev(t[1])
            if isinstance(v, Opt):
                return v.some
            return U
        if k == 'payload':
            inner = t[1]
            if inner[0] == 'phi':
                c = self.ev(inner[1])
                if c is True:
                    return self.ev(('payload', inner[2]))
                if c is False:
                    return self.ev(('payload', inner[3]))
            if inner[0] == 'some':
                return self.ev(inner[1])
            iv = self.ev(inner)
            if isinstance(iv, Opt) and iv.inner is not None:
                return iv.inner
            return F
        if k == 'phi':
            c = self.ev(t[1])
            if c is True:
                return self.ev(t[2])
            if c is False:
                return self.ev(t[3])
            cond = t[1]
            negated = False
            while cond[0] == 'op' and cond[1] == 'not':
                negated = not negated
                cond = cond[2][0]
            if cond[0] == 'is_some':
                # evaluate each side under the corresponding typestate assumption on the tested option
                X = cond[1]
                sa = Skel(self.s, self.args, self.deliver, self.child_value)
                sa.assume = dict(self.assume)
                sa.assume[id(X)] = (X, Opt(not negated))
                sb = Skel(self.s, self.args, self.deliver, self.child_value)
                sb.assume = dict(self.assume)
                sb.assume[id(X)] = (X, Opt(negated))
                a, b = sa.ev(t[2]), sb.ev(t[3])
            else:
                a, b = self.ev(t[2]), self.ev(t[3])
            if a == b:
                return a
            if isinstance(a, Opt) and isinstance(b, Opt):
                return Opt(None)
            if isinstance(a, Seq) and isinstance(b, Seq):
                return ('amb', a, b, t[1])
            return F if (a is F or b is F or a == NZ or b == NZ or _isflit(a) or _isflit(b)) else U
        if k == 'len':
            v = self.ev(t[1])
            if isinstance(v, Seq):
                return v.n
            return U
        if k in ('push_back', 'push_front', 'insert'):
            v = self.ev(t[1])
            return Seq(v.n + 1) if isinstance(v, Seq) and v.n is not None else Seq(None)
        if k in ('pop_front', 'pop_back'):
            v = self.ev(t[1])
            return Seq(max(v.n - 1, 0)) if isinstance(v, Seq) and v.n is not None else Seq(None)
        if k == 'remove':
            v = self.ev(t[1])
            return Seq(max(v.n - 1, 0)) if isinstance(v, Seq) and v.n is not None else Seq(None)
        if k in ('set', 'swap', 'set_back', 'set_front'):
            return self.ev(t[1])
        if k == 'seq_new':
            return Seq(0)
        if k == 'seq_rep':
            n = self.ev(t[2])
            return Seq(n if isinstance(n, int) else None)
        if k == 'seq_lit':
            return Seq(len(t[1]))
        if k == 'ext':
            b, c = self.ev(t[1]), self.ev(t[3])
            return Seq(b.n + c) if isinstance(b, Seq) and b.n is not None and isinstance(c, int) else Seq(None)
        if k == 'fold':
            init = self.ev(t[3])
            if isinstance(init, Seq):
                return init
            return F if init is F else U
        if k in ('get', 'front', 'back', 'reduce', 'mu', 'idx'):
            return F
        if k == 'op':
            return self.op(t)
        if k == 'tuple':
            return tuple(self.ev(x) for x in t[1])
        return U

    def op(self, t):
        name, args = t[1], t[2]
        if name == 'not':
            v = self.ev(args[0])
            return None if v is None or not isinstance(v, bool) else (not v)
        if name == 'and':
            vs = [self.ev(a) for a in args]
            if any(v is False for v in vs):
                return False
            if all(v is True for v in vs):
                return True
            return U
        if name == 'or':
            vs = [self.ev(a) for a in args]
            if any(v is True for v in vs):
                return True
            if all(v is False for v in vs):
                return False
            return U
        if name in ('iadd', 'isub', 'imul', 'imin', 'imax', 'saturating_sub', 'saturating_add', 'wrapping_add', 'wrapping_sub', 'idiv', 'irem'):
            a, b = self.ev(args[0]), self.ev(args[1])
            if isinstance(a, int) and isinstance(b, int) and not isinstance(a, bool):
                if name in ('idiv', 'irem'):
                    if b == 0:
                        return U
                    return a // b if name == 'idiv' else a % b
                r = {'iadd': a + b, 'isub': a - b, 'imul': a * b, 'imin': min(a, b), 'imax': max(a, b), 'saturating_sub': max(a - b, 0),
                     'saturating_add': a + b, 'wrapping_add': a + b, 'wrapping_sub': a - b}[name]
                return r
            return U
        if name in ('eq', 'ne', 'lt', 'le', 'gt', 'ge'):
            a, b = self.ev(args[0]), self.ev(args[1])
            if isinstance(a, int) and isinstance(b, int) and not isinstance(a, bool) and not isinstance(b, bool):
                return {'eq': a == b, 'ne': a != b, 'lt': a < b, 'le': a <= b, 'gt': a > b, 'ge': a >= b}[name]
            if _isflit(a) and _isflit(b):
                a, b = a[1], b[1]
                return {'eq': a == b, 'ne': a != b, 'lt': a < b, 'le': a <= b, 'gt': a > b, 'ge': a >= b}[name]
            # a delivered value in a positive input domain is not zero
            for x, y in ((a, b), (b, a)):
                if x == NZ and _isflit(y) and y[1] == 0.0 and name in ('eq', 'ne'):
                    return name == 'ne'
            return U
        if name in ('from_int',):
            return F
        return F


def state_key(s):
    return tuple(sorted((k, v if not isinstance(v, tuple) else str(v)) for k, v in s.items()))


def step(m, states, deliver=True, max_states=64, child_value=F):
    """One update(): returns (next states, problems). Each state is a dict cell -> abstract value."""
    out = {}
    problems = []
    for s in states:
        sk = Skel(s, deliver=deliver, child_value=child_value)
        any_exit = False
        for ex in m.up_exits:
            feas = True
            unknown_int = False
            for c in ex.pc:
                if isinstance(c, tuple) and c and c[0] == 'inloop':
                    continue
                v = sk.ev(c)
                if v is False:
                    feas = False
                    break
            if not feas:
                continue
            any_exit = True
            ns = dict(s)
            for cell, t in ex.fields.items():
                if t == ('in', cell):
                    continue
                v = sk.ev(t)
                if isinstance(v, tuple) and v and v[0] == 'amb':
                    # length depends on an undecided (float) condition
                    problems.append('length of %s depends on data: %s' % (cell, tstr(v[3])[:60]))
                    v = Seq(None)
                ns[cell] = v
            out[state_key(ns)] = ns
            if len(out) > max_states:
                problems.append('too many abstract states')
                return list(out.values()), problems
        if not any_exit:
            problems.append('no exit of update() is feasible from state %s' % {k: v for k, v in s.items() if not v is F})
    return list(out.values()), problems


def ready(m, s, deliver=True):
    sk = Skel(s, deliver=deliver)
    v = sk.ev(('is_some', m.last_ret))
    return v


def init_states(m, args):
    """Abstract states after each public constructor called with the given usize arguments."""
    res = []
    for mm in m.ctor_models:
        if mm['init'] is None:
            continue
        fn = mm['fn']
        if not fn.vis.startswith('Public'):
            continue
        amap = {}
        ints = [(pid, name) for (pid, name, ty) in fn.param_ids() if ty == 'usize']
        if len(ints) != len(args):
            continue
        for (pid, name), a in zip(ints, args):
            amap[name] = a
        sk = Skel({}, amap)
        # constructor preconditions
        okpre = True
        for c in mm['pre']:
            if sk.ev(c) is False:
                okpre = False
        if not okpre:
            res.append((fn.name, None))
            continue
        s = {}
        for cell, t in mm['init'].items():
            s[cell] = sk.ev(t)
        res.append((fn.name, s))
    return res
