"""Runners for C12 (degree typing), C10 (linearity), C04 (moving averages) on top of e_typing / e_window."""
import hashlib
from .e_typing import analyse_view, Degree, Lin, POLY, TOP, LIN, ZERO, COEF
from .e_window import (flow, view_by_name, check_windows, check_accumulators, no_raw_in_state)
from .model import model
from .vg import subterms, tstr, op, lit, is_some
from . import spec


def _h(s):
    return hashlib.md5(s.encode()).hexdigest()[:6]


def inert_none_path(F, R, names, rule='Q1'):
    """On every exit of update() on which the input child reports nothing, no field may change."""
    views = view_by_name(F)
    for n in names:
        v = views.get(n)
        if v is None:
            continue
        m = model(F, v)
        if not v.children_fields():
            continue
        bad = []
        seen = False
        input_kids = set()
        for cp, feeds in m.up_vg.child_fed.items():
            for pc, arg, node in feeds:
                if arg[0] == 'arg':
                    input_kids.add(cp)
        from .terms import nondelivering, resolve_by
        lasts = set()
        for ex in m.up_exits:
            for t in list(ex.fields.values()) + [c for c in ex.pc if isinstance(c, tuple)]:
                for x in subterms(t):
                    if x[0] == 'is_some' and x[1][0] == 'childlast' and x[1][1] in input_kids:
                        lasts.add(x)
        for ex in m.up_exits:
            if not input_kids:
                break
            if nondelivering(ex.pc, input_kids):
                seen = True
                for k, t in ex.fields.items():
                    if t != ('in', k):
                        bad.append(k)
                continue
            # an exit that is also reachable when the inner view reports nothing: its writes must vanish under that assumption
            feasible_none = True
            for c in ex.pc:
                if not isinstance(c, tuple) or c[0] == 'inloop':
                    continue
                cc = c
                for l in lasts:
                    cc = resolve_by(cc, l, False)
                from .terms import eval3
                if eval3(cc, {l: False for l in lasts}) is False:
                    feasible_none = False
            if not feasible_none:
                continue
            for k, t in ex.fields.items():
                if t == ('in', k):
                    continue
                tt = t
                for l in lasts:
                    tt = resolve_by(tt, l, False)
                if any(x in lasts for x in subterms(tt)) or tt != ('in', k):
                    # still written when nothing is delivered
                    if tt != ('in', k):
                        bad.append(k)
                else:
                    seen = True
            if any(any(x in lasts for x in subterms(t)) for t in ex.fields.values()):
                seen = True
        gated = seen or not m.touched
        R.ob(rule, n, not bad and gated,
             'the exit on which the inner view reports nothing leaves every field unchanged' if (not bad and gated) else
             ('field(s) %s are written although the inner view reported nothing' % sorted(set(bad)) if bad else
              'state is written without testing the inner view\'s last()'), v.file)


def no_absolute_thresholds(F, R, names, rule='G0'):
    """Guards must compare like with like or against literal zero: a comparison of a dimensional quantity with an
    absolute constant (epsilon, a non-zero literal) makes the result depend on the magnitude of the data, so the
    defining formula is not applied to small-magnitude (or large-magnitude) input."""
    views = view_by_name(F)
    for n in names:
        v = views.get(n)
        if v is None:
            continue
        dom, tau, out, m = analyse_view(F, v, Degree)
        bad = [(msg, term) for rule_, msg, term in dom.complaints if rule_ == 'D-cmp']
        R.ob(rule, n, not bad, 'every guard compares quantities of the same degree or tests against literal zero' if not bad else
             'absolute threshold: %s: %s' % bad[0], v.file)


def offset_invariance(F, R, tier='quick'):
    """x -> x + b leaves HLNormalizer, Vsct, NoiseEliminationTechnology and EhlersFisherTransform unchanged: abstract execution
    from the initial state with one symbol per input, every value carrying its *shift coefficient* k (value(x + b) = value(x) + k·b
    for linear forms; a non-linear operation or a comparison is admitted only on operands whose shifts cancel, and then has
    k = 0; anything else is 'unknown'). Every reported value must have k = 0 and no comparison may move with b."""
    from .lti import transient
    views = view_by_name(F)
    Ns = range(1, 9) if tier == 'quick' else range(1, 25)
    for n in ('HLNormalizer', 'Vsct', 'NoiseEliminationTechnology', 'EhlersFisherTransform'):
        v = views.get(n)
        if v is None:
            R.violation('D-shift', n, 'not found')
            continue
        m = model(F, v)
        bad = []
        cnt = 0
        for N in Ns:
            mm = [x for x in m.ctor_models if x['fn'].name == 'new' and x['init'] is not None]
            if not mm:
                continue
            ints = [nm for (pid, nm, ty) in mm[0]['fn'].param_ids() if ty == 'usize']
            reg = {'n': 0, 'shift': {}, 'problems': []}
            outs, probs = transient(m, 'new', {ints[0]: N}, 3 * N + 6, reg)
            if outs is None:
                continue
            for k, o in enumerate(outs):
                if o is None:
                    continue
                cnt += 1
                if o == 'nl' or not (isinstance(o, tuple) and o[0] == 'shift'):
                    bad.append('N=%d: output %d could not be evaluated' % (N, k))
                    break
                if o[1] is None or abs(o[1]) > 1e-9:
                    bad.append('N=%d: output %d %s when every input is shifted by b' % (N, k, 'is not shown to stay put' if o[1] is None else 'moves by %.4g·b' % o[1]))
                    break
            if reg['problems'] and not bad:
                bad.append('N=%d: %s' % (N, reg['problems'][0]))
            structural = [p_ for p_ in (probs or []) if 'depends on the data' in p_ or 'structurally different' in p_]
            if structural and not bad:
                bad.append('N=%d: %s' % (N, structural[0]))
        R.ob('D-shift', n, not bad and cnt > 0, 'adding a constant to every input changes no reported value and no branch (%d outputs from the initial state, N = %d..%d)' % (cnt, Ns[0], Ns[-1])
             if not bad and cnt > 0 else (bad[0] if bad else 'nothing analysed'), v.file)


def vst_degenerate_select(t):
    """phi(x == 0 ? .. : ..) (possibly under Some / nested under the readiness phi): the statement's own flat-window case."""
    from .terms import relation
    if not (isinstance(t, tuple) and t and t[0] == 'phi'):
        return False
    c = t[1]
    for x in subterms(c):
        if x[0] == 'op' and x[1] in ('eq', 'ne') and len(x[2]) == 2 and (x[2][1] == lit(0.0) or x[2][0] == lit(0.0)):
            return True
    return False


def run_c12(F, R, tier='quick'):
    R.trust('rustc front end; sfa/vg.py; degree typing rules in sfa/e_typing.py; degree table in sfa/spec.py (from the property)')
    R.assume('real arithmetic for general a > 0; bit-exact for a a power of two; moving averages supplied to EFT/PFE are degree-1 views')
    views = view_by_name(F)
    table = [(n, 0) for n in spec.DEGREE0] + [(n, 1) for n in spec.DEGREE1]
    for n, want in table:
        v = views.get(n)
        if v is None:
            R.violation('D0', n, 'view %s not found' % n)
            continue
        dom, tau, out, m = analyse_view(F, v, Degree)
        ok = True
        for (rule, msg, term), raw in zip(dom.complaints, dom.complaint_terms):
            # reviewed exception: Vst's own degenerate case std = 0 -> x (stated in the property) mixes degree 1 into a degree-0
            # view. Only that selection is excepted: a phi whose condition tests a value against literal zero for equality.
            if n == 'Vst' and rule == 'D-mix' and '[in last]' in msg and ('(1 vs 0)' in msg or '(0 vs 1)' in msg) and (
                    vst_degenerate_select(raw) or msg.startswith(('returns quantities', 'selects between quantities'))):
                continue
            ok = False
            R.violation(rule, '%s:%s' % (n, _h(term)), '%s: %s' % (msg, term), v.file)
        outok = out in (want, POLY) or (n == 'Vst' and out == TOP and ok)
        R.ob('D-out', n, outok and ok, 'every operation is degree-consistent; output has homogeneity degree %s' % want if (outok and ok) else
             'output degree is %s, the property needs %s' % (out, want), v.file)
    no_raw_in_state(F, R, [n for n, _ in table], 'R2s')
    R.floor('D-out', 28)
    offset_invariance(F, R, tier)
    R.floor('D-shift', 4)
    # negation clause, for the members whose code has no mirrored branches: parity typing (every float is ODD, EVEN or zero under
    # x -> -x; sums need equal parity, products add parities, roots / logarithms / orderings need EVEN operands)
    from .e_typing import Parity, ODD
    for n in ('Vsct', 'Vst', 'CorrelationTrendIndicator', 'TrendFlex', 'ReFlex'):
        v = views.get(n)
        if v is None:
            R.violation('P-out', n, 'view %s not found' % n)
            continue
        dom, tau, out, m = analyse_view(F, v, Parity)
        ok = True
        for rule, msg, term in dom.complaints:
            ok = False
            R.violation(rule, '%s:%s' % (n, _h(term)), '%s: %s' % (msg, term), v.file)
        R.ob('P-out', n, ok and out == ODD, 'every operation is parity-consistent and no ordering test moves with the sign of the input: negating every input negates the output'
             if ok and out == ODD else 'output parity is %s, the property needs ODD (negated input, negated output)' % out, v.file)
    R.floor('P-out', 5)
    # offset clause for CorrelationTrendIndicator: the shift analysis cannot see the cancellation inside n·Σx² − (Σx)², but the clause
    # is a consequence of the structure C06 verifies: the five sums run over the whole window with t = position, and the reported
    # value is Pearson's r = (nΣxt − ΣxΣt)/sqrt((nΣx² − (Σx)²)(nΣt² − (Σt)²)), whose numerator and first factor are n²·cov(x,t) and
    # n²·var(x) -- both unchanged by x -> x + b -- guarded by the variance terms only. Those structural premises are checked here.
    from .e_trend import cti_rules
    n0 = len(R.obligations)
    cti_rules(F, R)
    cti_ok = all(o[2] for o in R.obligations[n0:]) and any(o[0] == 'CTI-r' for o in R.obligations[n0:])
    R.ob('D-shift-structure', 'CorrelationTrendIndicator', cti_ok,
         'the reported value is the centred Pearson ratio of window sums: invariant under a common offset when n is the number of summed values (real arithmetic)'
         if cti_ok else 'the centred-ratio structure the offset clause rests on is not verified (see the CTI-* findings)')
    if cti_ok:
        nk = getattr(cti_rules, 'n_kind', '?')
        R.ob('D-shift-structure', 'CorrelationTrendIndicator:n-is-window-length', nk == 'count',
             'n is the number of values the sums run over' if nk == 'count' else
             'n is the configured window length while the sums run over the k <= N values present: before the window is full '
             'n·Σx² − (Σx)² and n·Σxt − ΣxΣt move with a common offset of the inputs (CTI(4) on 1,2 reports 0.870388, on 11,12 0.626372)')
    # negation clause for NoiseEliminationTechnology: its code orders sign-changing quantities, so parity typing rejects it by design;
    # the clause is a consequence of structure C06 verifies: every pair of window values is compared exactly once and contributes
    # +1 / -1 / 0 when the newer value is larger / smaller / equal -- an odd function of the difference, with ties neutral -- divided
    # by the pair count. Negating the input negates every difference, hence the sum. Those premises are checked here.
    from .e_trend import net_rules
    n1 = len(R.obligations)
    net_rules(F, R, tier)
    net_ok = all(o[2] for o in R.obligations[n1:]) and any(o[0] == 'NET-P3' for o in R.obligations[n1:])
    R.ob('P-structure', 'NoiseEliminationTechnology', net_ok,
         'pair contributions are an odd function of the pair difference (ties 0) over all pairs: negating every input negates the output'
         if net_ok else 'the antisymmetric pair-sum structure the negation clause rests on is not verified (see the NET-* findings)')
    # Min(-x) = -Max(x): both are verified to be the extremum -- in opposite directions -- of the same exact window of inner
    # outputs (window rule W1, extremum rules X1/X2 with the scan direction); min(-w) = -max(w) for any window w.
    from .e_window import check_extrema, check_windows
    n2 = len(R.obligations)
    check_windows(F, R, ['Min', 'Max'], 'W1')
    check_extrema(F, R, {'Min': 1, 'Max': 1})
    mm_ok = all(o[2] for o in R.obligations[n2:]) and len(R.obligations) > n2
    R.ob('P-structure', 'Min<->Max', mm_ok, 'Min and Max are the minimum and the maximum of the same exact window: negating the input swaps them with a sign'
         if mm_ok else 'the extremum structure the Min <-> -Max clause rests on is not verified (see the W1/X* findings)')
    R.decline('negation symmetry of the views with mirrored branches (Rsi -> 100 - Rsi, MyRSI, HLNormalizer) is not decided: it needs pairing of mirrored branches; decided for Vsct, Vst, CTI, TrendFlex, ReFlex by parity typing for NET from its verified antisymmetric pair sum and for Min <-> -Max from the verified extremum structure')


def run_c10(F, R):
    R.trust('rustc front end; sfa/vg.py; linearity typing rules in sfa/e_typing.py')
    R.assume('real arithmetic (rounding is not decided); integer/readiness guards depend on the number of inputs, not their values')
    views = view_by_name(F)
    for n in spec.LINEAR_VIEWS:
        v = views.get(n)
        if v is None:
            R.violation('L0', n, 'view %s not found' % n)
            continue
        dom, tau, out, m = analyse_view(F, v, Lin)
        ok = True
        for rule, msg, term in dom.complaints:
            ok = False
            R.violation(rule, '%s:%s' % (n, _h(term)), '%s: %s' % (msg, term), v.file)
        for t in dom.datadep:
            ok = False
            R.violation('B1', '%s:%s' % (n, _h(tstr(t))), 'data-dependent branch/comparison in a linear view: %s' % tstr(t)[:120], v.file)
        nonlin = [c for c, ty in tau.items() if ty == TOP]
        R.ob('L-cells', n, ok and not nonlin, 'every float the view computes is a linear form in the inputs with input-independent coefficients (%d state cells), no data-dependent branch' % len(tau)
             if ok and not nonlin else 'non-linear state cell(s): %s' % nonlin, v.file)
        R.ob('L-out', n, out in (LIN, ZERO) and ok, 'output is linear homogeneous in the input stream' if out in (LIN, ZERO) else 'output type %s' % out, v.file)
    inert_none_path(F, R, spec.LINEAR_VIEWS, 'Q1')
    no_raw_in_state(F, R, spec.LINEAR_VIEWS, 'R2s')
    # unit DC gain of the window averages follows from the accumulator structure (sum of exactly the window / its weight)
    check_windows(F, R, ['Sma', 'Alma', 'Cumulative'], 'W1')
    check_accumulators(F, R, {'Sma': 1, 'Alma': 2, 'Cumulative': 1})
    R.floor('L-cells', 8)
    R.floor('L-out', 8)


def ema_convex(F, R):
    """Ema's update is x·w + e·(1−w) with the same w, w = alpha/(N+1)."""
    v = view_by_name(F).get('Ema')
    if v is None:
        R.violation('B2-ema', 'Ema', 'not found')
        return
    m = model(F, v)
    child = None
    found = None
    why = 'no convex update x·w + e·(1−w) found'
    for cell, t in m.up_fields.items():
        for x in subterms(t):
            if x[0] == 'op' and x[1] == 'add' and len(x[2]) == 2:
                a, b = x[2]
                for p, q in ((a, b), (b, a)):
                    if p[0] == 'op' and p[1] == 'mul' and q[0] == 'op' and q[1] == 'mul':
                        for (val, w) in (p[2], p[2][::-1]):
                            if val[0] != 'child':
                                continue
                            for (prev, omw) in (q[2], q[2][::-1]):
                                if prev[0] == 'in' and omw == op('sub', lit(1.0), w):
                                    found = (cell, w, prev)
    if found:
        cell, w, prev = found
        # w must be alpha / (1 + N) (either order of the sum)
        ok_w = False
        if w[0] == 'op' and w[1] == 'div':
            num, den = w[2]
            if num[0] == 'in' and den[0] == 'op' and den[1] == 'add':
                parts = set(den[2])
                if lit(1.0) in parts and any(x[0] == 'op' and x[1] == 'from_int' and x[2][0][0] == 'in' for x in parts):
                    ok_w = True
        # the previous-value register must be the cell holding the last average
        R.ob('B2-ema', 'Ema:convex', True, 'update is x·w + %s·(1−w) with the same weight expression w = %s' % (tstr(prev), tstr(w)), v.file)
        R.ob('B2-ema', 'Ema:weight', ok_w, 'w = alpha/(1 + N)' if ok_w else 'weight %s is not alpha/(N+1)' % tstr(w), v.file)
        # default alpha = 2 and N >= 1 give w in (0, 1]
        alpha_ok = False
        for mm in m.ctor_models:
            if mm['fn'].name == 'new' and mm['init']:
                al = [t for c, t in mm['init'].items() if t == lit(2.0)]
                alpha_ok = bool(al)
        R.ob('B2-ema', 'Ema:alpha', alpha_ok, 'Ema::new uses alpha = 2, so w = 2/(N+1) ∈ (0, 1] for N >= 1' if alpha_ok else 'default alpha is not 2', v.file)
        # seeding: first value under an integer guard
        seed_ok = False
        tt = m.up_fields.get(cell)
        for x in subterms(tt):
            if x[0] == 'phi' and x[2][0] == 'child':
                c = x[1]
                if all(y[0] != 'child' for y in subterms(c)):
                    seed_ok = True
        R.ob('B2-ema', 'Ema:seed', seed_ok, 'e_0 = x_0 under a guard that does not depend on data' if seed_ok else 'no data-independent seeding branch e_0 = x_0', v.file)
    else:
        R.violation('B2-ema', 'Ema:convex', why, v.file)


def ema_seed_and_alpha(F, R):
    """Ema::new uses alpha = 2; the first delivered value seeds the average under a guard that does not depend on data."""
    v = view_by_name(F).get('Ema')
    if v is None:
        return
    m = model(F, v)
    # default alpha = 2: the weight of the newest input in the value reported by Ema::new(N) is 2/(N+1) (read off the linear
    # forms from the initial state, so it does not matter where or under which name the constant is stored)
    from .lti import transient
    alpha_ok = True
    why = ''
    for N in (1, 2, 5, 9):
        ints = [nm for (pid, nm, ty) in [x for x in m.ctor_models if x['fn'].name == 'new'][0]['fn'].param_ids() if ty == 'usize']
        outs, probs = transient(m, 'new', {ints[0]: N}, N + 3)
        o = outs[-1] if outs else None
        if not isinstance(o, dict) or abs(o.get('u%d' % (N + 2), 0.0) - 2.0 / (N + 1)) > 1e-12:
            alpha_ok = False
            why = 'Ema::new(%d): weight of the newest input is %s, expected 2/(N+1)' % (N, o.get('u%d' % (N + 2)) if isinstance(o, dict) else o)
    R.ob('B2-ema', 'Ema:alpha', alpha_ok, 'Ema::new uses alpha = 2, so w = 2/(N+1) ∈ (0, 1] for N >= 1' if alpha_ok else why, v.file)
    # two regimes only, for every N: the first delivered value seeds the state, every later one applies ONE recursion term
    # (a third, integer-gated regime -- a warm-up for some window lengths or some counts -- is a different filter)
    from .terms import cases as _cases
    regimes_ok = True
    why_reg = ''
    for cell, tt in m.up_fields.items():
        if cell in ('n_observed_values',) or tt is None:
            continue
        try:
            cs_ = [(c_, l_) for c_, l_ in _cases(tt)]
        except OverflowError:
            regimes_ok, why_reg = False, 'too many cases in %s' % cell
            continue
        from .terms import nondelivering as _nd
        leaves = []
        for c_, l_ in cs_:
            if _nd(c_) or l_ == ('in', cell):
                continue
            if l_ not in leaves:
                leaves.append(l_)
        leaves = [l_[1] if (isinstance(l_, tuple) and l_ and l_[0] == 'some') else l_ for l_ in leaves]    # (a register kept in an Option)
        floaty = [l_ for l_ in leaves if any(x[0] == 'child' for x in subterms(l_))]
        if len(floaty) > 2 or (len(floaty) == 2 and not any(l_[0] == 'child' for l_ in floaty)):
            regimes_ok = False
            why_reg = 'cell %s takes %d different data-dependent forms depending on counters/parameters: %s' % (cell, len(floaty), [tstr(l_)[:50] for l_ in floaty][:3])
    R.ob('B2-ema', 'Ema:regimes', regimes_ok, 'exactly two regimes for every window length: seed with the first value, then one recursion' if regimes_ok else why_reg, v.file)
    seed_ok = False

    def _is_seed(x):
        return x[0] == 'phi' and (x[2][0] == 'child' or (x[2][0] == 'some' and x[2][1][0] == 'child')) and all(y[0] != 'child' for y in subterms(x[1]))
    for cell, tt in m.up_fields.items():
        for x in subterms(tt):
            if _is_seed(x):
                seed_ok = True
    R.ob('B2-ema', 'Ema:seed', seed_ok, 'e_0 = x_0 under a guard that does not depend on data' if seed_ok else 'no data-independent seeding branch e_0 = x_0', v.file)
    # the seeding guard must be true for the first delivered value only: integer skeleton, N = 1..8
    from . import skeleton as sk
    bad = []
    for N in range(1, 9):
        for cname, s0 in sk.init_states(m, [N]):
            if s0 is None:
                continue
            states = [s0]
            for k in range(1, 2 * N + 4):
                prev = states
                states, probs = sk.step(m, states)
                # which branch was taken: evaluate the seeding conditions on the previous state
                for st in prev:
                    e = sk.Skel(st)
                    for cell, tt in m.up_fields.items():
                        for x in subterms(tt):
                            if _is_seed(x):
                                c = e.ev(x[1])
                                if c is True and k > 1:
                                    bad.append('N=%d: the seeding branch is taken again at delivered value %d' % (N, k))
                                if c is not True and k == 1:
                                    bad.append('N=%d: the first delivered value does not seed the average' % N)
    R.ob('B2-ema', 'Ema:seed-once', not bad, 'the seeding branch is taken for the first delivered value and never again (N = 1..8)' if not bad else bad[0], v.file)


def alma_params(F, R):
    """Alma: centre m = offset·(N+1), width s = N/sigma as expressions of the constructor arguments; weight = exp(·) > 0."""
    v = view_by_name(F).get('Alma')
    if v is None:
        return
    m = model(F, v)
    ok_m = ok_s = False
    for mm in m.ctor_models:
        if mm['init'] is None:
            continue
        fargs = [('arg', nm) for (pid, nm, ty) in mm['fn'].param_ids() if ty == 'T' and nm]
        iargs = [('arg', nm) for (pid, nm, ty) in mm['fn'].param_ids() if ty == 'usize' and nm]
        if len(fargs) < 2 or not iargs:
            continue
        wl = op('from_int', iargs[0])
        centre_arg = None
        for c, t in mm['init'].items():
            for a in fargs:
                if t in (op('mul', a, op('add', wl, lit(1.0))), op('mul', op('add', wl, lit(1.0)), a), op('mul', a, op('add', lit(1.0), wl)),
                         op('mul', op('add', lit(1.0), wl), a)):
                    ok_m = True
                    centre_arg = a
        for c, t in mm['init'].items():
            for a in fargs:
                # the width N/sigma itself, or a constant derived from it that is stored instead (e.g. 2·s·s)
                if a != centre_arg and any(x == op('div', wl, a) for x in subterms(t)):
                    ok_s = True
    R.ob('B2-alma', 'Alma:centre', ok_m, 'centre = offset·(N+1)' if ok_m else 'centre is not offset·(N+1)', v.file)
    # constructors without float arguments (the defaults) must be the parametrised constructor at constant arguments: every
    # parameter cell of the former equals the latter's with literals substituted for offset and sigma
    import itertools
    from .terms import map_term
    customs = [mm for mm in m.ctor_models if mm['init'] is not None and len([1 for (pid, nm, ty) in mm['fn'].param_ids() if ty == 'T' and nm]) >= 2]
    for mm in m.ctor_models:
        if mm['init'] is None or not mm['fn'].vis.startswith('Public'):
            continue
        if [1 for (pid, nm, ty) in mm['fn'].param_ids() if ty == 'T' and nm] or not customs:
            continue
        cu = customs[0]
        fargs = [('arg', nm) for (pid, nm, ty) in cu['fn'].param_ids() if ty == 'T' and nm]
        lits_ = sorted({x for t in mm['init'].values() if isinstance(t, tuple) for x in subterms(t) if x[0] == 'lit' and len(x) > 2 and x[2] == 'f'}, key=repr)
        cells = [c for c in cu['init'] if c not in m.touched and isinstance(cu['init'][c], tuple) and any(x in fargs for x in subterms(cu['init'][c]))]
        ok_def = False
        for combo in itertools.permutations(lits_, len(fargs)) if len(lits_) >= len(fargs) and len(lits_) <= 6 else []:
            sub = dict(zip(fargs, combo))
            if all(map_term(cu['init'][c], lambda x, sub=sub: sub.get(x, x)) == mm['init'].get(c) for c in cells):
                ok_def = True
                break
        R.ob('B2-alma', 'Alma:defaults:%s' % mm['fn'].name, ok_def and bool(cells),
             '%s() is %s() at constant arguments: same centre and width expressions' % (mm['fn'].name, cu['fn'].name) if ok_def and cells else
             'the parameter cells set by %s() are not those of %s() at constant offset/sigma: the default kernel is not centred at offset·(N+1) with width N/sigma' % (mm['fn'].name, cu['fn'].name), v.file)
    R.ob('B2-alma', 'Alma:width', ok_s, 'width = N/sigma' if ok_s else 'width is not N/sigma', v.file)
    # every weight pushed/added is exp(...) (positive)
    fl = flow(F, v)
    wq = [q for q, i in fl.queues.items() if i['V'] is not None and i['V'][0] == 'op' and i['V'][1] == 'exp']
    # the kernel position of the incoming value is its index in the window: len of the queue it is pushed onto
    idx_ok = False
    for q, i in fl.queues.items():
        V = i['V']
        if V is not None and V[0] == 'op' and V[1] == 'exp':
            lens = [x[2][0] for x in subterms(V) if x[0] == 'op' and x[1] == 'from_int' and x[2][0][0] == 'len']
            pushed_onto = None
            for q2, i2 in fl.queues.items():
                qv = fl.m.up_fields.get(q2)
                if qv is None or i2['V'] is None or i2['V'][0] != 'child':
                    continue
                for x in subterms(qv):
                    if x[0] == 'push_back' and x[2][0] == 'child':
                        pushed_onto = x[1]
            if lens and pushed_onto is not None and all(x[1] == pushed_onto for x in lens):
                idx_ok = True
    R.ob('B2-alma', 'Alma:kernel-index', idx_ok, 'the weight of the incoming value is the kernel at its own index (length of the window after eviction, before the push)' if idx_ok else
         'the kernel position of the incoming value is not its index in the post-eviction window', v.file)
    R.ob('B2-alma', 'Alma:positive-weights', bool(wq), 'weights are exp(·) > 0 and stored per sample in %s' % wq if wq else 'stored weights are not of the form exp(·)', v.file)


def run_c04(F, R, tier='quick'):
    R.trust('rustc front end; sfa/vg.py; sfa/solve.py; linearity typing')
    R.assume('real arithmetic; N >= 1; default alpha; sigma > 0, offset in [0,1]')
    views = view_by_name(F)
    for n in ('Sma', 'Ema', 'Alma'):
        v = views.get(n)
        if v is None:
            R.violation('B1', n, 'not found')
            continue
        dom, tau, out, m = analyse_view(F, v, Lin)
        ok = True
        for rule, msg, term in dom.complaints:
            ok = False
            R.violation(rule, '%s:%s' % (n, _h(term)), '%s: %s' % (msg, term), v.file)
        for t in dom.datadep:
            ok = False
            R.violation('B1', '%s:%s' % (n, _h(tstr(t))), 'data-dependent branch in a moving average (breaks monotonicity / the recursion for some inputs): %s' % tstr(t)[:120], v.file)
        R.ob('B1', n, ok, 'no data-dependent branch; every value is a linear form in the inputs', v.file)
    check_windows(F, R, spec.WINDOW_VIEWS_C04, 'W1')
    check_accumulators(F, R, {'Sma': 1, 'Alma': 2})
    ema_seed_and_alpha(F, R)
    from .e_lti_props import ema_recurrence, ema_transient, convex_transient
    ema_recurrence(F, R, tier)
    ema_transient(F, R, tier)
    convex_transient(F, R, tier)
    R.floor('B1-convex', 3)
    alma_params(F, R)
    inert_none_path(F, R, ['Sma', 'Ema', 'Alma'], 'Q1')
    no_raw_in_state(F, R, ['Sma', 'Ema', 'Alma'], 'R2s')
    R.floor('B1', 3)
    R.floor('M0', 2)
    R.floor('B2-ema', 4)
    R.floor('B2-alma', 4)
    R.decline('that Alma\'s per-sample weight values form the Gaussian kernel positioned as stated over the live window (weights are attached at insertion time) is a value property; rounding is not decided')
