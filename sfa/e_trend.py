"""C06 — trend indicators (NET, CenterOfGravity, CTI): loop-nest coverage and weight structure.

E8: for concrete window fills n the loop nests recorded by the value graph are enumerated (index ranges only —
element values stay symbolic atoms q_j): which pairs are compared, how often, with which sign convention and
which denominator; the CoG weights; CTI's sums and guards.
"""
from .model import model
from .e_window import view_by_name, check_windows
from .e_rolling import comm
from .lti import LinEval, Form, NonConst, const_form
from .terms import cases, cases_deep, relation
from .vg import subterms, tstr, op, lit, neg_cond
from .e3_bounds import field_types


def window_state(v, n, buf='q_vals', nparam='window_len'):
    return {buf: [Form({'q%d' % j: 1.0}) for j in range(n)], nparam: n}


def window_names(F, v):
    """(queue, parameter): the queue the inner view's output is pushed onto and the usize parameter that bounds it, found by
    role (not by the names `q_vals` / `window_len`)."""
    from .e_window import flow
    try:
        fl = flow(F, v)
    except Exception:
        return 'q_vals', 'window_len'
    q = None
    for q_, info in fl.queues.items():
        if info.get('V') is not None and info['V'][0] == 'child':
            q = q_
    if q is None:
        q = (sorted(fl.queues) or ['q_vals'])[0]
    par = None
    for p_ in fl.B.int_params:
        try:
            ok, _ = fl.window_exact(q, p_)
        except Exception:
            ok = False
        if ok:
            par = p_
            break
    if par is None:
        par = (fl.B.int_params or ['window_len'])[0]
    return q, par


def find_folds(t):
    return [x for x in subterms(t) if x[0] == 'fold']


def reported_identity(m, cell, core, allowed, R, rule, name, file):
    """The value a view reports IS the expression the other rules examined: every value the output cell takes that
    contains `core` equals Some(e) for an e in `allowed`, and last() hands the cell out unchanged."""
    from .terms import cases
    bad = None
    n = 0
    t = m.up_fields.get(cell)
    try:
        cs = cases(t)
    except OverflowError:
        cs = []
        bad = 'too many cases'
    for conds, leaf in cs:
        if core not in set(subterms(leaf)):
            continue
        n += 1
        val = leaf[1] if leaf[0] == 'some' else leaf
        if val not in allowed:
            bad = 'the stored output is %s: the examined expression is post-processed before it is reported' % tstr(val)[:110]
    lr = m.last_ret
    ok_last = False
    incell = ('in', cell)
    if lr == incell:
        ok_last = True
    else:
        try:
            ok_last = all(l == incell or l == ('none',) or l == ('some', ('payload', incell)) for _, l in cases(lr))
        except OverflowError:
            ok_last = False
    if not ok_last:
        bad = bad or 'last() does not return the output cell unchanged: %s' % tstr(lr)[:100]
    R.ob(rule, name, bad is None and n > 0, 'the reported value is exactly the examined expression (%d case(s)) and last() returns it unchanged' % n
         if bad is None and n > 0 else (bad or 'examined expression never stored'), file)


def net_rules(F, R, tier):
    v = view_by_name(F).get('NoiseEliminationTechnology')
    if v is None:
        R.violation('NET', 'NoiseEliminationTechnology', 'not found')
        return
    m = model(F, v)
    QN, PN = window_names(F, v)
    outs = m.output_cells()
    out_t = m.up_fields.get(outs[0]) if outs else None
    if out_t is None:
        R.violation('NET', 'NET:out', 'no output cell', v.file)
        return
    # the ratio num/denom on the full-computation exit
    ratio = None
    for x in subterms(out_t):
        if x[0] == 'op' and x[1] == 'div' and any(y[0] == 'fold' for y in subterms(x[2][0])):
            ratio = x
            break
    if ratio is None:
        R.violation('NET-P1', 'NET:shape', 'output is not a pair-sum divided by a pair count', v.file)
        return
    num_t, den_t = ratio[2]
    outcell = outs[0]
    reported_identity(m, outcell, ratio, {ratio}, R, 'NET-P0', 'NoiseEliminationTechnology', v.file)
    nmax = 9 if tier == 'quick' else 24
    ok1 = ok2 = ok3 = True
    why1 = why2 = why3 = ''
    checked = 0
    loops = m.up_vg.loops
    # the innermost accumulation: fold whose next contains comparisons of buffer-derived values
    for n in range(2, nmax + 1):
        # entry state: window already holds n values after this update -> evaluate exit terms with entry len n-1 (not full) or n (full, N=n)
        st = {QN: [Form({'q%d' % j: 1.0}) for j in range(n)], PN: n}
        ev = LinEval(st, loops)
        ev.deliver = True
        # after the update the window holds: pop front, push new (u). Atoms: q1..q_{n-1}, u
        try:
            den = ev.num(den_t)
        except NonConst:
            ok1, why1 = False, 'denominator is not a function of the window fill'
            break
        if abs(den - n * (n - 1) / 2.0) > 1e-9:
            ok1, why1 = False, 'n=%d: denominator is %s, expected n(n-1)/2 = %s' % (n, den, n * (n - 1) / 2.0)
            break
        # enumerate the loop nest of the numerator
        folds = find_folds(num_t)
        if not folds:
            ok1, why1 = False, 'numerator is not accumulated in a loop'
            break
        outer = folds[0]
        pairs = []
        try:
            pairs = enumerate_pairs(ev, outer, loops)
        except NonConst:
            ok1, why1 = False, 'loop bounds of the pair enumeration are not functions of the window fill'
            break
        except Exception as e:  # unrecognised shape
            ok1, why1 = False, 'pair enumeration not understood: %s' % e
            break
        checked += 1
        if len(pairs) != n * (n - 1) // 2:
            ok1, why1 = False, 'n=%d: %d pairs are compared, the denominator counts n(n-1)/2 = %d' % (n, len(pairs), n * (n - 1) // 2)
            break
        # P2: every unordered pair of window positions exactly once
        window_atoms = ['q%d' % j for j in range(1, n)] + ['u']
        seen = {}
        for (a, b, deltas) in pairs:
            key = frozenset((a, b))
            seen[key] = seen.get(key, 0) + 1
        want = {frozenset((window_atoms[i], window_atoms[j])) for i in range(n) for j in range(i + 1, n)}
        if set(seen) != want or any(c != 1 for c in seen.values()):
            missing = [sorted(k) for k in want - set(seen)][:3]
            ok2, why2 = False, 'n=%d: the compared pairs are not exactly the pairs of values in the window (missing e.g. %s)' % (n, missing)
            break
        # P3: +1 when the newer value is larger, -1 when smaller, 0 on ties
        order = {a: i for i, a in enumerate(window_atoms)}  # larger index = newer
        for (a, b, deltas) in pairs:
            newer, older = (a, b) if order[a] > order[b] else (b, a)
            d = deltas
            if d.get(('gt', newer, older)) != 1 or d.get(('lt', newer, older)) != -1 or d.get(('eq', newer, older)) != 0:
                ok3, why3 = False, 'n=%d: pair (%s,%s) contributes %s; expected +1 / -1 / 0 for newer >, <, = older' % (n, newer, older, {k[0]: v_ for k, v_ in d.items()})
                break
        if not ok3:
            break
    R.ob('NET-P1', 'NoiseEliminationTechnology', ok1 and checked > 0, 'pair count of the loop nest = denominator n(n-1)/2 for n = 2..%d' % nmax if ok1 else why1, v.file)
    if ok1:
        R.ob('NET-P2', 'NoiseEliminationTechnology', ok2, 'every pair of window values is compared exactly once' if ok2 else why2, v.file)
        R.ob('NET-P3', 'NoiseEliminationTechnology', ok3, 'a pair contributes +1 / -1 / 0 when the newer value is larger / smaller / equal (ties are neutral)' if ok3 else why3, v.file)


def enumerate_pairs(ev, fold_t, loops):
    """Walk the (nested) fold: returns [(atomA, atomB, {(rel, newer?, ...): delta})] for each innermost step."""
    L, key, init, nxt = fold_t[1], fold_t[2], fold_t[3], fold_t[4]
    res = []
    for i in ev.indices(L):
        ev.idx[L] = i
        inner = [x for x in subterms(nxt) if x[0] == 'fold' and x[1] != L and x[3] == ('mu', L, key)]
        if inner:
            res += enumerate_pairs(ev, inner[0], loops)
        else:
            res.append(step_effect(ev, nxt, L, key))
    ev.idx.pop(L, None)
    return res


def step_effect(ev, nxt, L, key):
    """Effect of one innermost step: the two compared atoms and the increment per ordering."""
    mu = ('mu', L, key)
    cs0 = cases_deep(nxt)
    cs = []
    for conds, leaf in cs0:
        feas = True
        for c in conds:
            try:
                if ev.ev(c) is False:
                    feas = False
            except Exception:
                pass
        if feas:
            cs.append((conds, leaf))
    # find the difference term compared against 0
    diffs = set()
    for conds, leaf in cs:
        for c in conds:
            x = c
            while x[0] == 'op' and x[1] == 'not':
                x = x[2][0]
            if x[0] == 'op' and x[1] in ('gt', 'lt', 'ge', 'le', 'eq', 'ne') and x[2][1] == lit(0.0):
                diffs.add(x[2][0])
            elif x[0] == 'op' and x[1] in ('gt', 'lt', 'ge', 'le') and x[2][1] != lit(0.0) and not any(y[0] == 'len' for y in subterms(x)):
                diffs.add(op('sub', x[2][0], x[2][1]))
    if len(diffs) != 1:
        raise ValueError('step does not compare exactly one difference: %s' % [tstr(d)[:40] for d in diffs])
    d = diffs.pop()
    ev.mu[(L, key)] = Form({'acc': 1.0})
    f = ev.ev(d)
    atoms = [a for a, c in f.items() if abs(c) > 0]
    if not isinstance(f, Form) or len(atoms) != 2 or sorted(f.values()) != [-1.0, 1.0]:
        raise ValueError('compared quantity is not a difference of two window values: %s' % dict(f) if isinstance(f, Form) else '?')
    pos = [a for a in atoms if f[a] > 0][0]
    neg = [a for a in atoms if f[a] < 0][0]
    deltas = {}
    for conds, leaf in cs:
        # sign of d in this case
        allowed = {'<', '=', '>'}
        for c in conds:
            r = relation(c, d, lit(0.0))
            if r is not None:
                allowed &= r
        lf = ev.ev(leaf)
        delta = None
        if isinstance(lf, Form):
            delta = lf.get('1', 0.0) if lf.get('acc', 0.0) == 1.0 else None
        for o in allowed:
            # d = pos - neg ; o relates d to 0
            for (first, second) in ((pos, neg), (neg, pos)):
                rel = {'>': 'gt', '<': 'lt', '=': 'eq'}[o] if first == pos else {'>': 'lt', '<': 'gt', '=': 'eq'}[o]
                deltas[(rel, first, second)] = delta
    ev.mu.pop((L, key), None)
    return (pos, neg, deltas)


def cog_rules(F, R, tier):
    v = view_by_name(F).get('CenterOfGravity')
    if v is None:
        R.violation('COG', 'CenterOfGravity', 'not found')
        return
    m = model(F, v)
    QN, PN = window_names(F, v)
    cog_out = (m.output_cells() or ['out'])[0]
    out_t = m.up_fields.get(cog_out)
    ok = False
    detail = 'output is not −Σ k·x / Σ x + (n+1)/2 with a zero-denominator guard'
    if out_t is None:
        R.ob('COG-W', 'CenterOfGravity', False, 'no output cell written by update()', v.file)
        return
    ratio = None
    for x in subterms(out_t):
        if x[0] == 'op' and x[1] == 'div' and any(y[0] == 'fold' for y in subterms(x[2][0])) and any(y[0] == 'fold' for y in subterms(x[2][1])):
            ratio = x
            break
    if ratio is None:
        R.ob('COG-W', 'CenterOfGravity', False, 'numerator and denominator are not both sums over the current window (a stored running aggregate is not the window sum)', v.file)
        return
    num_t, den_t = ratio[2]
    neg_num = num_t[0] == 'op' and num_t[1] == 'neg'
    if neg_num:
        num_t = num_t[2][0]
    # accepted sign shapes:  (−Σk·x)/Σx + C   or   C − (Σk·x)/Σx
    sub_form = any(x[0] == 'op' and x[1] == 'sub' and x[2][1] == ratio for x in subterms(out_t))
    add_form = any(x[0] == 'op' and x[1] == 'add' and ratio in x[2] for x in subterms(out_t))
    sign_ok = neg_num if not sub_form else (not neg_num and not add_form)

    def half_of(o):
        """X when o is X/2 or 0.5·X, else None."""
        if o[0] == 'op' and o[1] == 'div' and o[2][1] == lit(2.0):
            return o[2][0]
        if o[0] == 'op' and o[1] == 'mul' and lit(0.5) in o[2]:
            return o[2][1] if o[2][0] == lit(0.5) else o[2][0]
        return None
    nmax = 8 if tier == 'quick' else 24
    good = True
    why = ''
    configs = [(n, n) for n in range(1, nmax + 1)] + [(n - 1, n + 2) for n in range(1, min(nmax, 8) + 1)]
    for (entry_len, N) in configs:
        st = {QN: [Form({'q%d' % j: 1.0}) for j in range(entry_len)], PN: N}
        ev = LinEval(st, m.up_vg.loops)
        try:
            num = ev.ev(num_t)
            den = ev.ev(den_t)
        except NonConst:
            good, why = False, 'sums are not over a window of known fill'
            break
        full = entry_len >= N
        atoms = (['q%d' % j for j in range(1, entry_len)] if full else ['q%d' % j for j in range(entry_len)]) + ['u']  # oldest .. newest after (pop/)push
        n = len(atoms)
        if not isinstance(num, Form) or not isinstance(den, Form):
            good, why = False, 'weighted sum is not linear in the window values'
            break
        for i, a in enumerate(atoms):
            k = n - i  # newest -> 1
            if abs(num.get(a, 0.0) - k) > 1e-9:
                good, why = False, 'n=%d: weight of the %d-th newest value is %s, expected %d' % (n, k, num.get(a, 0.0), k)
                break
            if abs(den.get(a, 0.0) - 1.0) > 1e-9:
                good, why = False, 'n=%d: denominator does not sum every window value once' % n
                break
        if not good:
            break
        if set(num) - set(atoms) - {'1'} or set(den) - set(atoms) - {'1'}:
            good, why = False, 'n=%d: sums include values outside the window: %s' % (n, sorted((set(num) | set(den)) - set(atoms))[:3])
            break
    R.ob('COG-W', 'CenterOfGravity', good and sign_ok, 'weight of the k-th newest value is k (newest 1), the same values feed numerator and denominator (full windows n = 1..%d and filling windows)' % nmax if good and sign_ok else (why or 'the weighted ratio does not enter with a negative sign'), v.file)
    # the constant term must use the number of values currently in the window
    okn = True
    for (entry_len, N) in configs[:6] + configs[-4:]:
        st = {QN: [Form({'q%d' % j: 1.0}) for j in range(entry_len)], PN: N}
        ev = LinEval(st, m.up_vg.loops)
        n_now = entry_len if entry_len >= N else entry_len + 1
        for x in subterms(out_t):
            if half_of(x) is not None:
                try:
                    c = ev.ev(half_of(x))
                    if isinstance(c, Form) and c.is_const() and abs(c.const() - (n_now + 1)) > 1e-9:
                        okn = False
                except NonConst:
                    pass
    R.ob('COG-N', 'CenterOfGravity', okn, 'the constant term uses the number of values currently in the window' if okn else 'the constant term (n+1)/2 does not use the current number of window values', v.file)
    # (5) the output is recomputed on every delivered value (no data-dependent hold)
    from .e_window import flow
    fl = flow(F, v)
    holds = [h for h in fl.holds(cog_out) if h[0] == 'data']
    R.ob('COG-H', 'CenterOfGravity', not holds, 'the output is recomputed on every delivered value' if not holds else
         'the previous output is kept under a data-dependent condition %s' % holds[0][1][:2], v.file)
    # offset (n+1)/2 and guard
    okc = False
    full_exprs = set()
    for x in subterms(out_t):
        other = None
        if x[0] == 'op' and x[1] == 'add' and ratio in x[2] and neg_num:
            other = x[2][1] if x[2][0] == ratio else x[2][0]
        elif x[0] == 'op' and x[1] == 'sub' and x[2][1] == ratio and not neg_num:
            other = x[2][0]
        if other is not None:
            if half_of(other) is not None:
                nump = comm(half_of(other))
                if nump[0] == 'op' and nump[1] == 'add' and lit(1.0) in nump[2] and any(y[0] == 'op' and y[1] == 'from_int' for y in nump[2]):
                    okc = True
                    full_exprs.add(x)
    if full_exprs:
        reported_identity(m, cog_out, ratio, full_exprs, R, 'COG-O', 'CenterOfGravity', v.file)
    else:
        R.ob('COG-O', 'CenterOfGravity', False, 'no expression ratio + (n+1)/2 found', v.file)
    R.ob('COG-C', 'CenterOfGravity', okc, 'constant term is (n+1)/2' if okc else 'constant term is not (n+1)/2', v.file)
    guard = False
    zero_branch = False
    for x in subterms(out_t):
        if x[0] == 'phi' and ratio in set(subterms(x[2])) | set(subterms(x[3])):
            c = x[1]
            r = relation(c, den_t, lit(0.0))
            with_ratio = x[2] if ratio in set(subterms(x[2])) else x[3]
            without = x[3] if with_ratio is x[2] else x[2]
            if r is not None:
                rr = r if with_ratio is x[2] else ({'<', '=', '>'} - r)
                if rr == {'<', '>'}:
                    guard = True
                zero_branch = without == ('some', lit(0.0)) or (without == lit(0.0) and ('some', x) in set(subterms(out_t)))
    if not (guard and zero_branch):
        # the same guard spelled with an early return: every exit that stores the ratio has `denominator != 0` on its path, and
        # an exit with `denominator == 0` on its path stores 0
        g2 = z2 = False
        bad2 = False
        for ex in m.up_exits:
            t_ = ex.fields.get(cog_out)
            if t_ is None or t_ == ('in', cog_out):
                continue
            rels = [relation(c, den_t, lit(0.0)) for c in ex.pc if isinstance(c, tuple) and c and c[0] != 'inloop']
            rels = [r_ for r_ in rels if r_ is not None]
            if ratio in set(subterms(t_)):
                if {'<', '>'} in rels and not any(isinstance(y, tuple) and y and y[0] == 'phi' and ratio in set(subterms(y)) for y in subterms(t_)):
                    g2 = True
                else:
                    bad2 = True
            elif {'='} in rels:
                z2 = t_ == ('some', lit(0.0))
                bad2 = bad2 or not z2
        if g2 and z2 and not bad2:
            guard = zero_branch = True
    R.ob('COG-G', 'CenterOfGravity', guard and zero_branch, 'ratio formed exactly when the denominator is non-zero (either sign), 0 reported otherwise' if guard and zero_branch else
         'the ratio is not formed for every non-zero denominator, or the zero-denominator branch does not report 0', v.file)


def cti_rules(F, R):
    v = view_by_name(F).get('CorrelationTrendIndicator')
    if v is None:
        R.violation('CTI', 'CorrelationTrendIndicator', 'not found')
        return
    m = model(F, v)
    QN, PN = window_names(F, v)
    ret = m.last_ret
    folds = {}
    for x in subterms(ret):
        if x[0] == 'fold':
            folds[x[2]] = x
    # classify the five sums by the shape of their step
    roles = {}
    for key, f in folds.items():
        L, init, nxt = f[1], f[3], f[4]
        mu = ('mu', L, key)
        if not (nxt[0] == 'op' and nxt[1] == 'add' and mu in nxt[2]) or init != lit(0.0):
            continue
        e = nxt[2][1] if nxt[2][0] == mu else nxt[2][0]
        idx = ('idx', L)
        cnt = op('from_int', idx)
        info = m.last_vg.loops.get(L, {})
        it = info.get('iter')
        whole = it is not None and ((it[0] == 'enumerate' and it[1][0] == 'iter' and it[1][1] == ('in', QN)) or
                                   # the same traversal spelled with a counter: positions 0 .. len(window)
                                   (it[0] == 'range' and it[1] == lit(0, 'i') and it[2] == ('len', ('in', QN)) and not it[3]))
        val = None
        for y in subterms(e):
            if y[0] == 'get' and y[2] == idx and (it is None or it[0] != 'range' or y[1] == ('in', QN)):
                val = y
        ce = comm(e)
        if val is not None and e == val:
            roles['sx'] = (f, whole)
        elif e == cnt:
            roles['sy'] = (f, whole)
        elif val is not None and (e == op('powi', val, lit(2, 'i')) or ce == comm(op('mul', val, val))):
            roles['sxx'] = (f, whole)
        elif val is not None and ce == comm(op('mul', val, cnt)):
            roles['sxy'] = (f, whole)
        elif e == op('powi', cnt, lit(2, 'i')) or ce == comm(op('mul', cnt, cnt)):
            roles['syy'] = (f, whole)
    okr = set(roles) == {'sx', 'sy', 'sxx', 'sxy', 'syy'} and all(w for _, w in roles.values())
    R.ob('CTI-sums', 'CorrelationTrendIndicator', okr,
         'Σx, Σt, Σx², Σxt, Σt² accumulated from 0 over the whole window with t the enumeration index' if okr else
         'the five moment sums over the whole window were not recognised (found %s)' % sorted(roles), v.file)
    if not okr:
        return
    S = {k: f for k, (f, _) in roles.items()}
    # n: the number of summed values (len of the window queue) or the configured window length -- the same on a full window,
    # which is all C06 speaks about; which one the code uses is reported to the caller (C12's offset clause needs the former)
    n = op('from_int', ('in', PN))
    n_kind = 'window-length'
    n_alt = op('from_int', ('len', ('in', QN)))
    if any(x == n_alt for x in subterms(ret)) and not any(x == n for x in subterms(ret)):
        n, n_kind = n_alt, 'count'
    cti_rules.n_kind = n_kind
    vx = op('sub', op('mul', n, S['sxx']), op('powi', S['sx'], lit(2, 'i')))
    vy = op('sub', op('mul', n, S['syy']), op('powi', S['sy'], lit(2, 'i')))
    cov = op('sub', op('mul', n, S['sxy']), op('mul', S['sx'], S['sy']))
    want = op('div', cov, op('sqrt', op('mul', vx, vy)))
    found = False
    guards = False
    zero_else = False
    for conds, leaf in cases(ret):
        if leaf[0] == 'some' and comm(leaf[1]) == comm(want):
            found = True
            gs = set()
            for c in conds:
                for y in (c[2] if c[0] == 'op' and c[1] == 'and' else (c,)):
                    if y == op('gt', vx, lit(0.0)) or comm(y) == comm(op('gt', vx, lit(0.0))):
                        gs.add('x')
                    if y == op('gt', vy, lit(0.0)) or comm(y) == comm(op('gt', vy, lit(0.0))):
                        gs.add('y')
            guards = gs == {'x', 'y'}
        elif leaf == ('some', lit(0.0)):
            zero_else = True
    # the only data the answer may branch on are the two variance guards: {both > 0 -> r; otherwise -> 0}
    from .e3_bounds import Bounds, structural_cond, data_driven_int_cells, mentions_cells, field_types
    ctx_ = Bounds(F, v).ctx(m.last_vg)
    ddc = data_driven_int_cells(m, field_types(F, v))
    gx, gy = comm(op('gt', vx, lit(0.0))), comm(op('gt', vy, lit(0.0)))

    def data_atoms(c, out):
        if c[0] == 'op' and c[1] in ('and', 'or', 'not'):
            for y in c[2]:
                data_atoms(y, out)
        elif not structural_cond(c, ctx_) or mentions_cells(c, ddc):
            out.append(c)      # (a test of a data-driven counter, e.g. a run length, is a data condition)
        return out
    extra = None
    for conds, leaf in cases(ret):
        if leaf[0] != 'some':
            continue
        for c in conds:
            for a in data_atoms(c, []):
                if comm(a) not in (gx, gy):
                    extra = a
    if extra is not None:
        guards = False
    R.ob('CTI-r', 'CorrelationTrendIndicator', found, 'r = (nΣxt − ΣxΣt)/sqrt((nΣx² − (Σx)²)(nΣt² − (Σt)²))' if found else 'the reported ratio is not Pearson\'s r of the five sums', v.file)
    R.ob('CTI-G', 'CorrelationTrendIndicator', guards and zero_else, 'both variance terms are tested > 0 before dividing, 0 reported otherwise' if guards and zero_else else
         ('the answer also branches on %s: only the two variance guards may decide between r and 0' % tstr(extra)[:80]) if extra is not None else
         'variance guards are not both `> 0` (an absolute threshold or a missing guard) or the degenerate branch does not report 0', v.file)


def run_c06(F, R, tier):
    R.trust('rustc front end; sfa/vg.py (loop records); sfa/lti.py (index/linear-form evaluation with symbolic window values)')
    R.assume('full window (N = n); window values are symbolic atoms, only index ranges are enumerated')
    check_windows(F, R, ['CorrelationTrendIndicator', 'NoiseEliminationTechnology', 'CenterOfGravity'], 'W1')
    net_rules(F, R, tier)
    cog_rules(F, R, tier)
    cti_rules(F, R)
    R.floor('W1', 3)
    R.floor('NET-P1', 1)
    R.floor('COG-W', 1)
    R.floor('CTI-sums', 1)
    R.decline('±1 on monotone windows, sign flip under negation and order-only dependence follow from the decided structure in real arithmetic but are not separately decided; rounding is not decided')
