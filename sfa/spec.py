"""Spec tables transcribed from /verif/properties.jsonl — the oracle of the checks.
Nothing here is derived from the code under analysis."""

# C03: views whose output must be a function of a bounded suffix of the input
FINITE_MEMORY = ['Sma', 'Cumulative', 'Min', 'Max', 'Roc', 'WelfordOnline', 'Vst', 'Vsct', 'HLNormalizer',
                 'BinaryEntropy', 'CenterOfGravity', 'CorrelationTrendIndicator', 'NoiseEliminationTechnology',
                 'Rsi', 'MyRSI', 'Alma', 'PolarizedFractalEfficiency']
# the only cells allowed to keep their previous value on a data-dependent condition (C03 / C05 / C02)
HOLD_REGISTERS = {('MyRSI', 'out'): 'keeps its previous output while G+L = 0 (flat window)',
                  ('Roc', 'out'): 'previous output held when the base is 0'}

# C02: views whose window must hold exactly the last N values
WINDOW_VIEWS = ['Sma', 'Cumulative', 'Min', 'Max', 'WelfordOnline', 'HLNormalizer', 'Roc', 'BinaryEntropy', 'Vst', 'Vsct']
# C05 / C04 also rely on an exact window
WINDOW_VIEWS_C05 = ['Rsi', 'MyRSI']
WINDOW_VIEWS_C04 = ['Sma', 'Alma']

# paired accumulators per view (cell names are discovered; this table only says which views must have some)
ACCUMULATOR_VIEWS = {'Sma': 1, 'Cumulative': 1, 'Rsi': 2, 'MyRSI': 2, 'Alma': 2}
EXTREMUM_VIEWS = {'Min': 1, 'Max': 1, 'HLNormalizer': 2}

# C10: linear views
LINEAR_VIEWS = ['Sma', 'Ema', 'Alma', 'Cumulative', 'LaguerreFilter', 'SuperSmoother', 'RoofingFilter', 'CyberCycle']
LOWPASS_DC1 = ['Sma', 'Ema', 'Alma', 'LaguerreFilter', 'SuperSmoother']
HIGHPASS_DC0 = ['RoofingFilter', 'CyberCycle']

# C09: recursive views
RECURSIVE_VIEWS = ['Ema', 'LaguerreFilter', 'SuperSmoother', 'RoofingFilter', 'CyberCycle', 'TrendFlex', 'ReFlex',
                   'LaguerreRSI', 'EhlersFisherTransform']

# C12: homogeneity degree of the output under x -> a*x, a > 0
DEGREE0 = ['Rsi', 'MyRSI', 'LaguerreRSI', 'Vst', 'Roc', 'CenterOfGravity', 'BinaryEntropy', 'TrendFlex', 'ReFlex',
           'LnReturn', 'Drawdown', 'HLNormalizer', 'Vsct', 'CorrelationTrendIndicator', 'NoiseEliminationTechnology',
           'EhlersFisherTransform']
DEGREE1 = ['Min', 'Max', 'Sma', 'Ema', 'Alma', 'Cumulative', 'WelfordOnline', 'WelfordRolling', 'LaguerreFilter',
           'SuperSmoother', 'RoofingFilter', 'CyberCycle']

# C08: first update (1-based, counting values delivered by the inner view) at which last() is Some
WARMUP = {
    'Sma': 'N', 'Ema': 'N', 'SuperSmoother': 'N', 'Rsi': 'N', 'MyRSI': 'N',
    'RoofingFilter': 'N+M+1', 'LnReturn': '2',
    'WelfordOnline': 'N-1..N', 'Vst': 'N-1..N', 'Vsct': 'N-1..N',
    'Echo': '1', 'Min': '1', 'Max': '1', 'Cumulative': '1', 'Alma': '1', 'CenterOfGravity': '1', 'BinaryEntropy': '1',
    'GTE': '1', 'LTE': '1', 'Tanh': '1', 'LaguerreFilter': '1',
}
