"""E5 — dataflow rules over the value graph for windowed state:

  W1  exact window: J ⊨ len ≤ N and every delivering step fills the window (len' = len+1 or len' = N)
  ACC paired accumulators: every write is  F := F ± contributions, zero seed, and (M1) the eviction
      contribution is the mirror of the insertion contribution (same predicate, same divisor, evicted
      element for new element, oldest-predecessor register for newest-predecessor register)
  X1  rescanned extrema: whenever the evicted element may equal the stored extremum the new extremum does
      not depend on the stored one; W4: every scan runs over the post-eviction window
  CEN census: every state cell of a finite-memory view is a register, a paired accumulator, a rescanned
      extremum, a counted predicate, a Welford aggregate or a listed hold register
"""
from .e3_bounds import Bounds, predicate_counter
from .solve import Hyps, entails_h, is_int_cmp, Ctx
from .terms import cases, cases_deep, map_term, free_ins, subst_in
from .vg import subterms, tstr, op, lit, TRUE, neg_cond, is_some, payload, phi
from . import spec


def signed_terms(t, sign=1, out=None):
    """Flatten float add/sub/neg into [(sign, term)]; literal zeros are dropped."""
    if out is None:
        out = []
    if t[0] == 'op' and t[1] == 'add' and len(t[2]) == 2:
        signed_terms(t[2][0], sign, out)
        signed_terms(t[2][1], sign, out)
    elif t[0] == 'op' and t[1] == 'sub' and len(t[2]) == 2:
        signed_terms(t[2][0], sign, out)
        signed_terms(t[2][1], -sign, out)
    elif t[0] == 'op' and t[1] == 'neg':
        signed_terms(t[2][0], -sign, out)
    elif t[0] == 'lit' and t[1] == 0:
        pass
    else:
        out.append((sign, t))
    return out


def unify(a, b, regmap):
    """Structural equality of terms up to a consistent renaming of state registers ('in', r)."""
    if a == b:
        if a[0] == 'in':
            if regmap.get(a[1], a[1]) != a[1]:
                return False
        return True
    if not isinstance(a, tuple) or not isinstance(b, tuple) or not a or not b:
        return a == b
    if a[0] == 'in' and b[0] == 'in':
        if a[1] in regmap:
            return regmap[a[1]] == b[1]
        regmap[a[1]] = b[1]
        return True
    if a[0] != b[0] or len(a) != len(b):
        return False
    if a[0] == 'op':
        if a[1] != b[1] or len(a[2]) != len(b[2]):
            return False
        return all(unify(x, y, regmap) for x, y in zip(a[2], b[2]))
    if a[0] == 'lit':
        return a == b
    for x, y in zip(a[1:], b[1:]):
        if isinstance(x, tuple) and isinstance(y, tuple):
            if not unify(x, y, regmap):
                return False
        elif x != y:
            return False
    return True


class Flow:
    def __init__(self, F, view):
        self.F = F
        self.v = view
        self.B = Bounds(F, view)
        self.inv = self.B.houdini()
        self.m = self.B.m
        self.ctx = self.B.ctx(self.m.up_vg)
        self.base = Hyps(self.B.pre + self.inv, self.ctx)
        self.child_lasts = {x for t in self.m.up_fields.values() for x in subterms(t) if x[0] == 'childlast'}
        self.queues = self.queue_info()

    # ------------------------------------------------------------------ helpers
    def feasible(self, conds):
        H = self.base.extended(list(conds))
        return not (H.cube.dead or H.cube.theory_unsat())

    def delivering(self, conds):
        """False for the path on which the input child reports nothing."""
        from .terms import nondelivering
        return not nondelivering(conds)

    def resolve(self, t, conds):
        """Resolve phi nodes inside t whose condition is decided by the (integer part of the) case conditions."""
        if not any(x[0] == 'phi' for x in subterms(t)):
            return t
        H = self.base.extended([c for c in conds if self.structural(c)])

        def f(n):
            if n[0] == 'phi':
                if entails_h(H, n[1]):
                    return n[2]
                if entails_h(H, neg_cond(n[1])):
                    return n[3]
            return n
        return map_term(t, f)

    def structural(self, c):
        """Conditions about counts / readiness rather than data."""
        x = c
        while x[0] == 'op' and x[1] == 'not':
            x = x[2][0]
        if x[0] == 'op' and x[1] in ('and', 'or'):
            return all(self.structural(y) for y in x[2])
        if is_int_cmp(x, self.ctx):
            return True
        if x[0] == 'is_some':
            return True
        if x[0] == 'in' and x[1] in self.B.ftypes and self.B.ftypes[x[1]].get('prim') == 'bool':
            return True
        return False

    def queue_info(self):
        """For every buffer: evicted-element term E, pop guard G, pushed value V (None where not applicable)."""
        out = {}
        for q in self.B.buffers:
            t = self.m.up_fields.get(q)
            if t is None:
                continue
            info = {'E': None, 'G': None, 'V': None, 'shape': None}
            try:
                cs = cases(t)
            except OverflowError:
                continue
            for conds, leaf in cs:
                if leaf == ('in', q):
                    continue
                k = leaf[0]
                if k in ('push_back', 'push_front'):
                    pop = 'pop_front' if k == 'push_back' else 'pop_back'
                    inner = leaf[1]
                    info['V'] = leaf[2]
                    if inner[0] == 'phi' and inner[2] == (pop, ('in', q)) and inner[3] == ('in', q):
                        info['G'] = inner[1]
                        info['E'] = (pop[4:], ('in', q))
                        info['shape'] = 'pop-then-push'
                    elif inner[0] == 'phi' and inner[3] == (pop, ('in', q)) and inner[2] == ('in', q):
                        info['G'] = neg_cond(inner[1])
                        info['E'] = (pop[4:], ('in', q))
                        info['shape'] = 'pop-then-push'
                    elif inner == (pop, ('in', q)):
                        info['G'] = TRUE if info['G'] is None else info['G']
                        info['E'] = (pop[4:], ('in', q))
                        info['shape'] = 'pop-then-push'
                    elif inner == ('in', q) and info['shape'] is None:
                        info['shape'] = 'push-only'
                elif k in ('pop_front', 'pop_back') and leaf[1][0] in ('push_back', 'push_front') and leaf[1][1] == ('in', q):
                    # push then pop (WelfordOnline)
                    info['V'] = leaf[1][2]
                    info['E'] = (k[4:], leaf[1])
                    info['G'] = conds[-1] if conds else TRUE
                    info['shape'] = 'push-then-pop'
            out[q] = info
        return out

    def evict_terms(self):
        es = set()
        for q, info in self.queues.items():
            if info['E'] is not None:
                es.add(info['E'])
        return es

    def pop_guards(self):
        return [info['G'] for info in self.queues.values() if info['G'] is not None]

    def mentions_evicted(self, t):
        es = self.evict_terms()
        for x in subterms(t):
            if x in es:
                return True
            if x[0] in ('front', 'back') and any(y[0] == 'in' and y[1] in self.queues for y in subterms(x[1])):
                return True
        return False

    def normalize_case(self, conds, leaf):
        """Resolve phis inside the conditions/leaf of one case using the other conditions of the same case."""
        from .terms import resolve_by
        conds = list(conds)
        for _ in range(3):
            changed = False
            for i, c in enumerate(conds):
                atom, truth = c, True
                while atom[0] == 'op' and atom[1] == 'not':
                    atom, truth = atom[2][0], not truth
                for j in range(len(conds)):
                    if j == i:
                        continue
                    nc = resolve_by(conds[j], atom, truth)
                    if nc != conds[j]:
                        conds[j] = nc
                        changed = True
                nl = resolve_by(leaf, atom, truth)
                if nl != leaf:
                    leaf = nl
                    changed = True
            if not changed:
                break
        # propositional clean-up: is_some(Some(..)), constants, !(true && c) -> !c, and conjunctions split into their parts
        from .terms import simp_bool
        flat = []
        for c in conds:
            c = simp_bool(c)
            if c == TRUE:
                continue
            if isinstance(c, tuple) and c and c[0] == 'op' and c[1] == 'and':
                flat.extend(c[2])
            else:
                flat.append(c)
        # unit propagation: !(a && b) with a among the other conditions is !b;  (a || b) with !a among them is b
        for _ in range(3):
            known = set(flat)
            changed = False
            for i, c in enumerate(flat):
                if c[0] == 'op' and c[1] == 'not' and c[2][0][0] == 'op' and c[2][0][1] == 'and':
                    rest = [x for x in c[2][0][2] if x not in known]
                    if len(rest) < len(c[2][0][2]) and rest:
                        flat[i] = neg_cond(rest[0]) if len(rest) == 1 else neg_cond(('op', 'and', tuple(rest)))
                        changed = True
                elif c[0] == 'op' and c[1] == 'or':
                    rest = [x for x in c[2] if neg_cond(x) not in known]
                    if len(rest) < len(c[2]) and rest:
                        flat[i] = rest[0] if len(rest) == 1 else ('op', 'or', tuple(rest))
                        changed = True
            if not changed:
                break
        return tuple(flat), leaf

    def cell_cases(self, cell, deep=True):
        t = self.m.up_fields.get(cell)
        if t is None:
            return []
        cs = cases_deep(t, 300) if deep else cases(t)
        return [(conds, leaf) for conds, leaf in cs if self.feasible(conds)]

    # ------------------------------------------------------------------ W1 exact window
    def window_exact(self, q, nparam):
        """(ok, detail): J gives len(q) <= N and each delivering step either adds one element or leaves exactly N."""
        L = ('len', ('in', q))
        N = ('in', nparam)
        upper = entails_h(self.base, op('le', L, N))
        if not upper:
            return False, 'the inferred class invariant does not bound len(%s) by %s (invariant: %s)' % (
                q, nparam, [tstr(c) for c in self.inv if ('in', q) in set(subterms(c))][:4])
        for ex in self.m.up_exits:
            qt = ex.fields.get(q, ('in', q))
            if qt == ('in', q):
                continue
            Lp = ('len', qt)
            H1 = self.base.extended(list(ex.pc) + [op('lt', L, N)])
            H2 = self.base.extended(list(ex.pc) + [op('ge', L, N)])
            if not (entails_h(H1, op('eq', Lp, op('iadd', L, lit(1, 'i')))) and entails_h(H2, op('eq', Lp, N))):
                return False, 'a delivering step neither adds one element (window not full) nor leaves exactly %s elements (window full) in %s' % (nparam, q)
        return True, 'len(%s) <= %s is inductive and every delivering step gives len+1 or exactly %s' % (q, nparam, nparam)

    # ------------------------------------------------------------------ accumulators
    def accumulator(self, cell):
        """Classify `cell` as an accumulator. Returns dict(ok, why, ins, ev) where ins/ev are lists of
        (data-conds frozenset, tuple of signed contribution terms)."""
        self_terms = {('in', cell), payload(('in', cell)), ('payload', ('in', cell))}
        res = {'ok': False, 'why': '', 'ins': [], 'ev': [], 'cases': 0, 'first': []}
        try:
            cs = self.cell_cases(cell, deep=True)
        except OverflowError:
            res['why'] = 'too many cases'
            return res
        guards = self.pop_guards()
        # split cases further on undetermined phi conditions inside the case conditions (first-value registers)
        work = list(cs)
        cs2 = []
        guard_n = 0
        while work and guard_n < 400:
            guard_n += 1
            conds, leaf = work.pop()
            rc = tuple(self.resolve(c, conds) for c in conds)
            p = None
            for c in rc:
                for x in subterms(c):
                    if x[0] == 'phi':
                        p = x
                        break
                if p is not None:
                    break
            if p is None:
                cs2.append((rc, leaf))
                continue
            for extra in (p[1], neg_cond(p[1])):
                nc = rc + (extra,)
                if self.feasible(nc):
                    work.append((nc, leaf))
        if work:
            res['why'] = 'too many cases'
            return res
        parsed = []
        for conds, leaf in cs2:
            if not self.delivering(conds):
                if leaf != ('in', cell):
                    res['why'] = 'written on the path where nothing is delivered'
                    return res
                continue
            res['cases'] += 1
            val = leaf[1] if leaf[0] == 'some' else leaf
            val = self.resolve(val, conds)
            st = signed_terms(val)
            selfs = [(s, t) for s, t in st if t in self_terms]
            contribs = [(s, t) for s, t in st if t not in self_terms]
            if not selfs:
                unset = any(c == neg_cond(is_some(('in', cell))) for c in conds)
                if not unset:
                    res['why'] = 'case does not carry the previous value: %s' % tstr(leaf)[:80]
                    return res
            elif len(selfs) != 1 or selfs[0][0] != 1:
                res['why'] = 'previous value enters with coefficient != +1: %s' % tstr(leaf)[:80]
                return res
            for s, t in contribs:
                if any(x in self_terms for x in subterms(t)):
                    res['why'] = 'contribution depends on the accumulator itself: %s' % tstr(t)[:80]
                    return res
            data = frozenset(c for c in conds if not self.structural(c))
            first = any(c[0] == 'op' and c[1] == 'eq' and c[2][1] == lit(0, 'i') and c[2][0][0] == 'len' for c in conds)
            evicting = any(g in conds or g == TRUE for g in guards)
            ins_data = frozenset(c for c in data if not self.mentions_evicted(c))
            ev_data = frozenset(c for c in data if self.mentions_evicted(c))
            sig = tuple((self.resolve(v, conds), e) for v, e in self.sigma())
            parsed.append((evicting, first, ins_data, ev_data, tuple(sorted(contribs, key=str)), sig))
        base = {}
        for evicting, first, ins_data, ev_data, contribs, sig in parsed:
            if not evicting:
                base[(ins_data, first)] = contribs
                (res['first'] if first else res['ins']).append((ins_data, contribs, sig))
        for evicting, first, ins_data, ev_data, contribs, sig in parsed:
            if not evicting:
                continue
            b0 = base.get((ins_data, False))
            if b0 is None:
                b0 = tuple(c for c in contribs if not self.mentions_evicted(c[1]))
            rest = list(contribs)
            okb = True
            for c in b0:
                if c in rest:
                    rest.remove(c)
                else:
                    okb = False
            if not okb:
                # the insertion contribution may legitimately depend on the post-eviction count (Alma's weight):
                # fall back to splitting by mention of the evicted element
                b0 = tuple(c for c in contribs if not self.mentions_evicted(c[1]))
                rest = [c for c in contribs if self.mentions_evicted(c[1])]
                res['ins'].append((ins_data, tuple(b0), sig))
            elif (ins_data, False) not in base:
                res['ins'].append((ins_data, tuple(b0), sig))
            res['ev'].append((ev_data, tuple(sorted(((-s_, t_) for s_, t_ in rest), key=str))))
        res['ok'] = True
        return res

    def sigma(self):
        """Substitution new-element -> evicted-element, larger pushed terms first."""
        pairs = []
        for q, info in self.queues.items():
            if info['V'] is not None and info['E'] is not None:
                pairs.append((info['V'], info['E']))
        pairs.sort(key=lambda p: -len(str(p[0])))
        return pairs

    def apply_sigma(self, t, sig=None):
        for v, e in (sig if sig is not None else self.sigma()):
            t = map_term(t, lambda n, v=v, e=e: e if n == v else n)
        return t

    def mirror(self, acc):
        """Every eviction behaviour must be the σ-image of an insertion behaviour and vice versa (modulo a
        consistent register renaming). Returns (ok, detail, regmap)."""
        ins = {(d, c, sg) for d, c, sg in acc['ins']}
        ev = {(d, c) for d, c in acc['ev']}
        if not ev:
            return False, 'no eviction contribution at all: what is added on insert is never removed', {}
        regmap = {}

        def match_entry(ie, ee, rm):
            (idata, icon, sig), (edata, econ) = ie, ee
            if len(icon) != len(econ) or len(idata) != len(edata):
                return None
            rm = dict(rm)
            # contributions: try to pair in order after sorting by sign/shape
            ic = sorted(icon, key=lambda x: (x[0], str(x[1])[:6]))
            ec = sorted(econ, key=lambda x: (x[0], str(x[1])[:6]))
            import itertools
            for perm in itertools.permutations(ec) if len(ec) <= 4 else [ec]:
                rm2 = dict(rm)
                ok = True
                for (s1, t1), (s2, t2) in zip(ic, perm):
                    if s1 != s2 or not unify(self.apply_sigma(t1, sig), t2, rm2):
                        ok = False
                        break
                if not ok:
                    continue
                # conditions
                ids = sorted(idata, key=str)
                for cperm in itertools.permutations(sorted(edata, key=str)) if len(edata) <= 4 else [sorted(edata, key=str)]:
                    rm3 = dict(rm2)
                    if all(unify(self.apply_sigma(a, sig), b, rm3) for a, b in zip(ids, cperm)):
                        return rm3
            return None

        # every ev entry must be matched by some ins entry, and every ins entry by some ev entry
        for ee in ev:
            found = False
            for ie in ins:
                r = match_entry(ie, ee, regmap)
                if r is not None:
                    regmap = r
                    found = True
                    break
            if not found:
                return False, 'eviction case %s / %s is not the mirror image of any insertion case' % (
                    [tstr(c)[:50] for c in ee[0]], [(s, tstr(t)[:50]) for s, t in ee[1]]), regmap
        for ie in ins:
            found = any(match_entry(ie, ee, regmap) is not None for ee in ev)
            if not found:
                return False, 'insertion case %s / %s has no mirrored eviction case (its contribution is never removed, or removed under a different predicate/divisor)' % (
                    [tstr(c)[:50] for c in ie[0]], [(s, tstr(t)[:50]) for s, t in ie[1]]), regmap
        return True, 'evict = mirror(insert) with σ = {new ↦ evicted}%s' % (
            (' and registers ' + ', '.join('%s↦%s' % kv for kv in regmap.items() if kv[0] != kv[1])) if any(k != v for k, v in regmap.items()) else ''), regmap

    def register_pair(self, newest, oldest):
        """`newest` must be assigned the new element on every delivering step; `oldest` the evicted element on
        every evicting step (and the new element on the first step only)."""
        vs = {info['V'] for info in self.queues.values() if info['V'] is not None}
        es = self.evict_terms()
        guards = self.pop_guards()
        for conds, leaf in self.cell_cases(newest, deep=False):
            if not self.delivering(conds):
                continue
            if leaf not in vs:
                return False, 'register %s is not always set to the newest value (%s)' % (newest, tstr(leaf)[:60])
        seeded_first = False
        qs = [q for q, info in self.queues.items() if info['V'] is not None]
        for conds, leaf in self.cell_cases(oldest, deep=False):
            if not self.delivering(conds):
                continue
            evicting = any(g in conds or g == TRUE for g in guards)
            if evicting and leaf not in es:
                return False, 'register %s is not set to the evicted value when a value leaves (%s)' % (oldest, tstr(leaf)[:60])
            if not evicting and leaf not in vs and leaf != ('in', oldest):
                return False, 'register %s takes an unexpected value %s' % (oldest, tstr(leaf)[:60])
            # the very first delivered value (empty window) must seed the register: the change attributed to the first value
            # when it leaves is then the 0 that was booked when it entered
            H = self.base.extended([c for c in conds if self.structural(c)])
            first = any(entails_h(H, op('eq', ('len', ('in', q)), lit(0, 'i'))) for q in qs) and not (H.cube.dead or H.cube.theory_unsat())
            if first:
                if leaf in vs:
                    seeded_first = True
                else:
                    return False, 'register %s is not seeded with the first value (it keeps %s): the change booked for the first value when it leaves is not the one booked when it entered' % (oldest, tstr(leaf)[:40])
        if not seeded_first:
            return False, 'register %s is never seeded with the first delivered value' % oldest
        return True, '%s := newest value each step; %s := evicted value on eviction (first value initially)' % (newest, oldest)

    # ------------------------------------------------------------------ extrema
    def scan_body(self, val):
        """(direction 'max'|'min' or None, reason or None): the rescan must select, element by element, the larger (smaller)
        of the running extremum and the element, and start from an element of the sequence or the identity of max (min)."""
        from .terms import relation
        if val[0] == 'reduce':
            if val[1] in ('max', 'min'):
                return val[1], None
            return None, 'the rescan uses a comparator that is not the natural order of the values (%s)' % val[1]
        L, key, init, nxt = val[1], val[2], val[3], val[4]
        mu = ('mu', L, key)
        direction = None
        item = None
        option_acc = False
        if init == ('none',) and nxt[0] == 'phi' and nxt[1][0] == 'op' and nxt[1][1] == 'and' and len(nxt[1][2]) >= 2 \
                and nxt[1][2][0] in (is_some(mu), ('is_some', mu)):
            # `match acc { Some(m) if <cmp> => keep, _ => take }`: the presence test and the comparison share one condition;
            # phi(A && C, x, y) = phi(A, phi(C, x, y), y)
            from .vg import conj as _conj
            rest_ = _conj(list(nxt[1][2][1:]))
            nxt = phi(nxt[1][2][0], phi(rest_, nxt[2], nxt[3]), nxt[3])
        if init == ('none',) and nxt[0] == 'phi':
            # Option-valued running extremum: None -> Some(first element); Some(m) -> Some(selection between m and the element)
            c0 = nxt[1]
            none_arm, some_arm = (nxt[2], nxt[3]) if c0 == neg_cond(is_some(mu)) or c0 == neg_cond(('is_some', mu)) else (
                (nxt[3], nxt[2]) if c0 == is_some(mu) or c0 == ('is_some', mu) else (None, None))
            if none_arm is not None and none_arm[0] == 'some':
                def strip_some(t_):
                    if t_[0] == 'some':
                        return t_[1]
                    if t_[0] == 'phi':
                        a_, b_ = strip_some(t_[2]), strip_some(t_[3])
                        if a_ is None or b_ is None:
                            return None
                        return phi(t_[1], a_, b_)
                    if t_ == mu:
                        return payload(mu)
                    return None
                inner = strip_some(some_arm)
                first_item = none_arm[1]
                if inner is not None:
                    option_acc = True
                    pm = payload(mu)
                    nxt = map_term(inner, lambda x_: mu if x_ == pm else x_)
                    seed_item = first_item
        if nxt[0] == 'op' and nxt[1] in ('max', 'min') and len(nxt[2]) == 2 and mu in nxt[2]:
            item = nxt[2][1] if nxt[2][0] == mu else nxt[2][0]
            direction = nxt[1]
        elif nxt[0] == 'phi' and mu in (nxt[2], nxt[3]) and nxt[2] != nxt[3]:
            item = nxt[3] if nxt[2] == mu else nxt[2]
            takes_item_when_true = nxt[2] == item
            r = relation(nxt[1], item, mu)
            if r is None:
                return None, 'the rescan step is not a comparison between the running extremum and the element: %s' % tstr(nxt[1])[:60]
            if not takes_item_when_true:
                r = {'<', '=', '>'} - r
            if r <= {'>', '='} and '>' in r:
                direction = 'max'
            elif r <= {'<', '='} and '<' in r:
                direction = 'min'
            else:
                return None, 'the rescan step keeps neither the larger nor the smaller of the two values'
        else:
            return None, 'the rescan step is not a selection between the running extremum and the element: %s' % tstr(nxt)[:80]
        if not (item[0] == 'get' and any(x[0] == 'idx' and x[1] == L for x in subterms(item[2]))):
            return None, 'the rescan compares with %s, not with the elements of the window' % tstr(item)[:50]
        seq = item[1]
        if option_acc:
            if seed_item != item:
                return direction, 'the first element seen seeds the extremum with %s, not with the element itself' % tstr(seed_item)[:40]
            return direction, None
        ok_init = (init[0] in ('front', 'back') and init[1] == seq) or (init[0] == 'get' and init[1] == seq) or \
            (init[0] == 'sentinel' and ((direction == 'max' and init[1] in ('min_value', 'neg_infinity')) or
                                        (direction == 'min' and init[1] in ('max_value', 'infinity'))))
        if not ok_init:
            return direction, 'the rescan is seeded with %s, which is neither an element of the window nor the identity of %s' % (tstr(init)[:40], direction)
        return direction, None

    def scan_coverage(self, val, seq):
        """None if the rescan `val` provably visits every element of `seq` (seed element included), else a reason."""
        if val[0] == 'reduce':
            for y in subterms(val[2]):
                if y[0] in ('skip', 'take', 'step_by', 'skip_while', 'take_while', 'filter'):
                    return 'the rescan iterates over an adapted sequence (%s): not every element is visited' % y[0]
            return None
        if seq is None:
            return 'the rescan loop does not index a sequence in a recognised way: coverage cannot be established'
        L = val[1]
        info = self.m.up_vg.loops.get(L)
        if not info:
            return None
        it = info['iter']
        if it[0] != 'range':
            # iterator over the sequence, possibly skipping a prefix that is the seed
            cur = it
            skip = lit(0, 'i')
            while cur[0] in ('copied', 'skip', 'enumerate'):
                if cur[0] == 'skip':
                    skip = cur[2] if skip == lit(0, 'i') else op('iadd', skip, cur[2])
                cur = cur[1]
            if cur[0] != 'iter' or cur[1] != seq:
                for y in subterms(it):
                    if y[0] in ('take', 'step_by', 'skip_while', 'take_while', 'filter', 'rev', 'zip'):
                        return 'the rescan iterates over an adapted sequence (%s): not every element is visited' % y[0]
                return None
            lo, hi, incl = skip, ('len', seq), False
        else:
            lo, hi, incl = it[1], it[2], it[3]
        idxs = {x[2] for x in subterms(val[4]) if x[0] == 'get' and x[1] == seq}
        i = ('idx', L)
        n = ('len', seq)
        one = lit(1, 'i')
        mirrored = {op('isub', op('isub', n, one), i), op('isub', n, op('iadd', i, one)), op('isub', op('isub', n, i), one)}
        if not idxs or not all(ix == i or ix in mirrored for ix in idxs):
            return 'the rescan reads %s: not the loop index or its mirror image, coverage cannot be established' % [tstr(x)[:30] for x in idxs]
        is_m = all(ix in mirrored for ix in idxs)
        # seed position
        init = val[3]
        seed = None
        if init == ('front', seq) or init == ('get', seq, lit(0, 'i')):
            seed = 'first'
        elif init == ('back', seq) or init == ('get', seq, op('isub', n, one)):
            seed = 'last'
        def eq(a, b):
            return a == b or entails_h(self.base, op('eq', a, b))
        end = hi if not incl else op('iadd', hi, one)
        full = eq(lo, lit(0, 'i')) and eq(end, n)
        if full:
            return None
        # one element may be left out of the loop if it is the seed
        skipped_first = eq(lo, one) and eq(end, n)           # indices 1..n-1 visited
        skipped_last = eq(lo, lit(0, 'i')) and eq(end, op('isub', n, one))   # indices 0..n-2 visited
        missing = None
        if skipped_first:
            missing = 'last' if is_m else 'first'
        elif skipped_last:
            missing = 'first' if is_m else 'last'
        if missing is not None and seed == missing:
            return None
        return ('the rescan loop runs over %s..%s%s and is seeded with %s: some element of the window is never compared' % (
            tstr(lo), '=' if incl else '', tstr(hi)[:40], tstr(init)[:40]))

    def extremum(self, cell):
        """Rescanned-extremum classification + X1 freshness + W4 scan order. Returns (kind or None, ok, detail)."""
        try:
            cs = [self.normalize_case(c, l) for c, l in self.cell_cases(cell, deep=False)]
        except OverflowError:
            return None, False, 'too many cases'
        selfv = {('in', cell), payload(('in', cell))}
        vs = {info['V'] for info in self.queues.values() if info['V'] is not None}
        es = self.evict_terms()
        guards = self.pop_guards()
        scans = 0
        kind = None
        scan_queues = set()
        for conds, leaf in cs:
            if not self.delivering(conds):
                continue
            val = leaf[1] if leaf[0] == 'some' else leaf
            if leaf[0] == 'none':
                continue
            is_scan = val[0] in ('reduce', 'fold')
            if not (val in selfv or val in vs or is_scan or leaf == ('in', cell)):
                return None, False, 'not an extremum cell: takes value %s' % tstr(val)[:60]
            if is_scan:
                scans += 1
                if val[0] == 'reduce':
                    kind = val[1]
                    seq = val[2]
                else:
                    seq = None
                    for x in subterms(val):
                        if x[0] == 'get' and x[2][0] == 'idx':
                            seq = x[1]
                            break
                if seq is not None:
                    for y in subterms(seq):
                        if y[0] == 'in' and y[1] in self.queues:
                            scan_queues.add(y[1])
                # W6: the scan step selects the larger/smaller value and starts from an element or the identity
                direction_, why_ = self.scan_body(val)
                if why_ is not None:
                    return kind or direction_ or 'scan', False, why_
                if kind is None:
                    kind = direction_
                # W5: the scan visits every element of the sequence
                cov = self.scan_coverage(val, seq)
                if cov is not None:
                    return kind or 'scan', False, cov
                # W4: the scanned sequence must not contain the evicted element
                if seq is not None:
                    bad = False
                    for q, info in self.queues.items():
                        if info['E'] is None:
                            continue
                        inq = ('in', q)
                        popped = {('pop_' + info['E'][0], inq)}
                        if any(x == inq for x in subterms(seq)) and not any(x in popped for x in subterms(seq)):
                            evicting = any(g in conds or g == TRUE for g in guards)
                            if evicting:
                                bad = True
                    if bad:
                        return kind or 'scan', False, 'the rescan runs over the window that still contains the evicted value: %s' % tstr(seq)[:70]
        if scans == 0:
            return None, False, 'no rescan'
        # X1: in every case in which a value leaves the window and the stored extremum survives, the path
        # condition must entail that the evicted value is not equal to the stored extremum
        from .terms import relation
        for conds, leaf in cs:
            if not self.delivering(conds):
                continue
            val = leaf[1] if leaf[0] == 'some' else leaf
            keeps = any(x in selfv for x in subterms(val)) or leaf == ('in', cell)
            if not keeps:
                continue
            for q, info in self.queues.items():
                if info['E'] is None or info['G'] is None or (scan_queues and q not in scan_queues):
                    continue
                H = self.base.extended(list(conds) + ([info['G']] if info['G'] != TRUE else []))
                if H.cube.dead or H.cube.theory_unsat():
                    continue  # no eviction possible in this case
                E = info['E']
                # comparison atoms between the evicted element and the stored extremum that occur in the conditions
                atoms = set()
                for c in conds:
                    for x in subterms(c):
                        if x[0] == 'op' and x[1] in ('eq', 'ne', 'lt', 'le', 'gt', 'ge') and len(x[2]) == 2:
                            a0, b0 = x[2]
                            if (a0 == E and any(y in selfv for y in subterms(b0))) or (b0 == E and any(y in selfv for y in subterms(a0))):
                                atoms.add(x)
                excluded = False
                for a_ in atoms:
                    m_ = a_[2][1] if a_[2][0] == E else a_[2][0]
                    for pol in (True, False):
                        lit_ = a_ if pol else neg_cond(a_)
                        rel = relation(lit_, E, m_)
                        if rel is not None and '=' not in rel and entails_h(H, lit_):
                            excluded = True
                if not excluded:
                    return kind or 'scan', False, ('a value leaves the window and the stored extremum survives although the evicted value may '
                                         'have been that extremum (case %s)' % [tstr(c)[:45] for c in conds][-3:])
        # X2: the newest value is always covered: the result is the new value itself, a scan that includes it, or a
        # value that the path condition shows to be on the right side of the new value
        direction = None
        for conds, leaf in cs:
            if not self.delivering(conds):
                continue
            val = leaf[1] if leaf[0] == 'some' else leaf
            if val in vs:
                for c in conds:
                    for m_ in [x for x in subterms(c) if x in selfv]:
                        pass
                    for x in subterms(c):
                        if x[0] == 'op' and x[1] in ('lt', 'gt', 'le', 'ge') and len(x[2]) == 2 and (x[2][0] == val or x[2][1] == val):
                            other = x[2][1] if x[2][0] == val else x[2][0]
                            lit_ = c if c == x else (neg_cond(x) if c == neg_cond(x) else None)
                            if lit_ is None:
                                continue
                            r = relation(lit_, val, other)
                            if r is not None and r <= {'>'}:
                                direction = 'max'
                            elif r is not None and r <= {'<'}:
                                direction = 'min'
        if kind in ('max', 'min'):
            direction = kind
        if direction is not None:
            for conds, leaf in cs:
                if not self.delivering(conds):
                    continue
                val = leaf[1] if leaf[0] == 'some' else leaf
                if leaf[0] == 'none' or val in vs:
                    continue
                # a scan over a sequence that already contains the new value
                seq_has_new = False
                for x in subterms(val):
                    if x[0] in ('push_back', 'push_front') and x[2] in vs:
                        seq_has_new = True
                if seq_has_new:
                    continue
                ok_rel = False
                cands = [val, payload(val)]
                for V_ in vs:
                    for val_ in cands:
                        allowed = {'<', '=', '>'}
                        for c in conds:
                            r = relation(c, V_, val_)
                            if r is not None:
                                allowed &= r
                        if (direction == 'max' and allowed <= {'<', '='}) or (direction == 'min' and allowed <= {'>', '='}):
                            ok_rel = True
                    # the new value lies beyond the opposite extremum of the same window (max >= min is assumed)
                    for c in conds:
                        x = c
                        negd = False
                        while x[0] == 'op' and x[1] == 'not':
                            x, negd = x[2][0], not negd
                        if x[0] == 'op' and x[1] in ('lt', 'gt', 'le', 'ge') and len(x[2]) == 2 and V_ in x[2]:
                            other = x[2][1] if x[2][0] == V_ else x[2][0]
                            r = relation(c, V_, other)
                            opp = any(y[0] == 'in' and y[1] != cell and y[1] in self.m.touched and y[1] not in self.B.buffers for y in subterms(other)) or \
                                any(y[0] == 'reduce' and y[1] in ('max', 'min') and y[1] != direction for y in subterms(other))
                            if opp and r is not None and ((direction == 'min' and r <= {'>'}) or (direction == 'max' and r <= {'<'})):
                                ok_rel = True
                if not ok_rel:
                    return kind or 'scan', False, ('the stored %simum can end up on the wrong side of the newest value: the result %s is never compared with it on this path' % (
                        direction, tstr(val)[:50]))
        return kind or 'scan', True, 'rescanned over the post-eviction window whenever the evicted value may be the extremum; the newest value is always covered'

    # ------------------------------------------------------------------ holds
    def holds(self, cell):
        """Data-dependent holds: delivering cases where the cell keeps its previous value under a data condition."""
        out = []
        try:
            cs = self.cell_cases(cell, deep=False)
        except OverflowError:
            return [('?', 'too many cases')]
        guards = self.pop_guards()
        for conds, leaf in cs:
            if not self.delivering(conds):
                continue
            if leaf == ('in', cell):
                data = [c for c in conds if not self.structural(c)]
                evicting = any(g in conds or g == TRUE for g in guards)
                if data:
                    out.append(('data', [tstr(c)[:60] for c in data]))
                elif evicting:
                    out.append(('full-window', [tstr(c)[:60] for c in conds]))
        return out
