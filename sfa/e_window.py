"""Runners for C02 (window statistics), C03 (finite memory), C05 (RSI family) on top of sfa/e5_flow.py."""
from .model import model
from .e5_flow import Flow, signed_terms
from .e3_bounds import predicate_counter
from .solve import entails_h, linear, NonLinear
from .terms import cases, cases_deep, free_ins
from .vg import subterms, tstr, op, lit, TRUE, neg_cond, is_some, payload
from . import spec

_flows = {}


def flow(F, v):
    key = (id(F), v.name)
    if key not in _flows:
        _flows[key] = Flow(F, v)
    return _flows[key]


def view_by_name(F):
    return {v.name: v for v in F.views}


def queue_buffers(fl):
    return [q for q, info in fl.queues.items() if info['shape'] in ('pop-then-push', 'push-then-pop')]


def check_windows(F, R, names, rule='W1', only=None):
    """Every queue-shaped buffer of the named views holds exactly the last N delivered values.
    `only`: {view: [buffer, ..]} restricts the rule to the named buffers of a view."""
    views = view_by_name(F)
    for n in names:
        v = views.get(n)
        if v is None:
            R.violation(rule, n, 'view %s not found' % n)
            continue
        fl = flow(F, v)
        qs = queue_buffers(fl)
        if not qs:
            R.violation(rule, n + ':no-window', 'no evict-oldest/insert-newest window buffer recognised in %s' % n, v.file)
            continue
        if only and n in only:
            qs = [q for q in qs if q in only[n]]
            if not qs:
                R.violation(rule, n + ':no-window', 'the window buffer of %s is not an evict-oldest/insert-newest queue' % n, v.file)
                continue
        for q in qs:
            best = None
            used = None
            for p in fl.B.int_params:
                ok, detail = fl.window_exact(q, p)
                if ok:
                    best = (True, detail)
                    used = p
                    break
                if best is None:
                    best = (False, detail)
            if best is None:
                best = (False, 'no window-length parameter')
            R.ob(rule, '%s:%s' % (n, q), best[0], best[1], v.file)
            if used is not None:
                # W0: that parameter is the window length the caller asked for: every public constructor stores its usize
                # argument unchanged (also through the constructor of an inlined inner view)
                bad = None
                for mm in fl.m.ctor_models:
                    if mm['init'] is None or not mm['fn'].vis.startswith('Public'):
                        continue
                    t = mm['init'].get(used)
                    if not any(ty_ == 'usize' for (_, _, ty_) in mm['fn'].param_ids()) and isinstance(t, tuple) and t[:1] == ('lit',) \
                            and isinstance(t[1], int) and t[1] >= 1:
                        continue        # a constructor without a length argument (Default) fixes its own, positive, window length
                    if not (isinstance(t, tuple) and t and t[0] == 'arg'):
                        bad = '%s stores %s in `%s`: the window holds that many values, not the requested window length' % (
                            mm['fn'].name, tstr(t)[:60] if t else '?', used)
                R.ob(rule + '-param', '%s:%s' % (n, q), bad is None, 'the window length is the constructor argument itself' if bad is None else bad, v.file)


def no_unknowns(F, R, names, rule='U0'):
    """Fail closed: a construct the value graph does not model (an opaque term) in update()/last() of a view under analysis
    means the rules of this property would be judging an incomplete model."""
    views = view_by_name(F)
    for n in names:
        v = views.get(n)
        if v is None:
            continue
        m = model(F, v)
        vgs = [(m.up_vg, 'update'), (m.last_vg, 'last')]
        # constructors too: the initial state the rules start from must be the real one
        vgs += [(mm['vg'], mm['fn'].name) for mm in m.ctor_models if mm.get('vg') is not None]
        for vg, label in vgs:
            for what, where in vg.unknowns:
                R.violation(rule, '%s:%s:%s' % (n, label, what), 'construct not understood by the value graph (%s): the analysis of %s is incomplete' % (what, n), where)
        # ... and an opaque term must not hide inside a result either (a belt to the braces above)
        for exits_, label in ((m.up_exits, 'update'), (m.last_exits, 'last')):
            tags = set()
            for ex in exits_:
                for t_ in list(ex.fields.values()) + [ex.ret] + [c for c in ex.pc if isinstance(c, tuple)]:
                    if isinstance(t_, tuple):
                        for x in subterms(t_):
                            if x[0] == 'unk' and x[1] not in ('dead',):
                                tags.add(x[1])
            for tg in sorted(tags):
                if not any(what == tg for vg, lb in vgs for what, _ in vg.unknowns):
                    R.violation(rule, '%s:%s:opaque:%s' % (n, label, tg), 'an opaque term (%s) occurs in the result of %s: the analysis of %s is incomplete' % (tg, label, n), v.file)
        for mm in m.ctor_models:
            if mm['init'] is None:
                R.violation(rule, '%s:%s:no-initial-state' % (n, mm['fn'].name), 'the value built by constructor %s is not a struct the value graph can read the initial state from' % mm['fn'].name, v.file)
        # a `while` loop modelled as one guarded iteration is exact only if its condition is refuted afterwards (decided by the
        # bounds engine): otherwise the model of the function is incomplete for every property
        wo = [ev for vg, _ in vgs[:2] for ev in vg.events if ev.kind == 'while-once']
        if wo:
            from .e3_bounds import Bounds
            from .solve import Hyps, entails_h, loop_hyps
            from .vg import neg_cond
            B_ = Bounds(F, v)
            entry_ = B_.pre + B_.houdini()
            for vg, label in vgs[:2]:
                ctx_ = B_.ctx(vg)
                for ev in vg.events:
                    if ev.kind != 'while-once':
                        continue
                    H_ = Hyps(entry_ + [c for c in ev.pc if isinstance(c, tuple)] + loop_hyps(ev.pc, ctx_), ctx_)
                    try:
                        ok_ = entails_h(H_, neg_cond(ev.data[0]))
                    except Exception:
                        ok_ = False
                    if not ok_:
                        from .sir import loc
                        R.violation(rule, '%s:%s:while-loop' % (n, label), 'a `while` loop that may run more than once is modelled as a single iteration: the analysis of %s is incomplete' % n, loc(ev.node) if ev.node else v.file)


def float_cells(fl):
    out = []
    for p, t in fl.B.ftypes.items():
        if p in fl.m.touched and (t.get('param') or t.get('prim') in ('f32', 'f64') or
                                  (t.get('adt') == 'std::option::Option' and t.get('args') and (t['args'][0].get('param') or t['args'][0].get('prim') in ('f32', 'f64')))):
            out.append(p)
    return sorted(out)


def self_referential(fl, cell):
    t = fl.m.up_fields.get(cell)
    if t is None:
        return False
    for conds, leaf in cases(t) if _safe_cases(t) else []:
        if not fl.delivering(conds):
            continue
        if leaf != ('in', cell) and cell in free_ins(leaf):
            return True
    return False


def _safe_cases(t):
    try:
        cases(t)
        return True
    except OverflowError:
        return False


def _fold_over_window(fl, f_, qexits, conds):
    """(queue, reason): the fold f_ = ('fold', L, key, init, nxt) is a pass over EVERY element of one window queue as this
    update leaves it: a single carried variable, positions 0..len-1 (directly or by iterating the queue, in either direction),
    elements read at the loop position only."""
    L, key, init, nxt = f_[1], f_[2], f_[3], f_[4]
    info = fl.m.up_vg.loops.get(L) or fl.m.last_vg.loops.get(L)
    if info is None:
        return None, 'loop record missing'
    if len(info.get('carried', {})) != 1:
        return None, 'the pass carries more than one variable from one element to the next'
    gets = [x for x in subterms(nxt) if x[0] == 'get']
    if not gets:
        return None, 'the pass does not read elements'
    it = info['iter']
    while it[0] in ('copied', 'rev', 'enumerate'):
        it = it[1]
    i = ('idx', L)
    for q, qe in qexits.items():
        if qe is None:
            continue
        cand = [qe, fl.resolve(qe, conds)]
        if it[0] == 'iter' and it[1] in cand:
            return q, ''
        if it[0] == 'range' and any(g[1] in cand for g in gets):
            # every sequence read must be a window queue in its post-update state (several queues of equal length may be read
            # side by side, e.g. values and their weights)
            allc = []
            for q2, qe2 in qexits.items():
                if qe2 is not None:
                    allc += [qe2, fl.resolve(qe2, conds)]
            if not all(g[1] in allc for g in gets):
                continue
            n_ = ('len', gets[0][1])
            one = lit(1, 'i')
            ok_idx = all(g[2] == i or g[2] in (op('isub', op('isub', n_, one), i), op('isub', n_, op('iadd', i, one))) for g in gets)
            H_ = fl.base.extended([c for c in conds if fl.structural(c)])
            full = (it[1] == lit(0, 'i') or entails_h(H_, op('eq', it[1], lit(0, 'i')))) and not it[3] and all(
                it[2] == ('len', g[1]) or entails_h(H_, op('eq', it[2], ('len', g[1]))) for g in gets)
            if ok_idx and full:
                return q, ''
            return None, 'the pass covers positions %s..%s, not the whole window' % (tstr(it[1])[:20], tstr(it[2])[:30])
    return None, 'the pass does not run over a window queue as this update leaves it'


def window_functional(fl, cell, kind='sum'):
    """(ok, detail): `cell` is recomputed from the window on every delivered value, as a plain (optionally weighted / filtered)
    SUM over the window: each value it takes on a delivering step is, up to a division by a count/parameter,
    fold(0; acc + term(element_i)) over every position of a window queue in its post-update state, where term reads elements
    at position i only; it depends on nothing but window queues and constructor parameters. kind='count': an integer count of
    the elements satisfying a predicate."""
    t = fl.m.up_fields.get(cell)
    if t is None:
        return False, 'never written'
    try:
        cs = fl.cell_cases(cell, deep=False)
    except OverflowError:
        return False, 'too many cases'
    allowed = set(fl.B.buffers) | set(fl.m.params) | set(fl.B.int_params)
    qexits = {q: fl.m.up_fields.get(q) for q in fl.queues}
    n = 0
    for conds, leaf in cs:
        if not fl.delivering(conds):
            if leaf != ('in', cell):
                return False, 'written when nothing is delivered'
            continue
        val = leaf[1] if leaf[0] == 'some' else leaf
        folds = [x for x in subterms(val) if x[0] == 'fold']
        if not folds and val[0] == 'lit' and all(fl.structural(c) for c in conds):
            continue    # a constant for a structurally decided degenerate case (empty window)
        if not folds:
            return False, 'takes a value that is not a pass over the window: %s' % tstr(val)[:60]
        deps = free_ins(val)
        if not deps <= allowed:
            return False, 'depends on state other than the window: %s' % sorted(deps - allowed)[:3]
        for f_ in folds:
            L, key, init, nxt = f_[1], f_[2], f_[3], f_[4]
            mu = ('mu', L, key)
            if not (init[0] == 'lit' and init[1] == 0):
                return False, 'the pass starts from %s, not from 0' % tstr(init)[:40]
            step = nxt
            if step[0] == 'phi' and mu in (step[2], step[3]):
                step = step[2] if step[3] == mu else step[3]       # filtered element: accumulator unchanged
            if not (step[0] == 'op' and step[1] in ('add', 'iadd') and mu in step[2] and not any(x == mu for x in subterms([y for y in step[2] if y != mu][0]))):
                return False, 'the pass is not an accumulation acc + term(element): %s' % tstr(nxt)[:70]
            q_, why_ = _fold_over_window(fl, f_, qexits, conds)
            if q_ is None:
                return False, why_
        n += 1
    return n > 0, 'recomputed as a sum over every element of the current window on each delivered value (%d case(s)); depends on the window and constructor parameters only' % n


def check_accumulators(F, R, names_counts, rule_prefix=''):
    """The named views must have the given number of paired accumulators, each zero-seeded and mirrored."""
    views = view_by_name(F)
    regpairs = {}
    for n, want in names_counts.items():
        v = views.get(n)
        if v is None:
            R.violation('M1', n, 'view %s not found' % n)
            continue
        fl = flow(F, v)
        found = 0
        for cell in float_cells(fl):
            if not self_referential(fl, cell):
                continue
            acc = fl.accumulator(cell)
            if not acc['ok']:
                continue
            if not acc['ev'] and not acc['ins']:
                continue
            # only cells that really accumulate (some case adds a contribution)
            if not any(c for _, c, _ in acc['ins']) and not any(c for _, c, _ in acc['first']):
                continue
            found += 1
            ok, detail, regmap = fl.mirror(acc)
            R.ob('M1', '%s:%s' % (n, cell), ok, detail, v.file)
            # zero seed
            seeds = []
            for nm, init, pre in fl.m.inits():
                seeds.append(init.get(cell))
            zero = all(s_ in (lit(0.0), ('none',)) or (s_ is not None and s_[0] == 'lit' and s_[1] == 0) for s_ in seeds) and seeds
            R.ob('W2', '%s:%s' % (n, cell), bool(zero), 'accumulator starts at zero / unset in every constructor' if zero else
                 'accumulator is seeded with %s' % [tstr(s_) for s_ in seeds], v.file)
            for a, b in regmap.items():
                if a != b:
                    regpairs[(n, a, b)] = fl
        if found < want:
            # alternative implementation of an aggregate: recomputed from the window each step (no running add/subtract)
            for cell in float_cells(fl):
                if cell in fl.B.buffers or self_referential(fl, cell):
                    continue
                okw, dw = window_functional(fl, cell)
                if okw:
                    found += 1
                    R.ob('M1', '%s:%s' % (n, cell), True, dw, v.file)
        R.ob('M0', n, found >= want, '%d aggregate(s) recognised: paired accumulators or per-step passes over the window (expected %d)' % (found, want), v.file)
    for (n, a, b), fl in regpairs.items():
        ok, detail = fl.register_pair(a, b)
        R.ob('M2', '%s:%s/%s' % (n, a, b), ok, detail, fl.v.file)


def check_extrema(F, R, names_counts):
    views = view_by_name(F)
    for n, want in names_counts.items():
        v = views.get(n)
        if v is None:
            R.violation('X1', n, 'view %s not found' % n)
            continue
        fl = flow(F, v)
        found = 0
        for cell in float_cells(fl):
            kind, ok, detail = fl.extremum(cell)
            if kind is None:
                continue
            found += 1
            R.ob('X1', '%s:%s' % (n, cell), ok, detail, v.file)
        R.ob('X0', n, found >= want, '%d rescanned extremum cell(s) recognised (expected %d)' % (found, want), v.file)


def check_welford(F, R, name='WelfordOnline'):
    """count == len(window) is inductive; every mean correction divides by the sample count after that operation."""
    views = view_by_name(F)
    v = views.get(name)
    if v is None:
        R.violation('W5', name, 'not found')
        return
    fl = flow(F, v)
    cnts = [c for c in fl.B.int_cells]
    qs = queue_buffers(fl)
    ok = False
    for c in cnts:
        for q in qs:
            if entails_h(fl.base, op('eq', ('in', c), ('len', ('in', q)))):
                ok = True
                cnt, qq = c, q
    no_counter = not ok and not [c for c in cnts if c in fl.m.touched] and len(qs) >= 1
    if no_counter:
        # no separate counter is kept: the number of samples is read off the window queue itself
        ok = True
        qq = qs[0]
        R.ob('W5-count', name, True, 'no separate sample counter: the sample count is len(%s) itself' % qq, v.file)
    else:
        R.ob('W5-count', name, ok, 'sample counter == len(window) is an inductive invariant' if ok else
             'no sample counter provably equals the window length (counter and window can drift apart)', v.file)
    if not ok:
        return
    # divisors of the mean corrections
    mean_cells = [c for c in float_cells(fl) if self_referential(fl, c)]
    cnt_exit = fl.m.up_fields.get(cnt) if not no_counter else ('len', fl.m.up_fields.get(qq, ('in', qq)))
    good = True
    why = ''
    n_checked = 0
    for mc in mean_cells:
        try:
            cs = fl.cell_cases(mc, deep=True)
        except OverflowError:
            continue
        for conds, leaf in cs:
            if not fl.delivering(conds):
                continue
            # sample count after this update, in this case
            H = fl.base.extended([c for c in conds if fl.structural(c)])
            divs = []
            for x in subterms(leaf):
                if x[0] == 'op' and x[1] == 'div' and x[2][1][0] == 'op' and x[2][1][1] == 'from_int':
                    num = x[2][0]
                    if num[0] == 'op' and num[1] == 'sub':
                        divs.append(x[2][1][2][0])
            if not divs:
                continue
            n_checked += 1
            # allowed: D == count_exit (add step) and D == count_exit - 1 (remove step preceding the add)
            offs = []
            for D in set(divs):
                off = None
                for k in (0, -1):
                    if entails_h(H, op('eq', op('iadd', D, lit(-k, 'i')), cnt_exit)):
                        off = k
                        break
                offs.append(off)
            want = {0, -1} if len(set(divs)) > 1 else {0}
            if mc.endswith('mean') or True:
                if any(o is None for o in offs) or set(offs) != want:
                    good = False
                    why = 'in %s a correction is divided by %s, which is not the sample count after that operation (count after the update: %s)' % (
                        mc, [tstr(d)[:40] for d in set(divs)], tstr(cnt_exit)[:60])
    if n_checked == 0 and not mean_cells:
        # alternative implementation: the statistics are recomputed from the window by passes over it (two-pass algorithm):
        # some cell is  Σ window / T(number of elements in the window)  (the mean), the others are sums over the window
        wf = [(c, window_functional(fl, c)) for c in float_cells(fl) if c not in fl.B.buffers]
        if wf and all(ok_ for _, (ok_, _) in wf):
            okdiv = False
            whyd = 'no cell is the window sum divided by the number of elements in the window'
            for c, _ in wf:
                for conds, leaf in fl.cell_cases(c, deep=False):
                    if not fl.delivering(conds):
                        continue
                    val = leaf[1] if leaf[0] == 'some' else leaf
                    if val[0] == 'op' and val[1] == 'div' and val[2][0][0] == 'fold' and val[2][1][0] == 'op' and val[2][1][1] == 'from_int':
                        D = val[2][1][2][0]
                        seqs = {x[1] for x in subterms(val[2][0]) if x[0] == 'get'}
                        H_ = fl.base.extended([c_ for c_ in conds if fl.structural(c_)])
                        if seqs and all(entails_h(H_, op('eq', D, ('len', sq))) for sq in seqs):
                            okdiv = True
                        else:
                            whyd = 'the window sum in %s is divided by %s, which is not the number of elements summed' % (c, tstr(D)[:40])
            R.ob('W5-divisor', name, okdiv, 'no incremental mean corrections: %s are recomputed by passes over the current window; the mean divides by the number of elements' % [c for c, _ in wf]
                 if okdiv else whyd, v.file)
            return
    R.ob('W5-divisor', name, good and n_checked > 0, 'every (x − mean)/k correction uses k = number of samples after that operation (%d cases)' % n_checked if good else why, v.file)


def _signed_terms(t, sign=1, out=None):
    if out is None:
        out = []
    if t[0] == 'op' and t[1] == 'add':
        _signed_terms(t[2][0], sign, out)
        _signed_terms(t[2][1], sign, out)
    elif t[0] == 'op' and t[1] == 'sub':
        _signed_terms(t[2][0], sign, out)
        _signed_terms(t[2][1], -sign, out)
    else:
        out.append((sign, t))
    return out


def welford_mean_history(F, R, name='WelfordOnline', rule='W5-mean-history'):
    """From the initial state, after every delivered value some float cell equals the arithmetic mean of the values currently in
    the window queue, weight by weight (abstract execution in the linear-form domain, one symbol per input; the add/remove
    recurrences are exact in real arithmetic, so the comparison tolerance only absorbs the rounding of the coefficients)."""
    from .lti import transient, Form, NonConst
    v = view_by_name(F).get(name)
    if v is None:
        return
    fl = flow(F, v)
    m = fl.m
    qs = queue_buffers(fl)
    cells = [c for c in float_cells(fl) if c not in fl.B.buffers]
    mm = [x for x in m.ctor_models if x['fn'].name == 'new' and x['init'] is not None]
    if not qs or not mm:
        R.ob(rule, name, False, 'no window queue / constructor found', v.file)
        return
    ints = [nm for (pid, nm, ty) in mm[0]['fn'].param_ids() if ty == 'usize']
    alive = None
    steps = 0
    detail = ''
    for N in (1, 2, 3, 5, 8):
        cand = {c: True for c in cells}
        why = {}

        def probe(k, ev, ex, N=N):
            nonlocal steps
            try:
                q = ev.ev(ex.fields.get(qs[0], ('in', qs[0])))
            except NonConst:
                return
            if not isinstance(q, list) or not q or not all(isinstance(x, Form) for x in q):
                return
            steps += 1
            want = Form()
            for x in q:
                want = want.plus(x, 1.0 / len(q))
            for c in list(cand):
                if not cand[c]:
                    continue
                try:
                    f = ev.ev(ex.fields.get(c, ('in', c)))
                except NonConst:
                    cand[c] = False
                    continue
                keys = (set(f) | set(want)) if isinstance(f, Form) else set()
                if not isinstance(f, Form) or any(abs(f.get(a, 0.0) - want.get(a, 0.0)) > 1e-9 for a in keys):
                    cand[c] = False
                    if isinstance(f, Form) and keys:
                        a = max(keys, key=lambda a_: abs(f.get(a_, 0.0) - want.get(a_, 0.0)))
                        why[c] = 'N=%d, after %d values: weight of %s in `%s` is %.6g, the mean of the %d windowed values gives %.6g' % (
                            N, k + 1, a, c, f.get(a, 0.0), len(q), want.get(a, 0.0))
        transient(m, 'new', {ints[0]: N}, 3 * N + 6, probe=probe)
        ok_cells = {c for c, o in cand.items() if o}
        alive = ok_cells if alive is None else (alive & ok_cells)
        if not ok_cells and why and not detail:
            detail = sorted(why.values())[0]
    good = bool(alive) and steps > 0
    R.ob(rule, name, good, 'from the initial state the cell `%s` is the arithmetic mean of the values in the window after every update (%d steps, N in 1,2,3,5,8)' % (sorted(alive)[0], steps)
         if good else (detail or 'no float cell equals the mean of the windowed values at every step'), v.file)


def check_welford_cross(F, R, name='WelfordOnline', rule='W5-cross'):
    """The sum of squared deviations is maintained by Welford's recurrence: every change of the m2 cell is
    +(x − mean_before)(x − mean_after) for the value x that enters and −(e − mean_before)(e − mean_after) for the value e that
    leaves, where mean_after is exactly the one-step update mean_before ± (·−mean_before)/k of the same operation, the
    operations are chained (the add starts from the mean the remove left) and the chain ends in the stored mean."""
    v = view_by_name(F).get(name)
    if v is None:
        R.violation(rule, name, 'not found')
        return
    fl = flow(F, v)
    cells = [c for c in float_cells(fl) if self_referential(fl, c)]
    vs = {info['V'] for info in fl.queues.values() if info['V'] is not None}
    per_cell = {}
    for c in cells:
        try:
            per_cell[c] = [(tuple(conds), leaf) for conds, leaf in fl.cell_cases(c, deep=True) if fl.delivering(conds)]
        except OverflowError:
            per_cell[c] = None
    def is_prod(t):
        return (t[0] == 'op' and t[1] == 'mul' and all(f[0] == 'op' and f[1] == 'sub' for f in t[2]) and t[2][0][2][0] == t[2][1][2][0])
    m2s = [c for c in cells if per_cell[c] and any(any(is_prod(t) for _, t in _signed_terms(leaf)) for _, leaf in per_cell[c])]
    if not m2s and not cells:
        wf = [(c, window_functional(fl, c)) for c in float_cells(fl) if c not in fl.B.buffers]
        if wf and all(ok_ for _, (ok_, _) in wf):
            R.ob(rule, name, True, 'no incremental cross terms: %s are recomputed by passes over the current window' % [c for c, _ in wf], v.file)
            return
    if len(m2s) != 1:
        R.ob(rule, name, False, 'expected exactly one cell maintained by cross terms (x − a)(x − b), found %s' % m2s, v.file)
        return
    m2 = m2s[0]
    means = [c for c in cells if c != m2]
    zero = lit(0.0)
    bad = []
    n = 0
    for conds, leaf in per_cell[m2]:
        terms = _signed_terms(leaf)
        base = [t for sg, t in terms if not is_prod(t)]
        prods = [(sg, t) for sg, t in terms if is_prod(t)]
        if any(not (t == ('in', m2) or t == zero) for t in base) or any(sg < 0 for sg, t in terms if not is_prod(t)):
            bad.append('m2 takes a value that is not m2/0 plus cross terms: %s' % tstr(leaf)[:100])
            continue
        if not prods:
            if leaf != ('in', m2) and leaf != zero:
                bad.append('m2 changes without a cross term: %s' % tstr(leaf)[:80])
            continue
        chain = {}
        for sg, t in prods:
            n += 1
            X = t[2][0][2][0]
            a, b = t[2][0][2][1], t[2][1][2][1]
            step = 'add' if sg > 0 else 'sub'
            def one_step(A, B):
                if not (B[0] == 'op' and B[1] == step and len(B[2]) == 2):
                    return False
                pairs = [(B[2][0], B[2][1])] + ([(B[2][1], B[2][0])] if step == 'add' else [])
                return any(a_ == A and d_[0] == 'op' and d_[1] == 'div' and d_[2][0] == op('sub', X, A) for a_, d_ in pairs)
            if one_step(a, b):
                A, B = a, b
            elif one_step(b, a):
                A, B = b, a
            else:
                bad.append('%s(%s − %s)(%s − %s): the two means are not the mean before and after the same %s step' % (
                    '+' if sg > 0 else '−', tstr(X)[:30], tstr(a)[:40], tstr(X)[:30], tstr(b)[:40], 'add' if sg > 0 else 'remove'))
                continue
            if sg > 0 and X not in vs:
                bad.append('a cross term is added for %s, which is not the value entering the window' % tstr(X)[:50])
            if sg < 0 and (X in vs or not any(y[0] in ('front', 'pop_front', 'back', 'pop_back') for y in subterms(X))):
                bad.append('a cross term is removed for %s, which is not the value leaving the window' % tstr(X)[:50])
            chain[sg] = (A, B)
        if bad:
            continue
        first = chain.get(-1, chain.get(1))
        if 1 in chain and -1 in chain and chain[1][0] != chain[-1][1]:
            bad.append('the add step does not start from the mean left by the remove step')
        if first and not (first[0][0] == 'in' and first[0][1] in means or first[0] == zero):
            bad.append('the first step does not start from the stored mean: %s' % tstr(first[0])[:60])
        last = chain.get(1, chain.get(-1))
        if last:
            for mc in means:
                for conds2, leaf2 in per_cell.get(mc) or []:
                    if conds2 == conds and first[0] in (('in', mc), zero) and leaf2 != last[1]:
                        bad.append('the mean used by the last cross term is not the mean stored by this update (%s vs %s)' % (tstr(last[1])[:50], tstr(leaf2)[:50]))
    R.ob(rule, name + ':' + m2, not bad and n > 0,
         'every change of %s is ±(x − mean_before)(x − mean_after) of a properly chained add/remove step (%d cross terms)' % (m2, n) if not bad and n > 0
         else (bad[0] if bad else 'no cross term found'), v.file)


def check_predicate_counter(F, R, name, rule='PC'):
    views = view_by_name(F)
    v = views.get(name)
    if v is None:
        R.violation(rule, name, 'not found')
        return
    fl = flow(F, v)
    done = False
    for ev in fl.m.up_vg.events:
        if ev.kind == 'int_sub' and ev.data[0][0] == 'in' and ev.data[0][1] in fl.B.int_cells:
            ok, why = predicate_counter(fl.B, ev)
            R.ob(rule, '%s:%s' % (name, ev.data[0][1]), ok, why or 'decrement not justified by a counting invariant', v.file)
            done = True
    if not done:
        # alternative: the count is recomputed by a pass over the window on every delivered value
        for cell in fl.B.int_cells:
            okw, dw = window_functional(fl, cell)
            if okw:
                R.ob(rule, '%s:%s' % (name, cell), True, dw, v.file)
                done = True
    if not done:
        R.violation(rule, name + ':no-counter', 'no decremented counter found (the count of matching window entries is never reduced on eviction)', v.file)


def census(F, R, names, rule='CEN'):
    """Every state cell of the named views must forget: register / paired accumulator / rescanned extremum /
    counted predicate / Welford aggregate / listed hold register."""
    views = view_by_name(F)
    for n in names:
        v = views.get(n)
        if v is None:
            R.violation(rule, n, 'view %s not found' % n)
            continue
        fl = flow(F, v)
        welford = n in ('WelfordOnline', 'Vst', 'Vsct')
        for cell in sorted(fl.m.touched):
            ty = fl.B.ftypes.get(cell, {})
            if cell in fl.B.buffers:
                continue  # bounded by W1 / C18
            if ty.get('param') in v.view_params or (ty.get('adt') and ty.get('adt') in {x.adt_path for x in F.views}):
                continue
            key = '%s:%s' % (n, cell)
            # data-dependent holds
            holds = fl.holds(cell)
            base_cell = cell.split('.')[-1]
            allowed_hold = (n, cell) in spec.HOLD_REGISTERS or ((n, 'out') in spec.HOLD_REGISTERS and cell in fl.m.output_cells())
            data_holds = [h for h in holds if h[0] == 'data']
            full_holds = [h for h in holds if h[0] == 'full-window']
            if not self_referential(fl, cell) and not data_holds and not full_holds:
                R.ob(rule, key, True, 'register: assigned from current/evicted values only, never from itself', v.file)
                continue
            if cell in fl.B.int_cells:
                # counters: either == len(window) (Welford) or a counted predicate
                okc = any(entails_h(fl.base, op('eq', ('in', cell), ('len', ('in', q)))) for q in fl.B.buffers)
                if okc:
                    R.ob(rule, key, True, 'counter equal to the window length (inductive)', v.file)
                    continue
                okp = False
                why = ''
                for ev in fl.m.up_vg.events:
                    if ev.kind == 'int_sub' and ev.data[0] == ('in', cell):
                        okp, why = predicate_counter(fl.B, ev)
                R.ob(rule, key, okp, why or 'integer cell that is neither the window length nor a counted predicate: may accumulate history', v.file)
                continue
            kind, okx, detail = fl.extremum(cell)
            if kind is not None:
                R.ob(rule, key, okx, 'rescanned extremum: ' + detail, v.file)
                continue
            if not self_referential(fl, cell):
                # only holds its value: no accumulation
                if data_holds and allowed_hold:
                    okh, whyh = hold_is_exact(fl, cell)
                    R.ob(rule, key, okh, 'listed hold register: ' + spec.HOLD_REGISTERS.get((n, cell), spec.HOLD_REGISTERS.get((n, 'out'), '')) if okh else whyh, v.file)
                elif data_holds:
                    R.ob(rule, key, False, 'keeps its previous value under a data-dependent condition %s: not one of the allowed hold registers' % data_holds[0][1][:3], v.file)
                else:
                    R.ob(rule, key, False, 'keeps its previous value while values are leaving the window: stale state', v.file)
                continue
            acc = fl.accumulator(cell)
            if acc['ok'] and (acc['ev'] or any(c for _, c, _ in acc['ins'])):
                ok, detail, regmap_ = fl.mirror(acc)
                # the registers the mirror argument unifies (newest predecessor / oldest predecessor) must advance correctly,
                # including the first-value seed, or the first value's contribution is never taken back
                for a_, b_ in (regmap_ or {}).items():
                    if a_ != b_ and ok:
                        okp, dp = fl.register_pair(a_, b_)
                        if not okp:
                            ok, detail = False, dp
                R.ob(rule, key, ok, 'paired accumulator: ' + detail, v.file)
                continue
            kind, okx, detail = fl.extremum(cell)
            if kind is not None:
                R.ob(rule, key, okx, 'rescanned extremum: ' + detail, v.file)
                continue
            if welford and base_cell in ('mean', 'm2'):
                R.ob(rule, key, True, 'Welford aggregate: forgetting rests on the add/remove pair checked by W5 (C02)', v.file)
                continue
            if data_holds and allowed_hold and not self_referential_beyond_hold(fl, cell):
                okh, whyh = hold_is_exact(fl, cell)
                R.ob(rule, key, okh, 'listed hold register: ' + spec.HOLD_REGISTERS.get((n, cell), spec.HOLD_REGISTERS.get((n, 'out'), '')) if okh else whyh, v.file)
                continue
            if data_holds and not allowed_hold:
                R.ob(rule, key, False, 'keeps its previous value under a data-dependent condition %s: not one of the allowed hold registers' % data_holds[0][1][:3], v.file)
                continue
            if full_holds:
                R.ob(rule, key, False, 'keeps its previous value while values are leaving the window: stale state', v.file)
                continue
            R.ob(rule, key, False, 'self-referential state cell of unrecognised kind: it can carry information older than the window (%s)' % (acc['why'] or detail), v.file)


def hold_is_exact(fl, cell):
    """(ok, why): a listed hold register keeps its previous value exactly when the ratio it would otherwise report has a
    zero divisor: every data condition of a hold case is `D == 0` for a divisor D of the value stored in the other cases."""
    from .terms import relation
    try:
        cs = fl.cell_cases(cell, deep=False)
    except OverflowError:
        return False, 'too many cases'
    divisors = set()
    for conds, leaf in cs:
        if leaf != ('in', cell):
            for x in subterms(leaf):
                if x[0] == 'op' and x[1] == 'div' and len(x[2]) == 2:
                    divisors.add(x[2][1])
    zero = lit(0.0)
    from .terms import eval3
    CMP = ('eq', 'ne', 'lt', 'le', 'gt', 'ge')
    for conds, leaf in cs:
        if leaf != ('in', cell) or not fl.delivering(conds):
            continue
        # assume every divisor is non-zero: the hold case must then be infeasible, or hold for structural reasons only
        assign = {}
        data_atoms = []
        for c in conds:
            for x in subterms(c):
                if x[0] == 'op' and x[1] in CMP and len(x[2]) == 2 and not fl.structural(x):
                    rels = [relation(x, D, zero) for D in divisors]
                    rels = [r for r in rels if r is not None]
                    if rels and rels[0] == {'='}:
                        assign[x] = False
                    elif rels and rels[0] == {'<', '>'}:
                        assign[x] = True
                    else:
                        data_atoms.append(x)
        vals = [eval3(c, assign) for c in conds]
        if any(v_ is False for v_ in vals):
            continue
        undecided = [c for c, v_ in zip(conds, vals) if v_ is None]
        live = [x for x in data_atoms if any(x in set(subterms(c)) for c in undecided)]
        if live:
            return False, 'the previous value is also kept under %s, which is not "the divisor of the reported ratio is zero"' % tstr(live[0])[:70]
    return True, ''


def self_referential_beyond_hold(fl, cell):
    """True if the cell depends on itself other than by plain holding."""
    t = fl.m.up_fields.get(cell)
    try:
        cs = cases(t)
    except OverflowError:
        return True
    for conds, leaf in cs:
        if leaf == ('in', cell):
            continue
        if cell in free_ins(leaf):
            return True
    return False


def no_raw_in_state(F, R, names, rule='R2s'):
    """State of a wrapper may depend on the inner view's output only, never on the raw update() argument."""
    views = view_by_name(F)
    for n in names:
        v = views.get(n)
        if v is None:
            continue
        fl = flow(F, v)
        bad = []
        for cell, t in fl.m.up_fields.items():
            if any(x[0] == 'arg' for x in subterms(t)):
                bad.append(cell)
        R.ob(rule, n, not bad, 'no state cell depends on the raw argument' if not bad else 'state cell(s) %s depend on the raw update() argument' % bad, v.file)


# ----------------------------------------------------------------------------------------------


def run_c02(F, R):
    R.trust('rustc front end; sfa/vg.py; sfa/solve.py; spec tables in sfa/spec.py (transcribed from the property)')
    R.assume('N >= 1 and constructor asserts; inner views deliver finite values')
    check_windows(F, R, spec.WINDOW_VIEWS, 'W1')
    check_accumulators(F, R, {'Sma': 1, 'Cumulative': 1})
    check_extrema(F, R, {'Min': 1, 'Max': 1, 'HLNormalizer': 2})
    check_welford(F, R, 'WelfordOnline')
    check_welford_cross(F, R, 'WelfordOnline')
    welford_mean_history(F, R, 'WelfordOnline')
    check_predicate_counter(F, R, 'BinaryEntropy')
    no_raw_in_state(F, R, spec.WINDOW_VIEWS)
    from .e_typed_props import no_absolute_thresholds
    no_absolute_thresholds(F, R, spec.WINDOW_VIEWS, 'G0')
    roc_base(F, R)
    v_roc = view_by_name(F).get('Roc')
    if v_roc is not None:
        fl_roc = flow(F, v_roc)
        for cell in fl_roc.m.output_cells():
            okh, whyh = hold_is_exact(fl_roc, cell)
            R.ob('G-roc', 'Roc:hold', okh, 'the previous output is kept exactly when the base (the divisor) is 0' if okh else whyh, v_roc.file)
    R.floor('W1', 10)
    R.floor('M0', 2)   # per-view aggregate counts are enforced by M0 itself (running accumulators or per-step passes)
    R.floor('X1', 4)
    R.decline('that sum/len, the entropy expression, 2(x-min)/(max-min)-1, 100(x-b)/b, x/std, (x-mean)/std are the right closed '
              'formulas is a statement about values and is not decided; nor is the rounding-noise bound')


def roc_base(F, R):
    """Roc's base register: first value while the window has never been full, then the evicted (x_{t-N}) value."""
    v = view_by_name(F).get('Roc')
    if v is None:
        R.violation('G-roc', 'Roc', 'not found')
        return
    fl = flow(F, v)
    ok = False
    detail = 'no base register recognised'
    for cell in fl.m.touched:
        t = fl.m.up_fields[cell]
        try:
            cs = cases(t)
        except OverflowError:
            continue
        es = fl.evict_terms()
        vs = {i['V'] for i in fl.queues.values() if i['V'] is not None}
        kinds = set()
        good = True
        for conds, leaf in cs:
            if not fl.delivering(conds) or not fl.feasible(conds):
                continue
            val = leaf[1] if leaf[0] == 'some' else leaf
            evicting = any(g in conds for g in fl.pop_guards())
            if evicting:
                if val in es:
                    kinds.add('evicted')
                else:
                    good = False
            else:
                if val in vs:
                    kinds.add('first')
                elif leaf == ('in', cell):
                    kinds.add('hold-while-filling')
                else:
                    good = False
        if good and 'evicted' in kinds and 'first' in kinds:
            ok = True
            base_cell = cell
            detail = 'base register `%s` := evicted value on eviction, first value initially, unchanged while filling' % cell
    R.ob('G-roc', 'Roc:base', ok, detail, v.file)
    if ok:
        # ... and the reported ratio divides by THAT register's value (as this update leaves it), not by a substitute
        tb = fl.m.up_fields.get(base_cell)
        allowed = {payload(tb), tb}
        from .terms import nondelivering as _nd
        inner_ = tb
        while inner_[0] == 'phi' and (_nd((inner_[1],)) or _nd((neg_cond(inner_[1]),))):
            inner_ = inner_[3] if _nd((inner_[1],)) else inner_[2]      # the value on the delivering path
            allowed.add(inner_)
            allowed.add(payload(inner_))
        try:
            for conds, leaf in cases(tb):
                allowed.add(leaf)
                allowed.add(payload(leaf))
        except OverflowError:
            pass
        bad = None
        ndiv = 0
        for oc in [c for c in fl.m.touched if c not in fl.B.buffers and c != base_cell]:
            t = fl.m.up_fields.get(oc)
            for x in subterms(t):
                if x[0] == 'op' and x[1] == 'div' and len(x[2]) == 2 and any(y[0] == 'child' for y in subterms(x[2][0])):
                    ndiv += 1
                    if x[2][1] not in allowed:
                        bad = 'the rate of change divides by %s, which is not the value of the base register `%s`' % (tstr(x[2][1])[:70], base_cell)
        R.ob('G-roc', 'Roc:divisor', bad is None and ndiv > 0, 'the reported ratio divides by the base register itself' if bad is None and ndiv > 0 else (bad or 'no ratio found'), v.file)


def run_c03(F, R):
    R.trust('rustc front end; sfa/vg.py; sfa/solve.py; spec tables FINITE_MEMORY / HOLD_REGISTERS')
    R.assume('N >= 1; for PolarizedFractalEfficiency the supplied moving average is itself a finite-memory view')
    check_windows(F, R, [n for n in spec.FINITE_MEMORY if n not in ('Vst', 'Vsct')] + ['Vst', 'Vsct'], 'W1')
    census(F, R, spec.FINITE_MEMORY)
    # the census accepts mean/m2 of the Welford views on the strength of these two rules
    check_welford(F, R, 'WelfordOnline')
    check_welford_cross(F, R, 'WelfordOnline')
    from .e_typed_props import no_absolute_thresholds
    no_absolute_thresholds(F, R, spec.FINITE_MEMORY, 'G0')
    # K = N+1 for Roc: the base of the reported ratio is the value that left the window in THIS update (the refreshed register),
    # not the register's entry value, which is one step older (K would be N+2)
    roc_base(F, R)
    R.floor('W1', 17)
    R.floor('CEN', 30)
    R.decline('that paired +g/-g cancel exactly (K is not computed; "up to rounding" is not decided); Alma 2N and PFE N+M-1 are taken from the statement')


def run_c05(F, R):
    R.trust('rustc front end; sfa/vg.py; sfa/solve.py')
    check_windows(F, R, spec.WINDOW_VIEWS_C05, 'W1')
    check_accumulators(F, R, {'Rsi': 2, 'MyRSI': 2})
    no_raw_in_state(F, R, spec.WINDOW_VIEWS_C05)
    census(F, R, spec.WINDOW_VIEWS_C05, 'CEN')
    from .e_typed_props import no_absolute_thresholds
    no_absolute_thresholds(F, R, spec.WINDOW_VIEWS_C05, 'G0')
    ratio_guards(F, R)
    output_from_exit_aggregates(F, R, ['Rsi', 'MyRSI'])
    R.floor('G-exit', 2)
    R.floor('M0', 2)
    R.decline('100 - 100/(1+G/L) == 100 G/(G+L), the ±1 / negation corollaries and residue after a spike leaves (rounding) are value properties')


def output_from_exit_aggregates(F, R, names, rule='G-exit'):
    """The reported value is formed from the aggregates as this update leaves them: on every exit of update() that writes
    the output cell, each aggregate the output depends on enters only through its exit value (not through a value from before
    the eviction/insertion of this step)."""
    from .terms import map_term
    views = view_by_name(F)
    for n in names:
        v = views.get(n)
        if v is None:
            R.violation(rule, n, 'not found')
            continue
        fl = flow(F, v)
        out_cells = fl.m.output_cells()
        running = [c for c in float_cells(fl) if self_referential(fl, c) and c not in out_cells]
        # aggregates: running accumulators and cells recomputed by a pass over the window (plain registers such as the
        # previous value are legitimately read as they were on entry)
        aggs = running + [c for c in float_cells(fl) if c not in out_cells and c not in fl.B.buffers and c not in running
                          and any(x[0] == 'fold' for x in subterms(fl.m.up_fields.get(c) or ('?',)))]
        bad = []
        used = 0
        if not out_cells:
            R.ob(rule, n, True, 'no output cell is written by update(): last() reads the aggregates as update() left them', v.file)
            continue
        for ex in fl.m.up_exits:
            for oc in out_cells:
                t = ex.fields.get(oc, ('in', oc))
                if t == ('in', oc):
                    continue
                for a in aggs:
                    A = ex.fields.get(a, ('in', a))
                    if A == ('in', a):
                        continue
                    mark = ('exitval', a)
                    t2 = map_term(t, lambda x, A=A, mark=mark: mark if x == A else x)
                    if any(x == mark for x in subterms(t2)):
                        used += 1
                    stale = [x for x in subterms(t2) if x == ('in', a)]
                    if stale:
                        bad.append('%s is computed from a value of %s that is not the one this update leaves behind (exit value %s)' % (
                            oc, a, tstr(A)[:70]))
        okx = not bad and (used > 0 or not running)
        R.ob(rule, n, okx, 'the output is formed from the values this update leaves in %s (%d uses)' % (aggs, used) if okx
             else (bad[0] if bad else 'the output does not use any aggregate exit value'), v.file)


def _flat_and(conds):
    """Path conditions with top-level conjunctions split into their conjuncts (a && b holds iff both hold)."""
    out = []
    todo = list(conds)
    while todo:
        c = todo.pop(0)
        if c[0] == 'op' and c[1] == 'and':
            todo = list(c[2]) + todo
        else:
            out.append(c)
    return out


def ratio_guards(F, R):
    """Rsi: 100 exactly when the loss aggregate is 0; MyRSI: the ratio is formed only when cu+cd != 0 (else hold)."""
    views = view_by_name(F)
    for n in ('Rsi', 'MyRSI'):
        v = views.get(n)
        if v is None:
            continue
        fl = flow(F, v)
        out_cells = fl.m.output_cells()
        ok = False
        detail = 'no guarded ratio found'
        sources = [(cell, fl.m.up_fields[cell]) for cell in out_cells]
        if n == 'Rsi':
            # the reported value, wherever it is computed (cached by update() or derived in last())
            sources.append(('<last>', fl.m.last_after_update()))
        for cell, t in sources:
            for x in subterms(t):
                if x[0] == 'phi':
                    c = x[1]
                    neg = False
                    while c[0] == 'op' and c[1] == 'not':
                        neg = not neg
                        c = c[2][0]
                    if c[0] == 'op' and c[1] in ('eq', 'ne', 'le', 'gt') and c[2][1] == lit(0.0):
                        guard_term = c[2][0]
                        zero_is_then = (c[1] in ('eq', 'le')) != neg
                        zero_branch = x[2] if zero_is_then else x[3]
                        other = x[3] if zero_is_then else x[2]
                        divs = [y for y in subterms(other) if y[0] == 'op' and y[1] == 'div' and y[2][1] == guard_term]
                        if divs and not any(y[0] == 'op' and y[1] == 'div' and y[2][1] == guard_term for y in subterms(zero_branch)):
                            if n == 'Rsi':
                                zb = zero_branch[1] if zero_branch[0] == 'some' else zero_branch
                                ok = zb == lit(100.0)
                                detail = 'reports 100 exactly when the loss aggregate is (at most) 0, divides by it otherwise' if ok else 'zero-loss branch reports %s, not 100' % tstr(zb)[:40]
                                # ... and in EVERY case: any reported value other than 100 needs L > 0 on its path
                                from .terms import relation as _rel
                                try:
                                    for conds_, leaf_ in cases(t):
                                        lv = leaf_[1] if leaf_[0] == 'some' else leaf_
                                        if leaf_[0] in ('none',) or lv == lit(100.0) or leaf_ == ('in', cell) or (leaf_[0] == 'in'):
                                            continue
                                        if not fl.delivering(conds_):
                                            continue
                                        conds_ = _flat_and(conds_)
                                        divs_ = {y[2][1] for y in subterms(lv) if y[0] == 'op' and y[1] == 'div' and len(y[2]) == 2}
                                        pos = any((_rel(c_, D_, lit(0.0)) or {'<', '=', '>'}) <= {'>'} for c_ in conds_ for D_ in divs_)
                                        if not pos and lv == lit(0.0):
                                            # the literal 0 = 100·G/(G+L) at G = 0: accepted on a path that shows L > 0 for the guarded
                                            # divisor L and G <= 0 for the numerator G of the guarded ratio (rounding residue included)
                                            numers = set()
                                            for y in divs:
                                                g_ = y[2][0]
                                                numers.add(g_)
                                                if g_[0] == 'op' and g_[1] in ('max', 'fmax') and len(g_[2]) == 2 and lit(0.0) in g_[2]:
                                                    numers.add(g_[2][0] if g_[2][1] == lit(0.0) else g_[2][1])
                                            lpos = any((_rel(c_, guard_term, lit(0.0)) or {'<', '=', '>'}) <= {'>'} for c_ in conds_)
                                            gnon = any((_rel(c_, G_, lit(0.0)) or {'<', '=', '>'}) <= {'<', '='} for c_ in conds_ for G_ in numers)
                                            pos = lpos and gnon
                                        if ok and not pos:
                                            ok = False
                                            detail = 'a value other than 100 (%s) is reported on a path that does not exclude a zero loss aggregate' % tstr(lv)[:40]
                                except OverflowError:
                                    pass
                            else:
                                ok = (zero_branch == ('in', cell) or zero_branch == ('some', ('in', cell))) and c[1] in ('eq', 'ne')
                                detail = 'ratio formed only when cu+cd != 0, previous output held otherwise' if ok else 'flat-window branch is %s, not a hold' % tstr(zero_branch)[:40]
        R.ob('G-ratio', n, ok, detail, v.file)


_sumfacts = {}


def buffer_sum_facts(F, v):
    """Derived (not assumed) facts  A >= 0  and  A >= front(Q)  for a float cell A that is provably the sum of the
    elements stored in buffer Q: A and Q start at 0 / empty, every delivering step pushes a value w onto Q and adds the same
    term w to A, and an eviction pops front(Q) and subtracts exactly front(Q) from A -- and every pushed w is >= 0 by
    interval analysis. Returns a list of condition terms over the entry state."""
    key = (id(F), v.name)
    if key in _sumfacts:
        return _sumfacts[key]
    out = []
    _sumfacts[key] = out
    try:
        fl = flow(F, v)
    except Exception:
        return out
    from .fsign import FSign
    inits = fl.m.inits()
    for q, info in fl.queues.items():
        V, E = info.get('V'), info.get('E')
        if V is None or info.get('shape') != 'pop-then-push':
            continue
        if not FSign([]).rng(V).nonneg():
            continue
        for a in float_cells(fl):
            if a in fl.B.buffers or a == q:
                continue
            t = fl.m.up_fields.get(a)
            if t is None:
                continue
            try:
                cs = fl.cell_cases(a, deep=True)
            except OverflowError:
                continue
            good = True
            seen = 0
            for conds, leaf in cs:
                if not fl.delivering(conds):
                    if leaf != ('in', a):
                        good = False
                    continue
                st = signed_terms(fl.resolve(leaf, conds))
                selfs = [x for x in st if x[1] == ('in', a)]
                rest = sorted([x for x in st if x[1] != ('in', a)], key=str)
                evicting = any(g in conds for g in fl.pop_guards()) or info['G'] == TRUE
                want = [(1, fl.resolve(V, conds))] + ([(-1, E)] if evicting and E is not None else [])
                if len(selfs) != 1 or selfs[0][0] != 1 or rest != sorted(want, key=str):
                    good = False
                    break
                seen += 1
            if not good or not seen:
                continue
            # zero / empty at construction
            ok_init = bool(inits)
            for nm, init, pre in inits:
                ia, iq = init.get(a), init.get(q)
                if not (ia is not None and ia[0] == 'lit' and ia[1] == 0 and iq is not None and iq[0] == 'seq_new'):
                    ok_init = False
            if not ok_init:
                continue
            out.append(op('ge', ('in', a), lit(0.0)))
            out.append(op('ge', ('in', a), ('front', ('in', q))))
    return out


_elemfacts = {}


def buffer_elem_facts(F, v):
    """Derived facts about every element stored in a queue: if the queue starts empty and every value ever pushed onto it is
    > 0 (>= 0) by interval analysis, so is every element it holds: ('elems', in.q) > 0."""
    key = (id(F), v.name)
    if key in _elemfacts:
        return _elemfacts[key]
    out = []
    _elemfacts[key] = out
    try:
        fl = flow(F, v)
    except Exception:
        return out
    from .fsign import FSign
    inits = fl.m.inits()
    for q, info in fl.queues.items():
        V = info.get('V')
        if V is None:
            continue
        if not inits or not all((init.get(q) or ('?',))[0] == 'seq_new' for nm, init, pre in inits):
            continue
        # every push onto q in any exit
        pushed = set()
        for ex in fl.m.up_exits:
            for x in subterms(ex.fields.get(q, ('in', q))):
                if x[0] in ('push_back', 'push_front', 'insert'):
                    pushed.add(x[2])
                if x[0] in ('set', 'set_back', 'set_front', 'fold', 'unk'):
                    pushed.add(None)
        if None in pushed or not pushed:
            continue
        rs = [FSign([]).rng(p_) for p_ in pushed]
        if all(r.positive() for r in rs):
            out.append(op('gt', ('elems', ('in', q)), lit(0.0)))
        elif all(r.nonneg() for r in rs):
            out.append(op('ge', ('elems', ('in', q)), lit(0.0)))
    return out


_extfacts = {}


def extremum_facts(F, v):
    """Derived facts  m <= r <= M  for a view whose cells m / M are verified window extrema (Flow.extremum: fresh, complete
    rescan, newest value covered) and whose cell r is a register that is assigned the newest value on every delivering step:
    r is an element of the window m and M are extrema of."""
    key = (id(F), v.name)
    if key in _extfacts:
        return _extfacts[key]
    out = []
    _extfacts[key] = out
    try:
        fl = flow(F, v)
    except Exception:
        return out
    if not fl.queues:
        return out
    vs = {info['V'] for info in fl.queues.values() if info['V'] is not None}
    mins, maxs, regs = [], [], []
    for cell in float_cells(fl):
        if cell in fl.B.buffers:
            continue
        t = fl.m.up_fields.get(cell)
        if t is None:
            continue
        try:
            cs = fl.cell_cases(cell, deep=False)
        except OverflowError:
            continue
        deliv = [leaf for conds, leaf in cs if fl.delivering(conds)]
        if deliv and all((l[1] if l[0] == 'some' else l) in vs for l in deliv):
            regs.append(cell)
            continue
        if not any(x[0] in ('fold', 'reduce') for x in subterms(t)):
            continue
        try:
            kind, ok, detail = fl.extremum(cell)
        except Exception:
            continue
        if ok and kind == 'min':
            mins.append(cell)
        elif ok and kind == 'max':
            maxs.append(cell)
    def cv(c):
        # (a register kept inside an Option cell is read through its payload)
        return ('payload', ('in', c)) if c in getattr(fl.B, 'options', ()) else ('in', c)
    for r in regs:
        for m_ in mins:
            out.append(op('le', cv(m_), cv(r)))
        for M_ in maxs:
            out.append(op('le', cv(r), cv(M_)))
    return out


_crossfacts = {}


def cross_term_facts(F, v):
    """Derived fact  s >= 0  for a zero-initialised cell whose every update is  s := s + (x − a)(x − b)  with b the one-step mean
    update a + (x − a)/k of a: b lies between a and x, so the two factors have the same sign (also in floating point)."""
    key = (id(F), v.name)
    if key in _crossfacts:
        return _crossfacts[key]
    out = []
    _crossfacts[key] = out
    m = model(F, v)
    from .terms import nondelivering
    inits = m.inits()
    for cell, t in m.up_fields.items():
        good = True
        seen = 0
        for ex in m.up_exits:
            val = ex.fields.get(cell, ('in', cell))
            if val == ('in', cell):
                continue
            if nondelivering(ex.pc):
                good = False
                break
            st = signed_terms(val)
            selfs = [x for x in st if x[1] == ('in', cell)]
            rest = [x for x in st if x[1] != ('in', cell)]
            if len(selfs) != 1 or selfs[0][0] != 1 or len(rest) != 1 or rest[0][0] != 1:
                good = False
                break
            p_ = rest[0][1]
            if not (p_[0] == 'op' and p_[1] == 'mul' and all(f[0] == 'op' and f[1] == 'sub' for f in p_[2]) and p_[2][0][2][0] == p_[2][1][2][0]):
                good = False
                break
            X = p_[2][0][2][0]
            a, b = p_[2][0][2][1], p_[2][1][2][1]

            def one_step(A, B):
                if not (B[0] == 'op' and B[1] == 'add' and len(B[2]) == 2):
                    return False
                return any(a_ == A and d_[0] == 'op' and d_[1] == 'div' and d_[2][0] == op('sub', X, A) and d_[2][1][0] == 'op' and d_[2][1][1] == 'from_int'
                           for a_, d_ in ((B[2][0], B[2][1]), (B[2][1], B[2][0])))
            if not (one_step(a, b) or one_step(b, a)):
                good = False
                break
            seen += 1
        if good and seen and inits and all((init.get(cell) or ('?',))[0] == 'lit' and init.get(cell)[1] == 0 for nm, init, pre in inits):
            out.append(op('ge', ('in', cell), lit(0.0)))
    return out
