"""C07 — bounded ranges, only where the bound is constructed by the code (interval/sign analysis and reused rules)."""
from .model import model
from .e_window import view_by_name
from .fsign import FSign, Iv
from .terms import cases, cases_deep, relation
from .vg import subterms, tstr, op, lit, NONE
from . import e_rolling, e_trend, e_lti_props
from .e_ready import int_lb_factory
from .e3_bounds import Bounds
from .solve import Hyps


def output_range(F, R, name, lo, hi, rule):
    v = view_by_name(F).get(name)
    if v is None:
        R.violation(rule, name, 'not found')
        return
    m = model(F, v)
    B = Bounds(F, v)
    inv = B.houdini()
    base = Hyps(B.pre + inv, B.ctx(m.last_vg))
    val = m.last_after_update()
    try:
        cs = cases(val)
    except OverflowError:
        R.violation(rule, name, 'too many cases')
        return
    ok = True
    detail = ''
    n = 0
    for conds, leaf in cs:
        if leaf == NONE or leaf[0] == 'none':
            continue
        if leaf[0] == 'in' or (leaf[0] == 'some' and leaf[1][0] == 'in'):
            continue  # previous (already bounded) answer kept
        x = leaf[1] if leaf[0] == 'some' else leaf
        H = base.extended([c for c in conds])
        fs = FSign(list(conds), int_lb_factory(H))
        r = fs.rng(x)
        n += 1
        if not (r.lo >= lo and r.hi <= hi):
            ok = False
            detail = 'reported value %s has range %s by construction, not within [%s, %s]' % (tstr(x)[:60], r, lo, hi)
    R.ob(rule, name, ok and n > 0, 'every reported value lies in [%s, %s] by construction (%d cases)' % (lo, hi, n) if ok else detail, v.file)


def state_range(F, R, name, lo, hi, rule):
    """Range of last() as a function of the stored state, under the reviewed state invariants of sfa/e_ready.py ASSUMED
    (each justified by a rule of another property, e.g. C02 X1/X2 for tracked extrema) and the guards on the path."""
    from .e_ready import assumed_facts, AllCases
    v = view_by_name(F).get(name)
    if v is None:
        R.violation(rule, name, 'not found')
        return
    m = model(F, v)
    B = Bounds(F, v)
    inv = B.houdini()
    base = Hyps(B.pre + inv, B.ctx(m.last_vg))
    try:
        cs = cases(m.last_ret)
    except OverflowError:
        R.violation(rule, name, 'too many cases')
        return
    ok = True
    detail = ''
    n = 0
    for conds, leaf in cs:
        if leaf == NONE or leaf[0] == 'none':
            continue
        x = leaf[1] if leaf[0] == 'some' else leaf
        H = base.extended([c for c in conds])
        from .e_window import extremum_facts, cross_term_facts, buffer_sum_facts
        facts = assumed_facts(name, [x] + [c for c in conds if isinstance(c, tuple)], v) + extremum_facts(F, v) + cross_term_facts(F, v) + buffer_sum_facts(F, v)
        fs = AllCases(FSign(list(conds) + facts, int_lb_factory(H)).cases())
        r = fs.rng(x)
        n += 1
        if not (r.lo >= lo and r.hi <= hi):
            # registers kept together in one Option cell: decide per presence case (see e_ready.presence_split)
            from .e_ready import presence_split
            r2 = presence_split(x, [c for c in conds if isinstance(c, tuple)], facts,
                                lambda cs_: AllCases(FSign(cs_, int_lb_factory(H)).cases()), 'range', (lo, hi),
                                is_oos=lambda pre_: bool(m.last_vg.oos_names(pre_)))
            if r2 is not None and r2[0]:
                continue
            ok = False
            detail = 'last() = %s has range %s under the state invariants, not within [%s, %s]' % (tstr(x)[:60], r, lo, hi)
    R.ob(rule, name, ok and n > 0, 'every value last() can return lies in [%s, %s] given the state invariants (%d cases)' % (lo, hi, n) if ok else detail, v.file)


def clip_rule(F, R):
    for name, direction in (('GTE', 'ge'), ('LTE', 'le')):
        v = view_by_name(F).get(name)
        if v is None:
            R.violation('RG-clip', name, 'not found')
            continue
        m = model(F, v)
        val = m.last_after_update()
        clips = [('in', p) for p in m.params]
        ok = bool(clips)
        detail = ''
        for conds, leaf in cases(val):
            if leaf[0] != 'some':
                continue
            x = leaf[1]
            if x in clips:
                continue
            allowed = {'<', '=', '>'}
            for c in conds:
                for clip in clips:
                    r = relation(c, x, clip)
                    if r is not None:
                        allowed &= r
            good = allowed <= ({'>', '='} if direction == 'ge' else {'<', '='})
            if x[0] == 'op' and x[1] == ('max' if direction == 'ge' else 'min') and any(cl in x[2] for cl in clips):
                good = True
            if not good:
                ok = False
                detail = 'reports %s where it may be on the wrong side of the clip' % tstr(x)[:50]
        R.ob('RG-clip', name, ok, 'every reported value is %s the clip' % ('>=' if direction == 'ge' else '<=') if ok else detail, v.file)


def pfe_sign_normal(fed):
    """One spelling for a signed quotient:  (S · φ(c ? ∓1 : ±1)) / D  and  φ(c ? ∓1 : ±1) · (S / D)  become
    φ(c ? (∓S)/D : (±S)/D), the form the PFE rules read (−(a/b) is spelled (−a)/b throughout the value graph)."""
    from .terms import map_term

    def pm(t):
        return t in (lit(1.0), lit(-1.0))

    def signed(a, sgn, D):
        return op('div', a if sgn == lit(1.0) else op('neg', a), D)

    def rw(n):
        if n[0] == 'op' and n[1] == 'div' and n[2][0][0] == 'op' and n[2][0][1] == 'mul' and len(n[2][0][2]) == 2:
            a, b = n[2][0][2]
            for S, ph in ((a, b), (b, a)):
                if ph[0] == 'phi' and pm(ph[2]) and pm(ph[3]) and ph[2] != ph[3]:
                    return ('phi', ph[1], signed(S, ph[2], n[2][1]), signed(S, ph[3], n[2][1]))
        if n[0] == 'op' and n[1] == 'mul' and len(n[2]) == 2:
            a, b = n[2]
            for Q, ph in ((a, b), (b, a)):
                if ph[0] == 'phi' and pm(ph[2]) and pm(ph[3]) and ph[2] != ph[3] and Q[0] == 'op' and Q[1] == 'div':
                    return ('phi', ph[1], signed(Q[2][0], ph[2], Q[2][1]), signed(Q[2][0], ph[3], Q[2][1]))
        return n
    return map_term(fed, rw)


def pfe_decompose(F, v, m, Ns):
    """For each N: ('ok', N, DX, H, segs, unit) with the ratio sqrt(DX² + H²) / Σ sqrt(seg² + c) evaluated over symbolic window
    values q0..q(N−1) (oldest first), or ('shape', why). DX and the segments are linear forms over the window values."""
    from .lti import LinEval, Form, NonConst
    fed = None
    for cp, feeds in m.up_vg.child_fed.items():
        for pc, arg, node in feeds:
            if arg[0] != 'arg':
                fed = arg
    ratio = None
    if fed is not None:
        fed = pfe_sign_normal(fed)
        for x in subterms(fed):
            if x[0] == 'op' and x[1] == 'div' and x[2][0][0] == 'op' and x[2][0][1] == 'sqrt' and any(y[0] == 'fold' for y in subterms(x[2][1])):
                ratio = x
                break
    if ratio is None:
        yield ('noratio',)
        return
    yield ('ratio', ratio, fed)
    num_arg = ratio[2][0][2][0]
    den = ratio[2][1]
    from .e_trend import window_names
    QN_, PN_ = window_names(F, v)
    for N in Ns:
        st = {QN_: [Form({'q%d' % j: 1.0}) for j in range(N)], PN_: N}
        ev = LinEval(st, m.up_vg.loops)
        # numerator: powi(DX, 2) + powi(H, 2)
        if not (num_arg[0] == 'op' and num_arg[1] == 'add'):
            yield ('shape',)
            return
        DX = H = None
        for part in num_arg[2]:
            if part[0] == 'op' and part[1] == 'powi':
                try:
                    f = ev.ev(part[2][0])
                except NonConst:
                    continue
                if isinstance(f, Form) and f.is_const():
                    H = f.const()
                elif isinstance(f, Form):
                    DX = f
        folds = [x for x in subterms(den) if x[0] == 'fold']
        if DX is None or H is None or not folds:
            yield ('shape',)
            return
        fd = folds[0]
        L, key, nxt = fd[1], fd[2], fd[4]
        segs = []
        unit = True
        try:
            idxs = ev.indices(L)
        except NonConst:
            yield ('shape',)
            return
        # all loop-carried variables advance together (the walk may keep the previous element in a second variable)
        carried_ = (m.up_vg.loops.get(L) or {}).get('carried', {})
        cur_ = {}
        try:
            for kk, (i0, n0) in carried_.items():
                cur_[kk] = Form({'acc': 1.0}) if kk == key else ev.ev(i0)
        except NonConst:
            yield ('shape',)
            return
        failed = False
        for i in idxs:
            ev.idx[L] = i
            for kk in carried_:
                ev.mu[(L, kk)] = cur_[kk]
            ev.mu[(L, key)] = Form({'acc': 1.0})
            try:
                nxt_vals = {kk: (ev.ev(n0) if (n0 is not None and kk != key) else cur_[kk]) for kk, (i0, n0) in carried_.items()}
            except NonConst:
                failed = True
                break
            for y in subterms(nxt):
                if y[0] == 'op' and y[1] == 'sqrt':
                    inner = y[2][0]
                    if inner[0] == 'op' and inner[1] == 'add':
                        for part in inner[2]:
                            if part[0] == 'op' and part[1] == 'powi':
                                segs.append(ev.ev(part[2][0]))
                            else:
                                try:
                                    c = ev.ev(part)
                                    if not (isinstance(c, Form) and c.is_const() and c.const() == 1.0):
                                        unit = False
                                except NonConst:
                                    unit = False
            cur_ = nxt_vals
        ev.idx.pop(L, None)
        for kk in list(carried_) + [key]:
            ev.mu.pop((L, kk), None)
        if failed:
            yield ('shape',)
            return
        yield ('ok', N, DX, H, segs, unit)


def pfe_rule(F, R, tier):
    """|PFE ratio| <= 1 by the triangle inequality needs: the ratio is sqrt(dx² + H²) / Σ sqrt(d_i² + 1) where the segments d_i
    telescope to dx and H equals the number of segments. Decided with symbolic window values for concrete N."""
    from .lti import Form
    v = view_by_name(F).get('PolarizedFractalEfficiency')
    if v is None:
        R.violation('RG-pfe', 'PolarizedFractalEfficiency', 'not found')
        return
    m = model(F, v)
    probs = set()
    checked = 0
    for rec in pfe_decompose(F, v, m, range(3, (10 if tier == 'quick' else 33))):
        if rec[0] == 'ratio':
            continue
        if rec[0] == 'noratio':
            R.violation('RG-pfe', 'PolarizedFractalEfficiency:shape', 'the value fed to the moving average is not sqrt(dx² + H²) / Σ sqrt(d² + 1)', v.file)
            return
        if rec[0] == 'shape':
            probs.add('shape')
            break
        _, N, DX, H, segs, unit = rec
        checked += 1
        total = Form()
        for sgm in segs:
            if isinstance(sgm, Form):
                total = total.plus(sgm)
        total = Form({a: c for a, c in total.items() if abs(c) > 1e-12})
        dxn = Form({a: c for a, c in DX.items() if abs(c) > 1e-12})
        if not unit:
            probs.add('unit-step')
        if abs(H - len(segs)) > 1e-9:
            probs.add('extent!=segments')
        if total != dxn:
            probs.add('segments-do-not-span-dx')
    for pr in sorted(probs):
        msg = {'extent!=segments': 'the horizontal extent under the numerator root (N) differs from the number of summed unit steps (N−2): on a constant window the ratio is N/(N−2) > 1',
               'segments-do-not-span-dx': 'the summed segments do not telescope to the numerator\'s x_t − x_(t−N+1): the oldest step of the window is not in the path length',
               'unit-step': 'a path segment is not sqrt(d² + 1)', 'shape': 'ratio shape not recognised'}[pr]
        R.violation('RG-pfe', 'PolarizedFractalEfficiency:' + pr, msg, v.file)
    R.ob('RG-pfe', 'PolarizedFractalEfficiency', not probs and checked > 0, '|ratio| <= 1 by the triangle inequality: extent = number of unit segments and the segments span dx (N = 3..%d)' % (9 if tier == 'quick' else 32)
         if not probs else 'see the specific RG-pfe findings', v.file) if not probs else None


def pfe_statement_rule(F, R, tier):
    """C11: the value fed to the moving average is sqrt((x_t − x_(t−N+1))² + N²) / Σ sqrt(d² + 1) over the window's N−2 most
    recent steps (d = x_(t−i) − x_(t−i−1), i = 0..N−3). Decided with symbolic window values for concrete N."""
    from .lti import Form
    v = view_by_name(F).get('PolarizedFractalEfficiency')
    if v is None:
        return
    m = model(F, v)
    bad = []
    checked = 0
    for rec in pfe_decompose(F, v, m, range(3, (13 if tier == 'quick' else 40))):
        if rec[0] == 'ratio':
            # what is fed to the moving average is the ratio itself, with one of two signs: not a further function of it
            from .terms import cases as _cases
            _, ratio_, fed_ = rec
            negs = (op('neg', ratio_), op('div', op('neg', ratio_[2][0]), ratio_[2][1]))
            try:
                leaves = [lf for _, lf in _cases(fed_)]
            except OverflowError:
                leaves = [None]
            for lf in leaves:
                if lf != ratio_ and lf not in negs:
                    bad.append('the value fed to the moving average is %s, a further function of the signed ratio' % (tstr(lf)[:60] if lf is not None else '?'))
                    break
            continue
        if rec[0] != 'ok':
            bad.append('the value fed to the moving average is not of the form sqrt(dx² + H²) / Σ sqrt(d² + 1)')
            break
        _, N, DX, H, segs, unit = rec
        checked += 1
        clean = lambda f: tuple(sorted((a, round(c, 12)) for a, c in f.items() if abs(c) > 1e-12))
        # the window after this update, oldest first: q1 .. q(N−1) (entry values, the oldest one evicted) and the current value u
        w = ['q%d' % (j + 1) for j in range(N - 1)] + ['u']
        want_dx = clean(Form({w[N - 1]: 1.0, w[0]: -1.0}))
        want_segs = sorted(clean(Form({w[N - 1 - i]: 1.0, w[N - 2 - i]: -1.0})) for i in range(N - 2))
        if clean(DX) != want_dx:
            bad.append('N=%d: the numerator spans %s, not x_t − x_(t−N+1)' % (N, dict(clean(DX))))
        elif abs(H - N) > 1e-9:
            bad.append('N=%d: the horizontal extent under the numerator root is %g, not N' % (N, H))
        elif not unit:
            bad.append('N=%d: a path segment is not sqrt(d² + 1)' % N)
        elif sorted(clean(sg) for sg in segs if isinstance(sg, Form)) != want_segs or len(segs) != N - 2:
            bad.append('N=%d: the path length sums %d segments %s, not the N−2 most recent steps' % (N, len(segs), [dict(clean(sg)) for sg in segs if isinstance(sg, Form)][:3]))
    R.ob('K7-pfe-ratio', 'PolarizedFractalEfficiency', not bad and checked > 0,
         'ratio = sqrt((x_t − x_(t−N+1))² + N²) / Σ sqrt(d² + 1) over the N−2 most recent steps (%d window lengths, symbolic window values)' % checked
         if not bad and checked > 0 else (bad[0] if bad else 'nothing analysed'), v.file)


def vsct_rule(F, R):
    """|Vsct| <= (N-1)/sqrt(N) is Samuelson's inequality for a member of a sample against the sample mean and the (n-1) sample
    standard deviation. It holds by construction when: the embedded view is the crate's WelfordOnline (whose mean / m2 / count
    discipline is verified under C02), the value handed out is exactly (last - mean) / std with `mean` and `std` read from that
    embedded view's own getters, and `last` is the value fed to it in the same update (hence a member of its window)."""
    from .terms import map_term
    views = view_by_name(F)
    v = views.get('Vsct')
    w = views.get('WelfordOnline')
    if v is None or w is None:
        return
    m = model(F, v)
    kids = [f for f in v.children_fields() if f.child_adt == w.adt_path]
    if len(kids) != 1:
        R.ob('RG-vsct', 'Vsct', False, 'Vsct does not embed exactly one WelfordOnline', v.file)
        return
    pre = kids[0].name + '.'
    mw = model(F, w)

    def renamed(t):
        return map_term(t, lambda x: ('in', pre + x[1]) if (x[0] == 'in') else x)
    # std as WelfordOnline::last() reports it, mean as its `mean` cell (identified by W5-mean-history's role: the cell that is the window mean)
    std_ref = None
    for conds, leaf in cases(renamed(mw.last_ret)):
        if leaf[0] == 'some' and any(x[0] == 'op' and x[1] == 'sqrt' for x in subterms(leaf)):
            std_ref = leaf[1]
    wl_ret = renamed(mw.last_ret)
    ok = False
    detail = 'last() is not (last - mean)/std of the embedded WelfordOnline'
    # the register that takes the value fed to the embedded view in the same update
    # (the embedded view is inlined: what it is fed is what is pushed onto its window queue)
    pushed = {x[2] for c, t in m.up_fields.items() if c.startswith(pre) for x in subterms(t) if x[0] == 'push_back'}
    fed = [p_ for p_ in pushed if p_[0] == 'child']
    regs = [c for c, t in m.up_fields.items() if not c.startswith(pre) and len(fed) == 1 and any(lf == fed[0] for _, lf in cases(t))]
    for conds, leaf in cases(m.last_ret):
        if leaf[0] != 'some':
            continue
        x = leaf[1]
        if x[0] == 'op' and x[1] == 'div':
            num, den = x[2]
            num_ok = num[0] == 'op' and num[1] == 'sub' and num[2][0][0] == 'in' and num[2][0][1] in regs and num[2][1][0] == 'in' \
                and num[2][1][1].startswith(pre) and num[2][1][1][len(pre):] in mw.touched
            # the divisor is the payload of the embedded view's last(): same term as WelfordOnline::last() computes
            from .vg import payload
            try:
                den_leaves = [lf for _, lf in cases(den)]
            except OverflowError:
                den_leaves = [None]
            den_ok = den == payload(wl_ret) or (std_ref is not None and std_ref in den_leaves and all(lf in (std_ref, lit(0.0)) for lf in den_leaves))
            if num_ok and den_ok:
                ok = True
                detail = 'reported value = (%s − %s) / std of the embedded WelfordOnline, with %s the value fed to it in the same update: Samuelson\'s bound (N−1)/sqrt(N) holds by construction' % (
                    num[2][0][1], num[2][1][1], num[2][0][1])
            else:
                ok = False
                detail = 'the reported ratio %s is not (value fed in this update − embedded mean) / embedded sample standard deviation' % tstr(x)[:80]
                break
        elif x != lit(0.0) and any(y[0] == 'in' for y in subterms(x)):
            ok = False
            detail = 'reports %s' % tstr(x)[:60]
            break
    R.ob('RG-vsct', 'Vsct', ok, detail, v.file)


def run_c07(F, R, tier):
    R.trust('rustc front end; sfa/vg.py; sfa/fsign.py library facts (tanh in [-1,1], sqrt >= 0, x/(x+y) in [0,1] for x,y >= 0, clamp)')
    R.assume('finite inputs; bounds hold in real arithmetic by construction; "a few ulps" is not decided')
    output_range(F, R, 'Tanh', -1.0, 1.0, 'RG-out')
    output_range(F, R, 'LaguerreRSI', 0.0, 1.0, 'RG-out')
    output_range(F, R, 'WelfordOnline', 0.0, float('inf'), 'RG-out')
    output_range(F, R, 'WelfordRolling', 0.0, float('inf'), 'RG-out')
    output_range(F, R, 'Rsi', 0.0, 100.0, 'RG-out')
    state_range(F, R, 'HLNormalizer', -1.0, 1.0, 'RG-state')
    clip_rule(F, R)
    vsct_rule(F, R)
    # (the Welford discipline the Vsct bound rests on)
    from .e_window import check_welford, check_welford_cross, welford_mean_history
    check_welford(F, R, 'WelfordOnline')
    check_welford_cross(F, R, 'WelfordOnline')
    welford_mean_history(F, R, 'WelfordOnline')
    # newest value <= Max, >= Min: the stored extremum always covers the newest value (X2) and is refreshed when the old one leaves (X1)
    from .e_window import check_extrema
    check_extrema(F, R, {'Min': 1, 'Max': 1, 'HLNormalizer': 2})   # HLNormalizer: justifies min <= last <= max used by RG-state
    e_lti_props.fisher_feedback(F, R)
    e_rolling.drawdown(F, R)
    e_trend.net_rules(F, R, tier)
    # |CoG| <= (N-1)/2 for positive inputs follows from weights k in [1, n] with the same values in numerator and denominator
    e_trend.cog_rules(F, R, tier)
    # the bound itself: with weights k = 1..n on the SAME positive values in numerator and denominator (COG-W), the centre term
    # (n+1)/2 with n the current fill (COG-N, COG-C), the reported value being exactly that expression (COG-O) and 0 for a zero
    # denominator (COG-G):  Σk·x/Σx ∈ [1, n]  for positive x, hence  |CoG| <= (n-1)/2  in real arithmetic
    cog = {o[0]: o[2] for o in R.obligations if o[0].startswith('COG-') and o[1].startswith('CenterOfGravity')}
    need = ('COG-W', 'COG-N', 'COG-C', 'COG-O', 'COG-G')
    okb = all(cog.get(r_) for r_ in need)
    R.ob('RG-cog', 'CenterOfGravity', okb, '|CoG| <= (n−1)/2 for positive inputs follows from the verified weights, centre term, guard and output identity'
         if okb else 'the structure the bound rests on is not verified: %s' % [r_ for r_ in need if not cog.get(r_)])
    # Min <= Sma, Alma <= Max over the same window: exact window + mirrored accumulators (convex weights), in real arithmetic
    from .e_window import check_windows, check_accumulators
    check_windows(F, R, ['Sma', 'Alma', 'Min', 'Max'], 'W1')
    check_accumulators(F, R, {'Sma': 1, 'Alma': 2})
    # ... and directly: from the initial state every reported value is a convex combination of the last N inputs (real arithmetic)
    e_lti_props.convex_transient(F, R, tier, ('Sma', 'Alma'), 'RG-hull')
    R.floor('RG-hull', 2)
    pfe_rule(F, R, tier)
    R.floor('RG-out', 5)
    R.floor('RG-clip', 2)
    R.decline('MyRSI, CTI, BinaryEntropy and Drawdown < 1 (and the f64 half of the Min <= Sma/Alma <= Max and CenterOfGravity bounds) rest on non-negativity '
              'of running differences of sums or on "a few ulps": value/rounding properties that no domain here can bound — declined')
