"""C07 — bounded ranges, only where the bound is constructed by the code (interval/sign analysis and reused rules)."""
from .model import model
from .e_window import view_by_name
from .fsign import FSign, Iv
from .terms import cases, cases_deep, relation
from .vg import subterms, tstr, op, lit, NONE
from . import e_rolling, e_trend, e_lti_props
from .e_ready import int_lb_factory
from .e3_bounds import Bounds
from .solve import Hyps


def output_range(F, R, name, lo, hi, rule):
    v = view_by_name(F).get(name)
    if v is None:
        R.violation(rule, name, 'not found')
        return
    m = model(F, v)
    B = Bounds(F, v)
    inv = B.houdini()
    base = Hyps(B.pre + inv, B.ctx(m.last_vg))
    val = m.last_after_update()
    try:
        cs = cases(val)
    except OverflowError:
        R.violation(rule, name, 'too many cases')
        return
    ok = True
    detail = ''
    n = 0
    for conds, leaf in cs:
        if leaf == NONE or leaf[0] == 'none':
            continue
        if leaf[0] == 'in' or (leaf[0] == 'some' and leaf[1][0] == 'in'):
            continue  # previous (already bounded) answer kept
        x = leaf[1] if leaf[0] == 'some' else leaf
        H = base.extended([c for c in conds])
        fs = FSign(list(conds), int_lb_factory(H))
        r = fs.rng(x)
        n += 1
        if not (r.lo >= lo and r.hi <= hi):
            ok = False
            detail = 'reported value %s has range %s by construction, not within [%s, %s]' % (tstr(x)[:60], r, lo, hi)
    R.ob(rule, name, ok and n > 0, 'every reported value lies in [%s, %s] by construction (%d cases)' % (lo, hi, n) if ok else detail, v.file)


def clip_rule(F, R):
    for name, direction in (('GTE', 'ge'), ('LTE', 'le')):
        v = view_by_name(F).get(name)
        if v is None:
            R.violation('RG-clip', name, 'not found')
            continue
        m = model(F, v)
        val = m.last_after_update()
        clips = [('in', p) for p in m.params]
        ok = bool(clips)
        detail = ''
        for conds, leaf in cases(val):
            if leaf[0] != 'some':
                continue
            x = leaf[1]
            if x in clips:
                continue
            allowed = {'<', '=', '>'}
            for c in conds:
                for clip in clips:
                    r = relation(c, x, clip)
                    if r is not None:
                        allowed &= r
            good = allowed <= ({'>', '='} if direction == 'ge' else {'<', '='})
            if x[0] == 'op' and x[1] == ('max' if direction == 'ge' else 'min') and any(cl in x[2] for cl in clips):
                good = True
            if not good:
                ok = False
                detail = 'reports %s where it may be on the wrong side of the clip' % tstr(x)[:50]
        R.ob('RG-clip', name, ok, 'every reported value is %s the clip' % ('>=' if direction == 'ge' else '<=') if ok else detail, v.file)


def run_c07(F, R, tier):
    R.trust('rustc front end; sfa/vg.py; sfa/fsign.py library facts (tanh in [-1,1], sqrt >= 0, x/(x+y) in [0,1] for x,y >= 0, clamp)')
    R.assume('finite inputs; bounds hold in real arithmetic by construction; "a few ulps" is not decided')
    output_range(F, R, 'Tanh', -1.0, 1.0, 'RG-out')
    output_range(F, R, 'LaguerreRSI', 0.0, 1.0, 'RG-out')
    output_range(F, R, 'WelfordOnline', 0.0, float('inf'), 'RG-out')
    output_range(F, R, 'WelfordRolling', 0.0, float('inf'), 'RG-out')
    clip_rule(F, R)
    # newest value <= Max, >= Min: the stored extremum always covers the newest value (X2) and is refreshed when the old one leaves (X1)
    from .e_window import check_extrema
    check_extrema(F, R, {'Min': 1, 'Max': 1})
    e_lti_props.fisher_feedback(F, R)
    e_rolling.drawdown(F, R)
    e_trend.net_rules(F, R, tier)
    R.floor('RG-out', 4)
    R.floor('RG-clip', 2)
    R.decline('Rsi, MyRSI, HLNormalizer, CTI, PFE, BinaryEntropy, Vsct, Min <= Sma/Alma <= Max, CenterOfGravity and Drawdown < 1 rest on non-negativity '
              'of running differences of sums or on "a few ulps": value/rounding properties that no domain here can bound — declined')
