"""Places, simple syntactic helpers shared by the engines."""
from .sir import canon, walk, children, pp


def strip(e):
    """Strip reference/deref/cast-free wrappers: &x, &mut x, *x -> x."""
    while e.get('k') in ('addr',) or (e.get('k') == 'un' and e.get('op') == 'Deref'):
        e = e['e']
    return e


def self_id(fn):
    ids = fn.param_ids()
    if ids and ids[0][1] == 'self':
        return ids[0][0]
    return None


def place(e, selfid):
    """('self', f1, f2, ...) for self.f1.f2 (through &/*), ('local', id) for locals, else None."""
    e = strip(e)
    k = e.get('k')
    if k == 'local':
        if e['id'] == selfid:
            return ('self',)
        return ('local', e['id'])
    if k == 'field':
        b = place(e['base'], selfid)
        if b is None:
            return None
        return b + (e['name'],)
    return None


def self_field(e, selfid):
    """Name of the top-level field of self this expression is rooted at, or None."""
    p = place(e, selfid)
    if p and p[0] == 'self' and len(p) >= 2:
        return p[1]
    return None


def callee_name(n):
    c = n.get('callee')
    if not c:
        return None
    return canon(c['def'])


def callee_resolved(n):
    c = n.get('callee')
    if not c or not c.get('resolved'):
        return None
    return c['resolved']


def is_call(n, *names):
    return n.get('k') == 'call' and callee_name(n) in names


def is_view_update(n):
    return n.get('k') == 'call' and callee_name(n) in ('View::update', 'crate::View::update')


def is_view_last(n):
    return n.get('k') == 'call' and callee_name(n) in ('View::last', 'crate::View::last')


def uses_local(e, lid):
    return any(x.get('k') == 'local' and x.get('id') == lid for x in walk(e))


def pat_bindings(p):
    """[(id, name)] bound by a pattern."""
    out = []
    k = p['k']
    if k == 'bind':
        out.append((p['id'], p['name']))
        if 'sub' in p:
            out += pat_bindings(p['sub'])
    elif k == 'por':
        # every alternative binds the same names: those of the first one
        if p['pats']:
            out += pat_bindings(p['pats'][0])
    elif k in ('ptuplestruct', 'ptuple', 'pslice'):
        for x in list(p['pats']) + list(p.get('after', [])):
            out += pat_bindings(x)
    elif k == 'pstruct':
        for f in p['fields']:
            out += pat_bindings(f['pat'])
    elif k == 'pref':
        out += pat_bindings(p['pat'])
    return out


# Variants of two-variant enums of the analysed crate that are isomorphic to Option<T> (one unit variant, one variant with a
# single field): filled by sir.Facts; such an enum is read as an Option everywhere (`Total::Empty` = None, `Total::Running(x)` = Some(x)).
OPTION_LIKE_SOME = set()
OPTION_LIKE_NONE = set()
OPTION_LIKE_SOME_MULTI = set()


def _is_some_path(name):
    return name == 'Some' or name in OPTION_LIKE_SOME


def _is_none_path(name):
    return name == 'None' or name in OPTION_LIKE_NONE


def pat_is_some(p):
    """If the pattern is `Some(inner)` return inner, else None."""
    if p['k'] == 'ptuplestruct' and _is_some_path(canon(p['path']['def'])) and len(p['pats']) == 1:
        return p['pats'][0]
    if p['k'] == 'pstruct' and _is_some_path(canon(p['path']['def'])) and len(p['fields']) == 1:
        return p['fields'][0]['pat']
    return None


def pat_is_none(p):
    return p['k'] in ('ppath', 'pstruct', 'ptuplestruct') and _is_none_path(canon(p['path']['def']))


def is_float_ty(ty, float_params=('T',)):
    return ty in float_params or ty in ('f32', 'f64')


def diverges(block):
    """Syntactic: the block ends in return / break / continue / panic."""
    if block.get('ty') == '!':
        return True
    last = None
    if block.get('k') == 'block':
        if 'expr' in block:
            last = block['expr']
        elif block['stmts']:
            last = block['stmts'][-1]
            if last['k'] in ('expr', 'semi'):
                last = last['e']
    else:
        last = block
    if last is None:
        return False
    if last.get('k') in ('ret', 'break', 'continue'):
        return True
    if last.get('k') == 'massert' and last['name'] == 'panic':
        return True
    if last.get('k') == 'block':
        return diverges(last)
    return last.get('ty') == '!'
