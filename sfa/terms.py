"""Utilities over value-graph terms: substitution, case expansion, 3-valued condition evaluation."""
from .vg import phi, conj, neg_cond, TRUE, FALSE, NONE, subterms, tstr, is_some, payload, op, lit


def map_term(t, f, memo=None):
    """Bottom-up rewrite: f(node_with_rewritten_children) -> node."""
    if memo is None:
        memo = {}
    if not isinstance(t, tuple) or not t:
        return t
    key = id(t)
    if key in memo:
        return memo[key][1]
    k = t[0]
    if k in ('lit', 'closure'):
        r = f(t)
    elif k == 'op':
        r = f(('op', t[1], tuple(map_term(x, f, memo) for x in t[2])))
    elif k in ('tuple', 'seq_lit'):
        r = f((k, tuple(map_term(x, f, memo) for x in t[1])))
    elif k == 'struct':
        r = f(('struct', t[1], {a: map_term(b, f, memo) for a, b in t[2].items()}))
    elif k == 'fold':
        r = f(('fold', t[1], t[2], map_term(t[3], f, memo), map_term(t[4], f, memo)))
    else:
        r = f(tuple([k] + [map_term(x, f, memo) if isinstance(x, tuple) else x for x in t[1:]]))
    memo[key] = (t, r)
    return r


def simplify_node(t):
    k = t[0]
    if k == 'phi':
        return phi(t[1], t[2], t[3])
    if k == 'is_some':
        return is_some(t[1])
    if k == 'payload':
        return payload(t[1])
    if k == 'op' and t[1] == 'not':
        return neg_cond(t[2][0])
    if k == 'op' and t[1] == 'and':
        return conj(list(t[2]))
    return t


def subst_in(t, fields, child_map=None):
    """Replace ('in', f) by fields[f] (when present) and simplify option tests."""
    def f(n):
        if n[0] == 'in' and n[1] in fields:
            return fields[n[1]]
        if child_map and n[0] in ('child', 'childlast') and (n[1], n[2]) in child_map:
            return child_map[(n[1], n[2])]
        return simplify_node(n)
    return map_term(t, f)


def free_ins(t):
    return {x[1] for x in subterms(t) if x[0] == 'in'}


def atoms_of(t, kinds):
    return {x for x in subterms(t) if x[0] in kinds}


def cases(t, limit=256):
    """Expand top-level phis: [(conds tuple, leaf)]. Leaves are non-phi terms (phis nested inside
    operators are left alone). Raises OverflowError past `limit`."""
    out = []

    def rec(x, conds):
        if len(out) > limit:
            raise OverflowError('too many cases')
        if isinstance(x, tuple) and x and x[0] == 'phi':
            rec(x[2], conds + (x[1],))
            rec(x[3], conds + (neg_cond(x[1]),))
        elif isinstance(x, tuple) and x and x[0] == 'some' and isinstance(x[1], tuple) and x[1] and x[1][0] == 'phi':
            p = x[1]
            rec(('some', p[2]), conds + (p[1],))
            rec(('some', p[3]), conds + (neg_cond(p[1]),))
        else:
            out.append((conds, x))
    rec(t, ())
    return out


def eval3(c, assign):
    """3-valued evaluation of a boolean term; `assign` maps atom terms to True/False. Returns True/False/None."""
    if c == TRUE:
        return True
    if c == FALSE:
        return False
    if c in assign:
        return assign[c]
    if c[0] == 'op':
        if c[1] == 'not':
            v = eval3(c[2][0], assign)
            return None if v is None else (not v)
        if c[1] == 'and':
            vs = [eval3(x, assign) for x in c[2]]
            if any(v is False for v in vs):
                return False
            if all(v is True for v in vs):
                return True
            return None
        if c[1] == 'or':
            vs = [eval3(x, assign) for x in c[2]]
            if any(v is True for v in vs):
                return True
            if all(v is False for v in vs):
                return False
            return None
    if c[0] == 'is_some':
        inner = c[1]
        if inner[0] == 'phi':
            cv = eval3(inner[1], assign)
            if cv is True:
                return eval3(is_some(inner[2]), assign)
            if cv is False:
                return eval3(is_some(inner[3]), assign)
            a, b = eval3(is_some(inner[2]), assign), eval3(is_some(inner[3]), assign)
            if a == b:
                return a
    return None


def relation(c, x, y):
    """If condition c is a comparison between terms x and y, return the set of orderings of (x ? y) it allows:
    subset of {'<','=','>'}; None if c is not such a comparison."""
    neg = False
    while c[0] == 'op' and c[1] == 'not':
        neg = not neg
        c = c[2][0]
    if c[0] != 'op' or c[1] not in ('lt', 'le', 'gt', 'ge', 'eq', 'ne') or len(c[2]) != 2:
        return None
    a, b = c[2]
    rel = {'lt': {'<'}, 'le': {'<', '='}, 'gt': {'>'}, 'ge': {'>', '='}, 'eq': {'='}, 'ne': {'<', '>'}}[c[1]]
    if a == x and b == y:
        pass
    elif a == y and b == x:
        rel = {{'<': '>', '>': '<', '=': '='}[r] for r in rel}
    else:
        return None
    if neg:
        rel = {'<', '=', '>'} - rel  # NaN-free (finite inputs are a precondition)
    return rel


def simp_bool(c):
    """Propositional simplification of a condition term: constants, is_some(Some(..)), double negation, flattening;
    a conjunction under a negation with all but one conjunct true reduces to the negation of the remaining one."""
    if not isinstance(c, tuple) or not c:
        return c
    if c[0] == 'is_some':
        return is_some(c[1])
    if c[0] != 'op':
        return c
    if c[1] == 'not':
        x = simp_bool(c[2][0])
        return neg_cond(x)
    if c[1] in ('and', 'or'):
        xs = []
        for y in c[2]:
            y = simp_bool(y)
            if isinstance(y, tuple) and y and y[0] == 'op' and y[1] == c[1]:
                xs.extend(y[2])
            else:
                xs.append(y)
        unit, zero = (TRUE, FALSE) if c[1] == 'and' else (FALSE, TRUE)
        if any(y == zero for y in xs):
            return zero
        xs = [y for y in xs if y != unit]
        if not xs:
            return unit
        if len(xs) == 1:
            return xs[0]
        return ('op', c[1], tuple(xs))
    return c


def resolve_by(t, c, truth):
    """Resolve every phi in t whose condition is c (or its negation) given that c has the given truth value."""
    nc = neg_cond(c)

    def f(n):
        if n[0] == 'phi':
            if n[1] == c:
                return n[2] if truth else n[3]
            if n[1] == nc:
                return n[3] if truth else n[2]
        return n
    return map_term(t, f)


def cases_deep(t, limit=512):
    """Like cases(), but also lifts phis nested inside operators and conditions; a condition is decided once
    per case (all phis testing it are resolved consistently). Leaves and conditions are phi-free."""
    out = []

    def first_phi(x):
        for s in subterms(x):
            if s[0] == 'phi':
                return s
        return None

    def rec(x, conds, depth):
        if len(out) > limit or depth > 40:
            raise OverflowError('too many cases')
        p = first_phi(x)
        if p is None:
            # conditions may still contain phis: split on those too
            for i, c in enumerate(conds):
                q = first_phi(c)
                if q is not None:
                    for truth in (True, False):
                        nconds = tuple(resolve_by(cc, q[1], truth) for cc in conds) + ((q[1] if truth else neg_cond(q[1])),)
                        rec(resolve_by(x, q[1], truth), nconds, depth + 1)
                    return
            out.append((conds, x))
            return
        c = p[1]
        for truth in (True, False):
            nx = resolve_by(x, c, truth)
            nconds = tuple(resolve_by(cc, c, truth) for cc in conds) + ((c if truth else neg_cond(c)),)
            rec(nx, nconds, depth + 1)
    rec(t, (), 0)
    # drop syntactically contradictory cases
    res = []
    for conds, leaf in out:
        cs = set(conds)
        if any(neg_cond(c) in cs for c in conds):
            continue
        res.append((conds, leaf))
    return res


def nondelivering(conds, kids=None):
    """True if the conditions are contradictory with `every (input) child's last() is Some`."""
    assign = {}
    for c in conds:
        if not isinstance(c, tuple):
            continue
        for x in subterms(c):
            if x[0] == 'is_some' and x[1][0] == 'childlast' and (kids is None or x[1][1] in kids):
                assign[x] = True
    for c in conds:
        if isinstance(c, tuple) and c and c[0] != 'inloop' and eval3(c, assign) is False:
            return True
    return False
