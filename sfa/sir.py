"""Fact base loader and helpers for the structured IR (SIR) emitted by driver/.

Everything downstream (rule engines e1..e8) works on the objects defined here; nothing in this
package ever builds or runs the analysed crate.
"""
import json
import re

# ----------------------------------------------------------------------------------------------
# names


def canon(defpath):
    """Canonical callee name: drop generic-argument segments (`::<T, A>`), keep impl headers short."""
    if defpath is None:
        return None
    out, depth, cur = [], 0, ''
    i = 0
    s = defpath
    while i < len(s):
        c = s[i]
        if c == '<':
            depth += 1
            cur += c
        elif c == '>':
            depth -= 1
            cur += c
        elif c == ':' and depth == 0 and s[i:i + 2] == '::':
            out.append(cur)
            cur = ''
            i += 1
        else:
            cur += c
        i += 1
    out.append(cur)
    segs = []
    for seg in out:
        if seg.startswith('<') and seg.endswith('>') and not seg.startswith('<impl') and ' as ' not in seg:
            continue
        m = re.match(r'^([A-Za-z_][A-Za-z_0-9]*)<.*>$', seg)
        if m:
            seg = m.group(1)
        segs.append(seg)
    name = '::'.join(segs)
    name = name.replace('std::prelude::v1::Some', 'Some').replace('std::prelude::v1::None', 'None')
    name = name.replace('std::option::Option::Some', 'Some').replace('std::option::Option::None', 'None')
    name = name.replace('core::slice::<impl [T]>::', 'slice::')
    return name


MACRO_ASSERTS = {
    'debug_assert': ('assert', True), 'assert': ('assert', False),
    'debug_assert_ne': ('assert_ne', True), 'assert_ne': ('assert_ne', False),
    'debug_assert_eq': ('assert_eq', True), 'assert_eq': ('assert_eq', False),
    'panic': ('panic', False), 'unreachable': ('panic', False), 'todo': ('panic', False),
    'unimplemented': ('panic', False),
}


def outer_macro(node):
    """Name of the outermost user-written macro this node comes from, or None."""
    mac = node.get('mac')
    if not mac:
        return None
    last = mac[-1]
    if last.startswith('macro:'):
        return last[len('macro:'):].split('::')[-1]
    if last.startswith('derive macro:') or last.startswith('attribute macro:'):
        return last
    return None  # desugarings are not macros


def children(n):
    """Direct sub-nodes (exprs, stmts, blocks, arms' bodies/guards) of a SIR node, in evaluation order."""
    k = n.get('k')
    if k in ('lit', 'local', 'path', 'continue', 'item', 'other'):
        return []
    if k == 'field':
        return [n['base']]
    if k in ('call', 'ctor'):
        r = list(n['args'])
        if 'fexpr' in n:
            r = [n['fexpr']] + r
        return r
    if k == 'bin':
        return [n['l'], n['r']]
    if k in ('un', 'addr', 'cast', 'repeat', 'try'):
        return [n['e']]
    if k in ('assign', 'assignop'):
        return [n['r'], n['l']]
    if k == 'index':
        return [n['base'], n['idx']]
    if k == 'if':
        r = [n['cond'], n['then']]
        if 'else' in n:
            r.append(n['else'])
        return r
    if k == 'letexpr':
        return [n['init']]
    if k == 'match':
        r = [n['scrut']]
        for a in n['arms']:
            if 'guard' in a:
                r.append(a['guard'])
            r.append(a['body'])
        return r
    if k == 'block':
        r = list(n['stmts'])
        if 'expr' in n:
            r.append(n['expr'])
        return r
    if k == 'let':
        r = []
        if 'init' in n:
            r.append(n['init'])
        if 'els' in n:
            r.append(n['els'])
        return r
    if k in ('expr', 'semi'):
        return [n['e']]
    if k == 'loop':
        return [n['body']]
    if k in ('break', 'ret'):
        return [n['e']] if 'e' in n else []
    if k == 'closure':
        return [n['body']]
    if k in ('tuple', 'array'):
        return list(n['es'])
    if k == 'struct':
        r = [f['e'] for f in n['fields']]
        if 'base' in n:
            r.append(n['base'])
        return r
    if k == 'for':
        return [n['iter'], n['body']]
    if k == 'massert':
        return list(n['args'])
    raise ValueError('unknown SIR node kind %r' % k)


def walk(n):
    """Pre-order walk over all sub-nodes including n."""
    yield n
    for c in children(n):
        yield from walk(c)


def loc(n):
    sp = n.get('sp')
    if not sp:
        return '?'
    return '%s:%d' % (sp[0], sp[1])


# ----------------------------------------------------------------------------------------------
# macro re-sugaring


def _user_args(n, out):
    """Maximal sub-expressions of a macro expansion that were written by the user (no `mac`)."""
    if 'mac' not in n and n.get('k') not in ('expr', 'semi', 'let', 'item'):
        out.append(n)
        return
    k = n.get('k')
    if k == 'let':
        if 'init' in n:
            _user_args(n['init'], out)
        return
    for c in children(n):
        _user_args(c, out)


def _find_not_cond(n):
    """Inside an assert expansion find `if !(cond)` and return cond."""
    for x in walk(n):
        if x.get('k') == 'if' and x['cond'].get('k') == 'un' and x['cond'].get('op') == 'Not':
            return x['cond']['e']
    return None


def resugar(n):
    """Replace assert-like macro expansions by `massert` nodes; strip other noise. Returns a new tree."""
    if isinstance(n, list):
        return [resugar(x) for x in n]
    if not isinstance(n, dict) or 'k' not in n:
        if isinstance(n, dict):
            return {k: resugar(v) for k, v in n.items()}
        return n
    om = outer_macro(n)
    if om in MACRO_ASSERTS and n['k'] in ('if', 'block', 'match', 'call'):
        kind, debug = MACRO_ASSERTS[om]
        args = []
        _user_args(n, args)
        args = [resugar(a) for a in args]
        # drop message literals
        args = [a for a in args if not (a.get('k') == 'lit' and a.get('lit') == 'str')]
        cond = None
        if kind == 'assert':
            c = _find_not_cond(n)
            cond = resugar(c) if c is not None else None
        return {'k': 'massert', 'name': kind, 'debug': debug, 'args': args, 'cond': cond, 'macro': om,
                'sp': n.get('sp'), 'ty': '()'}
    out = {}
    for key, v in n.items():
        if key in ('sp', 'mac', 'ty', 'k'):
            out[key] = v
        elif isinstance(v, (dict, list)):
            out[key] = resugar(v)
        else:
            out[key] = v
    return out


# ----------------------------------------------------------------------------------------------
# pretty printer (debugging and evidence samples)

BINOPS = {'Add': '+', 'Sub': '-', 'Mul': '*', 'Div': '/', 'Rem': '%', 'And': '&&', 'Or': '||',
          'Eq': '==', 'Ne': '!=', 'Lt': '<', 'Le': '<=', 'Gt': '>', 'Ge': '>=', 'BitAnd': '&',
          'BitOr': '|', 'BitXor': '^', 'Shl': '<<', 'Shr': '>>',
          'AddAssign': '+=', 'SubAssign': '-=', 'MulAssign': '*=', 'DivAssign': '/='}


def pp_pat(p):
    k = p['k']
    if k == 'bind':
        return ('mut ' if p.get('mutable') else '') + p['name']
    if k == 'wild':
        return '_'
    if k == 'ptuplestruct':
        return '%s(%s)' % (canon(p['path']['def']), ', '.join(pp_pat(x) for x in p['pats']))
    if k == 'ptuple':
        return '(%s)' % ', '.join(pp_pat(x) for x in p['pats'])
    if k == 'ppath':
        return canon(p['path']['def'])
    if k == 'por':
        return ' | '.join(pp_pat(x) for x in p['pats'])
    if k == 'pref':
        return '&' + pp_pat(p['pat'])
    if k == 'plit':
        return p['lit']
    return '<pat>'


def pp(n, short=True):
    k = n.get('k')
    if k == 'lit':
        return str(n['v']).lower() if n['lit'] == 'bool' else (repr(n['v']) if n['lit'] == 'str' else str(n['v']))
    if k == 'local':
        return n['name']
    if k == 'path':
        return canon(n['def'])
    if k == 'field':
        return '%s.%s' % (pp(n['base']), n['name'])
    if k in ('call', 'ctor'):
        if 'method' in n:
            return '%s.%s(%s)' % (pp(n['args'][0]), n['method'], ', '.join(pp(a) for a in n['args'][1:]))
        name = canon(n['callee']['def']) if n.get('callee') else pp(n['fexpr'])
        if n.get('callee') and n['callee'].get('self_ty') and name.startswith('num::'):
            name = '%s::%s' % (n['callee']['self_ty'], name.split('::')[-1])
        return '%s(%s)' % (name, ', '.join(pp(a) for a in n['args']))
    if k == 'bin':
        return '(%s %s %s)' % (pp(n['l']), BINOPS.get(n['op'], n['op']), pp(n['r']))
    if k == 'un':
        return {'Not': '!', 'Neg': '-', 'Deref': '*'}.get(n['op'], n['op']) + pp(n['e'])
    if k == 'addr':
        return ('&mut ' if n['mut'] else '&') + pp(n['e'])
    if k == 'assign':
        return '%s = %s' % (pp(n['l']), pp(n['r']))
    if k == 'assignop':
        return '%s %s %s' % (pp(n['l']), BINOPS.get(n['op'], n['op']), pp(n['r']))
    if k == 'index':
        return '%s[%s]' % (pp(n['base']), pp(n['idx']))
    if k == 'if':
        s = 'if %s %s' % (pp(n['cond']), pp(n['then']))
        if 'else' in n:
            s += ' else ' + pp(n['else'])
        return s
    if k == 'letexpr':
        return 'let %s = %s' % (pp_pat(n['pat']), pp(n['init']))
    if k == 'match':
        return 'match %s { %s }' % (pp(n['scrut']), ', '.join(
            '%s => %s' % (pp_pat(a['pat']), pp(a['body'])) for a in n['arms']))
    if k == 'block':
        parts = [pp(s) for s in n['stmts']]
        if 'expr' in n:
            parts.append(pp(n['expr']))
        return '{ ' + '; '.join(parts) + ' }'
    if k == 'let':
        s = 'let %s' % pp_pat(n['pat'])
        if 'init' in n:
            s += ' = ' + pp(n['init'])
        if 'els' in n:
            s += ' else ' + pp(n['els'])
        return s
    if k in ('expr', 'semi'):
        return pp(n['e'])
    if k == 'loop':
        return 'loop ' + pp(n['body'])
    if k == 'break':
        return 'break'
    if k == 'continue':
        return 'continue'
    if k == 'ret':
        return 'return' + (' ' + pp(n['e']) if 'e' in n else '')
    if k == 'closure':
        return '|%s| %s' % (', '.join(pp_pat(p) for p in n['params']), pp(n['body']))
    if k == 'tuple':
        return '(%s)' % ', '.join(pp(e) for e in n['es'])
    if k == 'array':
        return '[%s]' % ', '.join(pp(e) for e in n['es'])
    if k == 'struct':
        return '%s { %s }' % (canon(n['path']['def']), ', '.join('%s: %s' % (f['name'], pp(f['e'])) for f in n['fields']))
    if k == 'for':
        return 'for %s in %s %s' % (pp_pat(n['pat']), pp(n['iter']), pp(n['body']))
    if k == 'try':
        return pp(n['e']) + '?'
    if k == 'cast':
        return '(%s as %s)' % (pp(n['e']), n.get('ty'))
    if k == 'massert':
        return '%s%s!(%s)' % ('debug_' if n['debug'] else '', n['name'], ', '.join(pp(a) for a in n['args']))
    if k == 'repeat':
        return '[%s; _]' % pp(n['e'])
    if k == 'item':
        return '<item>'
    return '<%s>' % k


# ----------------------------------------------------------------------------------------------
# fact base


class Fn:
    def __init__(self, raw):
        self.raw = raw
        self.defpath = raw['def']
        self.name = raw['name']
        self.adt = raw.get('impl_adt')
        self.trait = raw.get('impl_trait')
        self.vis = raw.get('vis')
        self.mac = raw.get('mac') or []
        self.derived = any(m.startswith('derive macro:') for m in self.mac)
        self.where = raw['where']
        self.file = raw['where'][0]
        self.inputs = raw['inputs']
        self.output = raw['output']
        self.params = raw['params']
        self.body = resugar(raw['body'])

    def param_ids(self):
        """[(id, name, ty)] for simple binding params."""
        out = []
        for p in self.params:
            pat = p['pat']
            if pat['k'] == 'bind':
                out.append((pat['id'], pat['name'], p['ty']))
            else:
                out.append((None, None, p['ty']))
        return out

    def __repr__(self):
        return 'Fn(%s)' % self.defpath


class Facts:
    def __init__(self, path):
        with open(path) as f:
            self.raw = json.load(f)
        self.nonce = self.raw.get('nonce')
        self.fns = [Fn(x) for x in self.raw['fns']]
        self.fn_by_def = {f.defpath: f for f in self.fns}
        self.adts = {a['path']: a for a in self.raw['adts']}
        # two-variant enums isomorphic to Option<T>: {enum path: (unit variant path, payload variant path, payload field ty)}
        from . import places as _places
        _places.OPTION_LIKE_SOME.clear()
        _places.OPTION_LIKE_NONE.clear()
        _places.OPTION_LIKE_SOME_MULTI.clear()
        self.option_like = {}
        self.option_like_multi = {}
        for pth, a in self.adts.items():
            vs = a.get('variants', [])
            if a.get('kind') == 'Enum' and len(vs) == 2:
                unit = [x for x in vs if not x['fields']]
                pay = [x for x in vs if len(x['fields']) == 1]
                if len(unit) == 1 and len(pay) == 1:
                    self.option_like[pth] = (pth + '::' + unit[0]['name'], pth + '::' + pay[0]['name'], pay[0]['fields'][0]['ty'])
                    _places.OPTION_LIKE_NONE.add(canon(pth + '::' + unit[0]['name']))
                    _places.OPTION_LIKE_SOME.add(canon(pth + '::' + pay[0]['name']))
                multi = [x for x in vs if len(x['fields']) >= 2]
                if len(unit) == 1 and len(multi) == 1:
                    # isomorphic to Option<struct of the payload fields>
                    self.option_like_multi[pth] = (pth + '::' + unit[0]['name'], pth + '::' + multi[0]['name'], multi[0]['fields'])
                    _places.OPTION_LIKE_NONE.add(canon(pth + '::' + unit[0]['name']))
                    _places.OPTION_LIKE_SOME_MULTI.add(canon(pth + '::' + multi[0]['name']))
        self.impls = self.raw['impls']
        self.statics = self.raw['statics']
        self.unsafes = self.raw['unsafes']
        self.foreign_mods = self.raw['foreign_mods']
        self.traits = {t['path']: t for t in self.raw['traits']}
        self.mir = {m['def']: m for m in self.raw['mir']}
        self.views = build_views(self)

    def fns_of(self, adt):
        return [f for f in self.fns if f.adt == adt]


class Field:
    def __init__(self, name, ty, ty_str):
        self.name, self.ty, self.ty_str = name, ty, ty_str
        self.role = None  # child | marker | buffer | cell
        self.child_adt = None  # for concrete children: the local View adt path

    def __repr__(self):
        return 'Field(%s: %s, %s)' % (self.name, self.ty_str, self.role)


def ty_contains(ty, pred):
    if pred(ty):
        return True
    for key in ('args', 'tuple'):
        for a in ty.get(key, []) or []:
            if ty_contains(a, pred):
                return True
    for key in ('ref', 'ptr', 'array', 'slice'):
        if key in ty and ty_contains(ty[key], pred):
            return True
    return False


BUFFER_ADTS = ('std::vec::Vec', 'std::collections::VecDeque', 'std::collections::BinaryHeap',
               'std::collections::BTreeMap', 'std::collections::BTreeSet', 'std::collections::HashMap',
               'std::collections::HashSet', 'std::collections::LinkedList', 'std::string::String',
               'std::boxed::Box')


def norm_option_like_ty(facts, ty):
    """An option-like enum of the crate (one unit variant, one single-field variant) is read as Option<field type>."""
    if isinstance(ty, dict) and ty.get('adt') in getattr(facts, 'option_like', {}):
        a = facts.adts[ty['adt']]
        pay = facts.option_like[ty['adt']][2]
        sub = dict(zip(a.get('generics', []), ty.get('args', [])))
        if isinstance(pay, dict) and 'param' in pay and pay['param'] in sub:
            pay = sub[pay['param']]
        return {'adt': 'std::option::Option', 'args': [pay]}
    return ty


def oos_components(facts, ty):
    """[(field name, field type)] when `ty` is an Option of a plain struct of the crate, or an option-like enum whose payload
    variant has several fields: such a cell is presented as one Option cell per payload field, all present or absent together
    (option of struct -> struct of options)."""
    if not isinstance(ty, dict):
        return None
    view_adts = {imp['self_ty'].get('adt') for imp in facts.impls if imp.get('trait') == 'View'}
    if ty.get('adt') in getattr(facts, 'option_like_multi', {}):
        a = facts.adts[ty['adt']]
        sub = dict(zip(a.get('generics', []), ty.get('args', [])))
        out = []
        for f in facts.option_like_multi[ty['adt']][2]:
            fty = f['ty']
            if isinstance(fty, dict) and 'param' in fty and fty['param'] in sub:
                fty = sub[fty['param']]
            out.append((f['name'], fty))
        return out
    if ty.get('adt') == 'std::option::Option' and ty.get('args'):
        el = ty['args'][0]
        if isinstance(el, dict) and isinstance(el.get('tuple'), list) and len(el['tuple']) >= 2:
            return [(str(i), t_) for i, t_ in enumerate(el['tuple'])]       # Option<(A, B)>: cells `f.0`, `f.1`
        if isinstance(el, dict) and el.get('adt') in facts.adts and el.get('adt') not in view_adts:
            a = facts.adts[el['adt']]
            if a.get('kind') == 'Struct' and len(a.get('variants', [])) == 1 and a['variants'][0]['fields']:
                sub = dict(zip(a.get('generics', []), el.get('args', [])))
                out = []
                for f in a['variants'][0]['fields']:
                    fty = f['ty']
                    if isinstance(fty, dict) and 'param' in fty and fty['param'] in sub:
                        fty = sub[fty['param']]
                    out.append((f['name'], fty))
                return out
    return None


def is_buffer_ty(ty):
    return ty_contains(ty, lambda t: t.get('adt') in BUFFER_ADTS)


class View:
    """One `impl View<T> for X`, with its struct, field roles and methods."""

    def __init__(self, facts, impl):
        self.impl = impl
        self.adt_path = impl['self_ty'].get('adt')
        self.adt = facts.adts.get(self.adt_path)
        self.name = self.adt['name'] if self.adt else impl['self_ty_str']
        self.file = impl['where'][0]
        self.preds = impl['predicates']
        self.view_params = set()
        for p in self.preds:
            m = re.match(r'^([A-Za-z_][A-Za-z0-9_]*): (?:crate::)?View<', p)
            if m:
                self.view_params.add(m.group(1))
        self.float_params = set()
        for p in self.preds:
            m = re.match(r'^([A-Za-z_][A-Za-z0-9_]*): num::Float', p)
            if m:
                self.float_params.add(m.group(1))
        self.fields = []
        self.update = None
        self.last = None
        self.ctors = []
        self.helpers = []
        self.derived = []

    def field(self, name):
        for f in self.fields:
            if f.name == name:
                return f
        return None

    def children_fields(self):
        return [f for f in self.fields if f.role == 'child']

    def __repr__(self):
        return 'View(%s)' % self.name


def build_views(facts):
    views = []
    view_adts = set()
    for imp in facts.impls:
        if imp['trait'] == 'View' and imp['self_ty'].get('adt'):
            view_adts.add(imp['self_ty']['adt'])
    for imp in facts.impls:
        if imp['trait'] != 'View':
            continue
        v = View(facts, imp)
        if v.adt:
            def subst_ty(ty, sub):
                if not isinstance(ty, dict):
                    return ty
                if 'param' in ty and ty['param'] in sub:
                    return sub[ty['param']]
                out = dict(ty)
                for k_ in ('args', 'elems'):
                    if isinstance(ty.get(k_), list):
                        out[k_] = [subst_ty(x, sub) for x in ty[k_]]
                for k_ in ('inner', 'elem'):
                    if isinstance(ty.get(k_), dict):
                        out[k_] = subst_ty(ty[k_], sub)
                return out

            def add_fields(adt, prefix, sub, depth):
                for fld in adt['variants'][0]['fields']:
                    ty = norm_option_like_ty(facts, subst_ty(fld['ty'], sub))
                    f = Field(prefix + fld['name'], ty, fld['ty_str'] if ty.get('adt') != 'std::option::Option' or 'Option' in fld['ty_str'] else 'std::option::Option<%s>' % (ty['args'][0].get('param') or ty['args'][0].get('prim') or '?'))
                    inner = facts.adts.get(ty.get('adt')) if isinstance(ty, dict) else None
                    if ty.get('param') in v.view_params:
                        f.role = 'child'
                    elif ty.get('adt') in view_adts:
                        f.role = 'child'
                        f.child_adt = ty['adt']
                    elif ty.get('adt') == 'std::marker::PhantomData':
                        f.role = 'marker'
                    elif inner is not None and inner.get('kind') == 'Struct' and depth < 3 and len(inner.get('variants', [])) == 1 \
                            and ty_contains(ty, lambda t: t.get('param') in v.view_params or t.get('adt') in view_adts):
                        # a private struct that groups part of the state *including an inner view*: its fields are the view's
                        # fields (the value graph names them `outer.inner` as well)
                        gens = inner.get('generics', [])
                        args = ty.get('args', [])
                        add_fields(inner, prefix + fld['name'] + '.', {g: a for g, a in zip(gens, args)}, depth + 1)
                        continue
                    elif oos_components(facts, ty) and not is_buffer_ty(ty):
                        for cn, cty in oos_components(facts, ty):
                            cf = Field(prefix + fld['name'] + '.' + cn, {'adt': 'std::option::Option', 'args': [cty]},
                                       'std::option::Option<%s>' % (cty.get('param') or cty.get('prim') or '?'))
                            cf.role = 'cell'
                            v.fields.append(cf)
                        continue
                    elif is_buffer_ty(ty):
                        f.role = 'buffer'
                        el = (ty.get('args') or [None])[0] if ty.get('adt') in ('std::vec::Vec', 'std::collections::VecDeque') else None
                        comps = None
                        if isinstance(el, dict) and isinstance(el.get('tuple'), list) and len(el['tuple']) >= 2:
                            comps = [(str(i), t_) for i, t_ in enumerate(el['tuple'])]
                        elif isinstance(el, dict) and el.get('adt') in facts.adts and el.get('adt') not in view_adts:
                            ea = facts.adts[el['adt']]
                            if ea.get('kind') == 'Struct' and len(ea.get('variants', [])) == 1 and ea['variants'][0]['fields']:
                                esub = {g: a for g, a in zip(ea.get('generics', []), el.get('args', []))}
                                comps = [(ef['name'], subst_ty(ef['ty'], esub)) for ef in ea['variants'][0]['fields']]
                        if comps:
                            # a queue of small structs / tuples: the value graph presents it as one queue per component
                            for cn, cty in comps:
                                cf = Field(prefix + fld['name'] + '.' + cn, {'adt': ty['adt'], 'args': [cty]}, fld['ty_str'])
                                cf.role = 'buffer'
                                v.fields.append(cf)
                            continue
                    else:
                        f.role = 'cell'
                    v.fields.append(f)
            add_fields(v.adt, '', {}, 0)
        for fn in facts.fns:
            if fn.adt != v.adt_path:
                continue
            if fn.derived:
                v.derived.append(fn)
            elif fn.trait == 'View':
                if fn.name == 'update':
                    v.update = fn
                elif fn.name == 'last':
                    v.last = fn
            elif fn.trait is None:
                out = fn.output
                if out == 'Self' or out.startswith(v.adt_path) or re.sub(r'<.*', '', out).endswith(v.name):
                    # returns Self -> constructor
                    has_self = any(i.startswith('&') and 'Self' in i or v.adt_path in i and i.startswith('&') for i in fn.inputs)
                    if not has_self:
                        v.ctors.append(fn)
                        continue
                v.helpers.append(fn)
            else:
                if fn.name in ('default', 'from') and not any(i.startswith('&') and ('Self' in i or v.adt_path in i) for i in fn.inputs) \
                        and (fn.output == 'Self' or fn.output.startswith(v.adt_path) or re.sub(r'<.*', '', fn.output).endswith(v.name)):
                    # a hand-written `Default::default` / `From::from` builds a view: it is a constructor (its initial state is examined)
                    v.ctors.append(fn)
                    continue
                v.helpers.append(fn)  # other trait impls written by hand (Display, ..)
        views.append(v)
    views.sort(key=lambda v: v.name)
    return views
