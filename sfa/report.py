"""Shared bookkeeping for a check run: obligations, violations, floors, known findings, evidence."""
import json
import os
import re
import time

VERIF = os.path.dirname(os.path.dirname(os.path.abspath(__file__)))


def evidence_dir():
    return os.environ.get('SFA_EVIDENCE_DIR') or os.path.join(VERIF, 'evidence')


def _safe(s):
    return re.sub(r'[^A-Za-z0-9_.-]+', '_', s)[:150]


class Report:
    def __init__(self, prop, tier, level, explanation):
        self.prop = prop
        self.tier = tier
        self.level = level
        self.explanation = explanation
        self.t0 = time.time()
        self.obligations = []  # (rule, key, ok, detail, where)
        self.rule_counts = {}
        self.floors = {}
        self.samples = []
        self.assumptions = []
        self.trusted = []
        self.extra = {}
        self.declined = []
        self.notes = []

    # -- recording -------------------------------------------------------------------------
    def ob(self, rule, key, ok, detail, where=None):
        """Record one obligation (rule instance). `key` is stable (no line numbers)."""
        self.obligations.append((rule, key, bool(ok), detail, where))
        self.rule_counts[rule] = self.rule_counts.get(rule, 0) + 1
        if ok and len([s for s in self.samples if s.get('rule') == rule]) < 2:
            self.samples.append({'rule': rule, 'instance': key, 'detail': detail, 'where': where, 'ok': True})
        return ok

    def violation(self, rule, key, detail, where=None):
        return self.ob(rule, key, False, detail, where)

    def floor(self, rule, n):
        """The number of instances of `rule` confirmed by hand on the reference tree."""
        self.floors[rule] = n

    def assume(self, text):
        if text not in self.assumptions:
            self.assumptions.append(text)

    def trust(self, text):
        if text not in self.trusted:
            self.trusted.append(text)

    def decline(self, text):
        self.declined.append(text)

    # -- finishing -------------------------------------------------------------------------
    def finish(self, seed=0):
        # floors: fail closed when a rule matched fewer instances than confirmed by hand
        for rule, n in self.floors.items():
            got = self.rule_counts.get(rule, 0)
            if got < n:
                self.violation('FLOOR', '%s:%s' % (rule, 'below-floor'),
                               'rule %s matched %d instances, floor is %d: an anchor vanished or the rule '
                               'no longer recognises the code' % (rule, got, n))
        with open(os.path.join(VERIF, 'known_findings.json')) as f:
            kf = json.load(f)
        known = {k['key']: k for k in kf.get('known', []) if k.get('property') == self.prop}
        viol, known_hits = [], []
        for (rule, key, ok, detail, where) in self.obligations:
            if ok:
                continue
            full = '%s:%s:%s' % (self.prop, rule, key)
            if full in known:
                known_hits.append((full, known[full]))
            else:
                viol.append((full, rule, key, detail, where))
        # de-duplicate by key
        seen, uniq = set(), []
        for v in viol:
            if v[0] not in seen:
                seen.add(v[0])
                uniq.append(v)
        viol = uniq
        rdir = os.path.join(evidence_dir(), 'replay', self.prop)
        os.makedirs(rdir, exist_ok=True)
        for fn in os.listdir(rdir):
            os.remove(os.path.join(rdir, fn))
        lines = []
        for full, k in sorted(set((a, b['what']) for a, b in known_hits)):
            lines.append('KNOWN-FINDING: property=%s %s [%s]' % (self.prop, k, full))
        for (full, rule, key, detail, where) in viol:
            path = os.path.join(rdir, _safe(full) + '.json')
            with open(path, 'w') as f:
                json.dump({'property': self.prop, 'key': full, 'rule': rule, 'instance': key,
                           'detail': detail, 'where': where}, f, indent=1)
            lines.append('VIOLATION property=%s replay=%s' % (self.prop, path))
            lines.append('  %s at %s: %s' % (full, where or '?', detail))
        n_ob = len(self.obligations)
        n_ok = len([o for o in self.obligations if o[2]])
        wall = time.time() - self.t0
        cov = {
            'explanation': self.explanation,
            'obligations': n_ob,
            'discharged': n_ok,
            'known_finding_obligations': len(known_hits),
            'checker_cmd': './check %s --tier %s' % (self.prop, self.tier),
            'trusted_base': self.trusted,
            'evaluations': n_ob,
            'distinct_nontrivial': len(set((o[0], o[1]) for o in self.obligations)),
            'rule': 'one obligation per (rule, instance) pair found in the analysed program; distinct = distinct (rule, instance key)',
            'rule_instances': self.rule_counts,
            'floors': self.floors,
            'samples': self.samples[:24] + [{'rule': v[1], 'instance': v[2], 'detail': v[3], 'where': v[4], 'ok': False} for v in viol[:10]],
            'declined_clauses': self.declined,
            'known_findings_hit': [k for k, _ in known_hits],
            'exhaustive': True,
        }
        cov.update(self.extra)
        ev = {
            'property_id': self.prop, 'tier': self.tier, 'seed': int(seed), 'level': self.level,
            'coverage': cov, 'assumptions': self.assumptions, 'wall_s': round(wall, 3),
            'violations': len(viol),
        }
        os.makedirs(evidence_dir(), exist_ok=True)
        with open(os.path.join(evidence_dir(), self.prop + '.json'), 'w') as f:
            json.dump(ev, f, indent=1)
        for l in lines:
            print(l)
        print('%s %s: %d obligations, %d discharged, %d violations, %d known findings (%.1fs)' % (
            self.prop, self.tier, n_ob, n_ok, len(viol), len(known_hits), wall))
        return 1 if viol else 0
