"""Decision procedure of the bounds domain: conjunctions/disjunctions of linear integer constraints over
opaque atoms (buffer lengths, usize cells, parameters, loop indices) plus propositional atoms
(Option typestate, float comparisons). Sound and incomplete: `entails` returns True only if the
hypotheses imply the goal. Arithmetic: difference-bound negative-cycle detection when every
constraint is a difference constraint, rational Fourier–Motzkin elimination with integer tightening
otherwise.

This is the entailment machinery of an abstract domain (zones generalised to small linear systems),
not an external solver: no model is produced and no input value is ever chosen.
"""
from math import gcd
from .vg import TRUE, FALSE, neg_cond, phi, lit, op, is_some, conj, subterms
from .terms import map_term


class Ctx:
    """Typing context: which atoms are integers; loop index ranges."""

    def __init__(self, int_fields=(), int_args=(), loops=None):
        self.int_fields = set(int_fields)
        self.int_args = set(int_args)
        self.loops = loops or {}


# ----------------------------------------------------------------------------------------------
# length normalisation over the sequence algebra


def seq_len(s):
    """Integer term for the length of sequence term s (may contain phi)."""
    k = s[0]
    if k in ('in', 'arg', 'mu'):
        return ('len', s)
    if k == 'seq_new':
        return lit(0, 'i')
    if k == 'seq_rep':
        return s[2]
    if k == 'seq_lit':
        return lit(len(s[1]), 'i')
    if k == 'ext':
        return op('iadd', seq_len(s[1]), s[3])
    if k in ('push_back', 'push_front', 'insert'):
        return op('iadd', seq_len(s[1]), lit(1, 'i'))
    if k in ('pop_front', 'pop_back'):
        inner = seq_len(s[1])
        return phi(op('ge', inner, lit(1, 'i')), op('isub', inner, lit(1, 'i')), lit(0, 'i'))
    if k == 'remove':
        inner = seq_len(s[1])
        return phi(op('lt', s[2], inner), op('isub', inner, lit(1, 'i')), inner)
    if k in ('set', 'swap', 'set_back', 'set_front'):
        return seq_len(s[1])
    if k == 'truncate':
        inner = seq_len(s[1])
        return phi(op('le', inner, s[2]), inner, s[2])
    if k == 'phi':
        return phi(s[1], seq_len(s[2]), seq_len(s[3]))
    if k == 'fold':
        L, key, init, nxt = s[1], s[2], s[3], s[4]
        if _len_preserving(nxt, L, key):
            return seq_len(init)
        return ('len', s)
    return ('len', s)


def _len_preserving(t, L, key):
    if t == ('mu', L, key):
        return True
    if t[0] in ('set', 'swap', 'set_back', 'set_front'):
        return _len_preserving(t[1], L, key)
    if t[0] == 'phi':
        return _len_preserving(t[2], L, key) and _len_preserving(t[3], L, key)
    if t[0] == 'fold':
        return _len_preserving(t[3], L, key) and _len_preserving(t[4], t[1], t[2])
    return False


def norm_lens(t, memo=None):
    """Rewrite every ('len', s) inside t with the sequence-algebra rules."""
    def f(n):
        if n[0] == 'len':
            return seq_len(n[1])
        if n[0] == 'op' and n[1] in ('imin', 'imax') and len(n[2]) == 2:
            a, b = n[2]
            return phi(op('le', a, b), a, b) if n[1] == 'imin' else phi(op('ge', a, b), a, b)
        if n[0] == 'op' and n[1] == 'saturating_sub' and len(n[2]) == 2:
            a, b = n[2]
            return phi(op('ge', a, b), op('isub', a, b), ('lit', 0, 'i'))
        return n
    return map_term(t, f, memo)


# ----------------------------------------------------------------------------------------------
# linear forms


class NonLinear(Exception):
    pass


INT_OPS = ('iadd', 'isub', 'imul', 'idiv', 'irem', 'imax', 'imin', 'saturating_sub')
CMP = ('lt', 'le', 'gt', 'ge', 'eq', 'ne')


def is_int_term(t, ctx):
    k = t[0]
    if k == 'lit':
        return t[2] == 'i'
    if k in ('len', 'idx', 'pos'):
        return True
    if k == 'in':
        return t[1] in ctx.int_fields
    if k == 'payload':
        # the payload of an Option<integer> cell
        return t[1][0] == 'in' and ('?' + t[1][1]) in ctx.int_fields
    if k == 'arg':
        return t[1] in ctx.int_args
    if k == 'op':
        return t[1] in INT_OPS
    if k == 'phi':
        return is_int_term(t[2], ctx) or is_int_term(t[3], ctx)
    return False


def is_int_cmp(l, ctx):
    return l[0] == 'op' and l[1] in CMP and len(l[2]) == 2 and (is_int_term(l[2][0], ctx) or is_int_term(l[2][1], ctx))


def linear(t, ctx):
    """t -> (coeffs dict atom->int, const int). Raises NonLinear on phi / non-integer terms."""
    k = t[0]
    if k == 'lit':
        if t[2] == 'i':
            return {}, int(t[1])
        raise NonLinear()
    if k == 'op':
        o = t[1]
        if o in ('iadd', 'isub'):
            a, ca = linear(t[2][0], ctx)
            b, cb = linear(t[2][1], ctx)
            sgn = 1 if o == 'iadd' else -1
            r = dict(a)
            for x, c in b.items():
                r[x] = r.get(x, 0) + sgn * c
            return {x: c for x, c in r.items() if c != 0}, ca + sgn * cb
        if o == 'imul':
            for i in (0, 1):
                u, v = t[2][i], t[2][1 - i]
                if u[0] == 'lit' and u[2] == 'i':
                    a, ca = linear(v, ctx)
                    return {x: c * u[1] for x, c in a.items()}, ca * u[1]
            return {t: 1}, 0
        if o in INT_OPS:
            return {t: 1}, 0
        raise NonLinear()
    if k in ('len', 'idx', 'pos', 'in', 'arg', 'mu'):
        return {t: 1}, 0
    if k == 'payload' and t[1][0] == 'in' and ('?' + t[1][1]) in ctx.int_fields:
        return {t: 1}, 0
    raise NonLinear()


def cmp_constraints(l, pol, ctx):
    """Integer comparison literal -> list of constraints (coeffs, k) meaning sum + k <= 0; [] if not expressible."""
    o = l[1]
    if not pol:
        o = {'lt': 'ge', 'le': 'gt', 'gt': 'le', 'ge': 'lt', 'eq': 'ne', 'ne': 'eq'}[o]
    try:
        a, ca = linear(l[2][0], ctx)
        b, cb = linear(l[2][1], ctx)
    except NonLinear:
        return []
    d = dict(a)
    for x, c in b.items():
        d[x] = d.get(x, 0) - c
    d = {x: c for x, c in d.items() if c != 0}
    k0 = ca - cb
    neg = ({x: -c for x, c in d.items()}, -k0)
    if o == 'le':
        return [(d, k0)]
    if o == 'lt':
        return [(d, k0 + 1)]
    if o == 'ge':
        return [neg]
    if o == 'gt':
        return [(neg[0], neg[1] + 1)]
    if o == 'eq':
        return [(d, k0), neg]
    if o == 'ne':
        if len(d) == 1 and k0 == 0:  # x != 0 with x >= 0  ->  x >= 1
            (x, c), = d.items()
            return [({x: -1}, 1)]
        if not d:
            return [({}, 1)] if k0 == 0 else []
    return []


def dbm_infeasible(cons):
    """Difference constraints only: negative-cycle detection. None if some constraint has another shape."""
    edges = []
    nodes = {None: 0}
    for c, k in cons:
        n = len(c)
        if n == 0:
            if k > 0:
                return True
            continue
        if n == 1:
            (x, v), = c.items()
            if v == 1:
                edges.append((None, x, -k))
            elif v == -1:
                edges.append((x, None, -k))
            else:
                return None
        elif n == 2:
            (x, a), (y, b) = c.items()
            if a == 1 and b == -1:
                edges.append((y, x, -k))
            elif a == -1 and b == 1:
                edges.append((x, y, -k))
            else:
                return None
        else:
            return None
    for u, v, w in edges:
        if u not in nodes:
            nodes[u] = len(nodes)
        if v not in nodes:
            nodes[v] = len(nodes)
    n = len(nodes)
    dist = [0] * n
    E = [(nodes[u], nodes[v], w) for u, v, w in edges]
    for _ in range(n + 1):
        changed = False
        for u, v, w in E:
            if dist[u] + w < dist[v]:
                dist[v] = dist[u] + w
                changed = True
        if not changed:
            return False
    return True


def fm_infeasible(cons):
    """cons: list of (coeffs, k) meaning sum(coeffs*x) + k <= 0 over non-negative integers."""
    r = dbm_infeasible(cons)
    if r is not None:
        return r
    cons = [(dict(c), k) for c, k in cons]
    for _ in range(64):
        nxt = []
        for c, k in cons:
            if not c:
                if k > 0:
                    return True
                continue
            nxt.append((c, k))
        cons = nxt
        if not cons:
            return False
        vars_ = {}
        for c, k in cons:
            for x, v in c.items():
                p, n = vars_.get(x, (0, 0))
                vars_[x] = (p + (v > 0), n + (v < 0))
        x = min(vars_, key=lambda z: vars_[z][0] * vars_[z][1])
        pos = [(c, k) for c, k in cons if c.get(x, 0) > 0]
        neg = [(c, k) for c, k in cons if c.get(x, 0) < 0]
        rest = [(c, k) for c, k in cons if x not in c]
        if len(pos) * len(neg) > 600:
            return False
        for cp, kp in pos:
            for cn, kn in neg:
                a, b = cp[x], -cn[x]
                nc = {}
                for y, v in cp.items():
                    if y != x:
                        nc[y] = nc.get(y, 0) + v * b
                for y, v in cn.items():
                    if y != x:
                        nc[y] = nc.get(y, 0) + v * a
                nc = {y: v for y, v in nc.items() if v != 0}
                kk = kp * b + kn * a
                g = 0
                for vv in nc.values():
                    g = gcd(g, abs(vv))
                if g > 1:
                    nc = {y: vv // g for y, vv in nc.items()}
                    kk = -((-kk) // g)
                rest.append((nc, kk))
        cons = rest
    return False


# ----------------------------------------------------------------------------------------------
# formulas


def nnf(f, positive=True):
    """Negation normal form over and/or/not/bool-phi/is_some; leaves ('lit', term, polarity)."""
    if f == TRUE:
        return ('const', positive)
    if f == FALSE:
        return ('const', not positive)
    k = f[0]
    if k == 'op' and f[1] == 'not':
        return nnf(f[2][0], not positive)
    if k == 'op' and f[1] in ('and', 'or'):
        kind = f[1] if positive else ('or' if f[1] == 'and' else 'and')
        return (kind, [nnf(x, positive) for x in f[2]])
    if k == 'phi':
        a = ('and', [nnf(f[1], True), nnf(f[2], positive)])
        b = ('and', [nnf(f[1], False), nnf(f[3], positive)])
        return ('or', [a, b])
    if k == 'is_some':
        inner = f[1]
        if inner[0] == 'phi':
            a = ('and', [nnf(inner[1], True), nnf(is_some(inner[2]), positive)])
            b = ('and', [nnf(inner[1], False), nnf(is_some(inner[3]), positive)])
            return ('or', [a, b])
        if inner[0] == 'some':
            return ('const', positive)
        if inner[0] == 'none':
            return ('const', not positive)
    if k == 'lit' and f[2] == 'b':
        return ('const', bool(f[1]) == positive)
    return ('lit', f, positive)


def first_int_phi(l):
    """First phi nested inside an integer comparison literal."""
    for x in subterms(l):
        if x[0] == 'phi':
            return x
    return None


class Cube:
    """A conjunction under construction: propositional literals, arithmetic constraints, pending disjunctions."""
    __slots__ = ('props', 'cons', 'ors', 'dead', 'atoms')

    def __init__(self):
        self.props = {}
        self.cons = []
        self.ors = []
        self.dead = False
        self.atoms = set()

    def copy(self):
        c = Cube()
        c.props = dict(self.props)
        c.cons = list(self.cons)
        c.ors = list(self.ors)
        c.dead = self.dead
        c.atoms = set(self.atoms)
        return c

    def add(self, f, ctx):
        """Add an nnf formula."""
        if self.dead:
            return
        k = f[0]
        if k == 'const':
            if not f[1]:
                self.dead = True
            return
        if k == 'and':
            for x in f[1]:
                self.add(x, ctx)
            return
        if k == 'or':
            alts = [x for x in f[1] if not (x[0] == 'const' and not x[1])]
            if any(x[0] == 'const' and x[1] for x in alts):
                return
            if not alts:
                self.dead = True
            elif len(alts) == 1:
                self.add(alts[0], ctx)
            else:
                self.ors.append(alts)
            return
        l, pol = f[1], f[2]
        if is_int_cmp(l, ctx):
            p = first_int_phi(l)
            if p is not None:
                a = map_term(l, lambda n: p[2] if n is p or n == p else n)
                b = map_term(l, lambda n: p[3] if n is p or n == p else n)
                self.ors.append([('and', [nnf(p[1], True), ('lit', a, pol)]), ('and', [nnf(p[1], False), ('lit', b, pol)])])
                return
            eff = l[1] if pol else {'lt': 'ge', 'le': 'gt', 'gt': 'le', 'ge': 'lt', 'eq': 'ne', 'ne': 'eq'}[l[1]]
            if eff == 'ne':
                # a != b  ==  a < b  or  a > b
                self.ors.append([('lit', op('lt', l[2][0], l[2][1]), True), ('lit', op('gt', l[2][0], l[2][1]), True)])
                return
            cs = cmp_constraints(l, pol, ctx)
            for c, k0 in cs:
                self.cons.append((c, k0))
                self.atoms.update(c)
            return
        if l in self.props and self.props[l] != pol:
            self.dead = True
            return
        self.props[l] = pol

    def theory_unsat(self):
        if self.dead:
            return True
        if not self.cons:
            return False
        cons = list(self.cons)
        for x in self.atoms:
            cons.append(({x: -1}, 0))
        return fm_infeasible(cons)


def _solve(cube, ctx, budget):
    """True iff the cube (with its pending disjunctions) is unsatisfiable (proved)."""
    if budget[0] <= 0:
        return False
    budget[0] -= 1
    if cube.theory_unsat():
        return True
    if not cube.ors:
        return False
    ors = sorted(cube.ors, key=len)
    first = ors[0]
    rest = ors[1:]
    for alt in first:
        c = cube.copy()
        c.ors = list(rest)
        c.add(alt, ctx)
        if not _solve(c, ctx, budget):
            return False
    return True


class Hyps:
    """Pre-compiled hypothesis set (normalised once, reused for many goals)."""

    def __init__(self, terms, ctx):
        self.ctx = ctx
        self.terms = list(terms)
        self.cube = Cube()
        memo = {}
        for h in terms:
            if isinstance(h, tuple) and h and h[0] == 'inloop':
                continue
            self.cube.add(nnf(norm_lens(h, memo)), ctx)

    def extended(self, more):
        h = Hyps([], self.ctx)
        h.terms = self.terms + list(more)
        h.cube = self.cube.copy()
        memo = {}
        for t in more:
            if isinstance(t, tuple) and t and t[0] == 'inloop':
                continue
            h.cube.add(nnf(norm_lens(t, memo)), self.ctx)
        return h


def entails_h(H, goal, budget=250):
    """True only if the compiled hypotheses imply goal."""
    ctx = H.ctx
    if H.cube.dead:
        return True
    if goal == TRUE:
        return True
    for h in H.terms:
        if h is goal or h == goal:
            return True
    if goal[0] == 'op' and goal[1] == 'eq' and is_int_cmp(goal, ctx):
        return entails_h(H, op('le', goal[2][0], goal[2][1]), budget) and entails_h(H, op('ge', goal[2][0], goal[2][1]), budget)
    c = H.cube.copy()
    c.add(nnf(norm_lens(goal), False), ctx)
    c.ors = _useful_ors(c, ctx)
    return _solve(c, ctx, [budget])


def _lits_of(f, acc):
    if f[0] == 'lit':
        acc.append(f)
    elif f[0] in ('and', 'or'):
        for x in f[1]:
            _lits_of(x, acc)


def _useful_ors(c, ctx):
    """Drop disjunctions that cannot help a refutation: alternatives made only of propositional atoms
    that nobody mentions with the opposite polarity."""
    mention = {}
    for l, pol in c.props.items():
        mention.setdefault(l, set()).add(pol)
    per_or = []
    for alts in c.ors:
        lits = []
        for a in alts:
            _lits_of(a, lits)
        per_or.append(lits)
        for (_, l, pol) in lits:
            mention.setdefault(l, set()).add(pol)
    out = []
    for alts, lits in zip(c.ors, per_or):
        # an alternative made only of pure (unopposed) propositional literals can always be chosen
        # without affecting anything else: such a disjunction never helps a refutation
        free_alt = False
        for a in alts:
            al = []
            _lits_of(a, al)
            if al and all((not is_int_cmp(l, ctx)) and len(mention.get(l, ())) <= 1 for (_, l, pol) in al):
                free_alt = True
                break
        if not free_alt:
            out.append(alts)
    out.sort(key=len)
    return out[:10]


def entails(hyps, goal, ctx):
    return entails_h(Hyps(hyps, ctx), goal)


def loop_hyps(pc, ctx):
    """Range constraints for the loop position variables of every ('inloop', L) in pc."""
    out = []
    for c in pc:
        if isinstance(c, tuple) and c and c[0] == 'inloop':
            info = ctx.loops.get(c[1])
            if info:
                out.extend(info.get('hyps', []))
                # loop-carried sequences that are only written element-wise keep their length
                for key, (init, nxt) in info.get('carried', {}).items():
                    if nxt is not None and nxt != ('mu', c[1], key) and _len_preserving(nxt, c[1], key):
                        out.append(op('eq', ('len', ('mu', c[1], key)), ('len', init)))
                    # linear induction variable: v' = v ∓ 1 on every iteration, so v = init ∓ (position − first position)
                    mu = ('mu', c[1], key)
                    it = info.get('iter')
                    lo = None
                    if isinstance(it, tuple) and it and it[0] == 'range':
                        lo = it[1]
                    elif isinstance(it, tuple) and it and it[0] in ('iter', 'copied', 'iter_mut'):
                        cur = it
                        while isinstance(cur, tuple) and cur and cur[0] == 'copied':
                            cur = cur[1]
                        if isinstance(cur, tuple) and cur and cur[0] in ('iter', 'iter_mut'):
                            lo = ('lit', 0, 'i')
                    if lo is not None and isinstance(nxt, tuple) and nxt[:1] == ('op',) and nxt[1] in ('isub', 'iadd') \
                            and nxt[2][0] == mu and nxt[2][1] == ('lit', 1, 'i'):
                        idx = ('idx', c[1])
                        if nxt[1] == 'isub':
                            out.append(op('eq', op('iadd', mu, idx), op('iadd', init, lo)))
                        else:
                            out.append(op('eq', op('iadd', mu, lo), op('iadd', init, idx)))
    return out
