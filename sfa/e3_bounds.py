"""E3 — bounds: class invariants by Houdini over the value graph, panic obligations, memory bounds.

For each view:
  * Init  = the state built by each public constructor (under its asserts and N >= 1)
  * Step  = each exit of update() as a guarded parallel assignment of terms (sfa/vg.py)
  * candidates (lengths vs parameters/constants, length differences, counters vs lengths, Option
    typestate vs lengths) are filtered to the largest inductive subset J (true at Init, preserved by Step)
  * every potentially panicking operation recorded by the value graph (usize subtraction, indexing,
    unwrap/expect, Vec::remove, clamp) in update(), last() and public helpers is discharged from
    J ∧ path condition ∧ loop ranges by the entailment procedure in sfa/solve.py — for all N at once.
  * C18: every growable buffer must have an upper bound in J that mentions parameters/constants only.
"""
import re
from .model import model
from .vg import VG, tstr, subterms, op, lit, is_some, TRUE, FALSE, conj, exits_value, neg_cond
from .terms import subst_in, free_ins
from .solve import Ctx, entails, loop_hyps, norm_lens, Hyps, entails_h
from .sir import canon, loc, walk


INT_TYS = ('usize', 'u8', 'u16', 'u32', 'u64', 'u128', 'isize', 'i32', 'i64')


def field_types(F, view):
    """{field path: ty json} including the fields of concrete inner views (recursively)."""
    out = {}

    def rec(adt_path, prefix, bind, depth):
        adt = F.adts.get(adt_path)
        if not adt or depth > 4:
            return
        for fld in adt['variants'][0]['fields']:
            ty = fld['ty']
            if 'param' in ty and ty['param'] in bind:
                ty = bind[ty['param']]
            put(prefix + fld['name'], ty, adt_path, bind, depth)

    def put(path, ty, adt_path, bind, depth):
        from .sir import norm_option_like_ty
        if ty.get('adt') in getattr(F, 'option_like', {}):
            ty = dict(ty)
            ty['args'] = [bind.get(a['param'], a) if isinstance(a, dict) and 'param' in a else a for a in ty.get('args', [])]
            ty = norm_option_like_ty(F, ty)
        from .sir import oos_components
        ty_b = ty
        if ty.get('args'):
            ty_b = dict(ty)
            ty_b['args'] = [bind.get(a['param'], a) if isinstance(a, dict) and 'param' in a else a for a in ty.get('args', [])]
        oc = oos_components(F, ty_b)
        if oc:
            # Option of a plain struct / option-like enum with several payload fields: one Option cell per payload field
            for cn, cty in oc:
                out['%s.%s' % (path, cn)] = {'adt': 'std::option::Option', 'args': [cty]}
            return
        if ty.get('adt') in ('std::vec::Vec', 'std::collections::VecDeque') and ty.get('args'):
            # a queue of small structs / tuples is presented by the value graph as one queue per component (sfa/vg.py: aos_normalise)
            el = ty['args'][0]
            if 'param' in el and el['param'] in bind:
                el = bind[el['param']]
            comps = None
            if isinstance(el.get('tuple'), list) and len(el['tuple']) >= 2:
                comps = [(str(i), x) for i, x in enumerate(el['tuple'])]
            elif el.get('adt') in F.adts and el.get('adt') not in {v.adt_path for v in F.views}:
                ea = F.adts[el['adt']]
                if ea.get('kind') == 'Struct' and len(ea.get('variants', [])) == 1 and ea['variants'][0]['fields']:
                    eb = dict(zip(ea.get('generics', []), [bind.get(a['param'], a) if 'param' in a else a for a in el.get('args', [])]))
                    comps = [(f_['name'], eb.get(f_['ty'].get('param'), f_['ty']) if 'param' in f_['ty'] else f_['ty']) for f_ in ea['variants'][0]['fields']]
            if comps:
                for cn, cty in comps:
                    out['%s.%s' % (path, cn)] = {'adt': ty['adt'], 'args': [cty]}
                return
        out[path] = ty
        if ty.get('adt') in F.adts and ty.get('adt') != adt_path:
            gens = F.adts[ty['adt']]['generics']
            args = [bind.get(a['param'], a) if 'param' in a else a for a in ty.get('args', [])]
            rec(ty['adt'], path + '.', dict(zip(gens, args)), depth + 1)
        elif 'array' in ty and str(ty.get('len_str', '')).strip().isdigit() and int(str(ty['len_str']).strip()) <= 4:
            # a small fixed-size array of registers: the value graph presents it as the cells `f.0`, `f.1`, ..
            x = ty['array']
            if 'param' in x and x['param'] in bind:
                x = bind[x['param']]
            for i in range(int(str(ty['len_str']).strip())):
                put('%s.%d' % (path, i), x, adt_path, bind, depth)
        elif 'tuple' in ty:
            # tuple-typed field: its components are places `f.0`, `f.1`, ..
            for i, x in enumerate(ty['tuple']):
                if 'param' in x and x['param'] in bind:
                    x = bind[x['param']]
                put('%s.%d' % (path, i), x, adt_path, bind, depth)
    rec(view.adt_path, '', {}, 0)
    return out


def unmodelled_buffers(F, view):
    """[(field path, container description)] for growable sequences that sit inside a container the value graph does not
    track as a place (Option<Vec<..>>, [Vec<..>; n], Box<Vec<..>>, Vec<Vec<..>> elements): no length bound can be inferred
    for them, so C18 cannot vouch for the view."""
    out = []

    def scan(ty, where, top):
        if not isinstance(ty, dict):
            return
        if is_seq_tyj(ty):
            if not top:
                out.append(where)
            for a in ty.get('args', []):
                scan(a, (where[0], where[1] + '<elements>'), False)
            return
        if ty.get('adt') in F.adts:
            return  # local ADTs are expanded by field_types
        if 'tuple' in ty:
            return  # expanded by field_types
        for key in ('array', 'ref', 'ptr', 'slice'):
            if key in ty and isinstance(ty[key], dict):
                scan(ty[key], (where[0], where[1] + '[' + key + ']'), False)
        for a in ty.get('args', []) or []:
            scan(a, (where[0], where[1] + '<' + str(ty.get('adt', '?')).split('::')[-1] + '>'), False)
    for path, ty in field_types(F, view).items():
        scan(ty, (path, ''), True)
    return out


def is_int_ty(ty):
    return ty.get('prim') in INT_TYS


def is_seq_tyj(ty):
    return ty.get('adt') in ('std::vec::Vec', 'std::collections::VecDeque')


def is_opt_tyj(ty):
    return ty.get('adt') == 'std::option::Option'


class Bounds:
    def __init__(self, F, view):
        self.F = F
        self.v = view
        self.m = model(F, view)
        self.ftypes = field_types(F, view)
        self.int_fields = {p for p, t in self.ftypes.items() if is_int_ty(t)}
        # Option<integer> cells: their payload is an integer atom ('?path' marks them for the solver's typing context)
        self.int_fields |= {'?' + p for p, t in self.ftypes.items() if t.get('adt') == 'std::option::Option' and t.get('args') and is_int_ty(t['args'][0])}
        self.buffers = sorted(p for p, t in self.ftypes.items() if is_seq_tyj(t))
        self.options = sorted(p for p, t in self.ftypes.items() if is_opt_tyj(t))
        self.int_params = sorted(p for p in self.int_fields if p not in self.m.touched and not p.startswith('?'))
        self.int_cells = sorted(p for p in self.int_fields if p in self.m.touched and not p.startswith('?'))
        int_args = set()
        for c in view.ctors + view.helpers + [view.update, view.last]:
            if c is None:
                continue
            for (pid, name, ty) in c.param_ids():
                if ty in INT_TYS and name:
                    int_args.add(name)
        self.int_args = int_args
        self.pre = self.param_invariants()
        # fixed-size array fields (also inside inlined inner views): the length is part of the type
        for path, ty in self.ftypes.items():
            if isinstance(ty, dict) and 'array' in ty and str(ty.get('len_str', '')).strip().isdigit():
                self.pre.append(op('eq', ('len', ('in', path)), lit(int(str(ty['len_str']).strip()), 'i')))
        self.inv = []
        self.log = []

    def ctx(self, vg):
        return Ctx(self.int_fields, self.int_args, vg.loops if vg is not None else {})

    # ---------------------------------------------------------------- preconditions on parameters
    def param_invariants(self):
        """Conditions on parameter fields that hold in every constructed view: N >= 1 for every usize
        parameter (the properties' domain) plus the constructor's own asserts mapped onto the fields."""
        # N >= 1 is the properties' domain for the constructor ARGUMENTS; a parameter field inherits it only if every public
        # constructor stores an argument unchanged or a term that is provably >= 1 under (arguments >= 1, constructor asserts)
        pre = []
        pubs = [mm for mm in self.m.ctor_models if mm['init'] is not None and mm['fn'].vis.startswith('Public')]
        for p in self.int_params:
            ok1 = bool(pubs)
            for mm in pubs:
                t = mm['init'].get(p)
                if t is None:
                    ok1 = False
                    break
                if isinstance(t, tuple) and t and t[0] == 'arg':
                    continue
                hyp = [op('ge', ('arg', a), lit(1, 'i')) for a in self.int_args] + [c for c in mm['pre'] if isinstance(c, tuple)]
                try:
                    if not entails(hyp, op('ge', t, lit(1, 'i')), Ctx(self.int_fields, self.int_args, mm['vg'].loops)):
                        ok1 = False
                except Exception:
                    ok1 = False
            pre.append(op('ge', ('in', p), lit(1 if ok1 else 0, 'i')))
        per_ctor = []
        for mm in self.m.ctor_models:
            if mm['init'] is None or not mm['fn'].vis.startswith('Public'):
                continue
            amap = {}
            for fp, t in mm['init'].items():
                if isinstance(t, tuple) and t and t[0] == 'arg' and fp in self.int_params:
                    amap.setdefault(t, []).append(fp)
            conds = set()
            for c in mm['pre']:
                args = {x for x in subterms(c) if x[0] == 'arg'}
                if args and all(a in amap for a in args):
                    # substitute each arg by (each of) its field(s)
                    from .terms import map_term
                    for a in args:
                        for fp in amap[a]:
                            conds.add(map_term(c, lambda n, a=a, fp=fp: ('in', fp) if n == a else n))
            per_ctor.append(conds)
        if per_ctor:
            common = set.intersection(*per_ctor) if len(per_ctor) > 1 else per_ctor[0]
            pre.extend(sorted(common, key=str))
        return pre

    # ---------------------------------------------------------------- candidates
    def candidates(self):
        L = lambda b: ('len', ('in', b))
        I = lambda p: ('in', p)
        k = lambda n: lit(n, 'i')
        cands = []
        consts = [0, 1, 2, 3, 4]
        for b in self.buffers:
            for c in consts:
                cands.append(op('le', L(b), k(c)))
            for p in self.int_params:
                cands.append(op('le', L(b), I(p)))
                cands.append(op('le', L(b), op('iadd', I(p), k(1))))
                cands.append(op('lt', L(b), I(p)))
                cands.append(op('eq', L(b), I(p)))
        for i, b1 in enumerate(self.buffers):
            for b2 in self.buffers:
                if b1 == b2:
                    continue
                if b1 < b2:
                    cands.append(op('eq', L(b1), L(b2)))
                cands.append(op('le', L(b1), L(b2)))
                cands.append(op('le', L(b1), op('iadd', L(b2), k(1))))
        for c in self.int_cells:
            for b in self.buffers:
                cands.append(op('eq', I(c), L(b)))
                cands.append(op('le', I(c), L(b)))
                cands.append(op('le', L(b), I(c)))
                cands.append(op('le', L(b), op('iadd', I(c), k(1))))
            for p in self.int_params:
                cands.append(op('le', I(c), I(p)))
                cands.append(op('le', I(c), op('iadd', I(p), k(1))))
        for o in self.options:
            cands.append(is_some(I(o)))
            for b in self.buffers:
                cands.append(op('or', op('lt', L(b), k(1)), is_some(I(o))))
                cands.append(op('or', neg_cond(is_some(I(o))), op('ge', L(b), k(1))))
        return cands

    # ---------------------------------------------------------------- Houdini
    def houdini(self):
        cands = self.candidates()
        vg0 = None
        ctx = self.ctx(self.m.up_vg)
        # Init filter
        inits = [(n, init, pre) for (n, init, pre) in self.m.inits()]
        alive = []
        for c in cands:
            ok = bool(inits)
            for (n, init, pre) in inits:
                ci = subst_in(c, init)
                # the constructor's own preconditions are over args; parameters appear as args here
                hy = list(pre) + [op('ge', a, lit(1, 'i')) for a in {x for x in subterms(ci) if x[0] == 'arg'}]
                if not entails(hy, ci, Ctx(self.int_fields, self.int_args, {})):
                    ok = False
                    break
            if ok:
                alive.append(c)
        # Step filter until stable
        exits = [ex for ex in self.m.up_exits]
        changed = True
        rounds = 0
        while changed and rounds < 12:
            changed = False
            rounds += 1
            base = Hyps(self.pre + alive, ctx)
            hex_ = [base.extended(list(ex.pc)) for ex in exits]
            keep = []
            for c in alive:
                ok = True
                fi = free_ins(c)
                for ex, H in zip(exits, hex_):
                    touched = any(ex.fields.get(kf, ('in', kf)) != ('in', kf) for kf in fi)
                    if not touched:
                        continue
                    goal = subst_in(c, ex.fields)
                    if not entails_h(H, goal):
                        ok = False
                        break
                if ok:
                    keep.append(c)
                else:
                    changed = True
            alive = keep
        alive = alive + self.counting_facts()
        self.inv = alive
        return alive

    def counting_facts(self):
        """Consequences of a verified counting invariant  cell = #{x in q : pred(x)}  (predicate-counter rule) as bounds the linear
        domain can use:  cell <= len(q);  pred(E) or cell <= len(q) - 1  for the element E about to be evicted (an element that
        does not satisfy the predicate is not counted);  pred(E) and len(q) >= 1  implies  cell >= 1."""
        out = []
        seen = set()
        for ev in self.m.up_vg.events:
            if ev.kind != 'int_sub' or not (ev.data[0][0] == 'in' and ev.data[0][1] in self.int_cells and ev.data[1] == lit(1, 'i')):
                continue
            cell = ev.data[0][1]
            if cell in seen:
                continue
            try:
                ok, why = predicate_counter(self, ev)
            except Exception:
                ok = False
            if not ok:
                continue
            seen.add(cell)
            E = predE = None
            for c in ev.pc:
                if isinstance(c, tuple):
                    for x in subterms(c):
                        if x[0] in ('back', 'front') and x[1][0] == 'in' and x[1][1] in self.buffers:
                            E, predE = x, c
            if E is None:
                continue
            q = E[1][1]
            L = ('len', ('in', q))
            P = ('in', cell)
            out.append(op('le', P, L))
            out.append(op('or', predE, op('le', op('iadd', P, lit(1, 'i')), L)))
            out.append(op('or', neg_cond(predE), op('lt', L, lit(1, 'i')), op('ge', P, lit(1, 'i'))))
        return out

    # ---------------------------------------------------------------- obligations
    def goals_of(self, ev, is_ctor=False, ctx=None):
        """[(kind, goal term, description)] for one event."""
        k = ev.kind
        d = ev.data
        if k == 'slice':
            return [('slice', conj([op('le', d[1], d[2]), op('le', d[2], ('len', d[0]))]), 'slice bounds %s..%s ordered and within the sequence' % (tstr(d[1])[:30], tstr(d[2])[:30]))]
        if k == 'while-once':
            return [('while-once', neg_cond(d[0]), 'the `while` loop is modelled as one guarded iteration: its condition must be false afterwards')]
        if k == 'panic':
            if is_ctor:
                return []   # a constructor may reject its arguments: that is the documented contract (C15 quantifies over accepted N)
            return [('explicit-panic', FALSE, 'explicit %s!() must sit on an infeasible path' % d[0])]
        if k in ('assert', 'debug_assert') and not is_ctor:
            name, args = d
            goals = []
            if name == 'assert' and args:
                for c in conjuncts(args[0]):
                    if structural_cond(c, ctx):
                        goals.append(('assert-int', c, 'integer/structural assertion %s' % tstr(c)[:70]))
            elif name in ('assert_eq', 'assert_ne') and len(args) == 2:
                c = op('eq' if name == 'assert_eq' else 'ne', args[0], args[1])
                if structural_cond(c, ctx):
                    goals.append(('assert-int', c, 'integer/structural assertion %s' % tstr(c)[:70]))
            return goals
        if k in ('int_add', 'int_mul') and len(d) >= 3:
            bits = int_bits(d[2])
            if bits is not None and bits < 64:
                mx = (1 << (bits - (1 if str(d[2]).startswith('i') else 0))) - 1
                o = 'iadd' if k == 'int_add' else 'imul'
                return [('narrow-int-overflow', op('le', op(o, d[0], d[1]), lit(mx, 'i')),
                         '%s %s %s on a %s cannot exceed %d' % (tstr(d[0])[:40], '+' if k == 'int_add' else '*', tstr(d[1])[:20], d[2], mx))]
            return []
        if k == 'int_sub':
            return [('usize-sub', op('ge', d[0], d[1]), '%s - %s cannot underflow' % (tstr(d[0])[:60], tstr(d[1])[:30]))]
        if k == 'index':
            return [('index', op('lt', d[1], ('len', d[0])), 'index %s < len' % tstr(d[1])[:60])]
        if k == 'unwrap':
            return [('unwrap', is_some(d[0]), 'unwrap/expect of %s' % tstr(d[0])[:80])]
        if k == 'unwrap_cmp':
            return [('unwrap-cmp', TRUE, 'partial_cmp(..).expect inside a comparator: Some for non-NaN operands (buffer elements are finite inner-view outputs: assumption)')]
        if k == 'unwrap-implicit':
            return [('unwrap', d[0], 'non-empty')]
        if k == 'fclamp' and len(d) == 3:
            lo, hi = d[1], d[2]
            if lo[0] == 'lit' and hi[0] == 'lit':
                return [('clamp', TRUE if lo[1] <= hi[1] else op('le', lo, hi), 'clamp bounds ordered')]
            return [('clamp', op('le', lo, hi), 'clamp bounds ordered')]
        if k in ('int_div', 'int_rem'):
            return [('int-div', op('ge', d[1], lit(1, 'i')), 'integer divisor non-zero')]
        return []

    def discharge(self, vg, entry_hyps, R, fn_label, floor_counter, is_ctor=False):
        ctx = self.ctx(vg)
        n = 0
        base = Hyps(entry_hyps, ctx)
        hcache = {}
        for ev in vg.events:
            for (kind, goal, desc) in self.goals_of(ev, is_ctor, ctx):
                n += 1
                H = hcache.get(id(ev.pc))
                if H is None or H[0] is not ev.pc:
                    H = (ev.pc, base.extended([c for c in ev.pc] + loop_hyps(ev.pc, ctx)))
                    hcache[id(ev.pc)] = H
                ok = goal == TRUE or entails_h(H[1], goal)
                if not ok and kind == 'usize-sub':
                    ok2, why = predicate_counter(self, ev)
                    if ok2:
                        ok = True
                        desc = desc + ' — by ' + why
                    elif why:
                        desc = desc + ' [predicate-counter rule: ' + why + ']'
                key = '%s:%s:%s:%s' % (self.v.name, fn_label, kind, _shape(goal))
                R.ob('P-' + kind, key, ok,
                     desc + (' — from class invariant + path condition' if ok else ' — NOT entailed; path: %s' % [tstr(c)[:70] for c in ev.pc][-4:]),
                     loc(ev.node) if ev.node else self.v.file)
                floor_counter[kind] = floor_counter.get(kind, 0) + 1
        return n


def conjuncts(c):
    if isinstance(c, tuple) and c and c[0] == 'op' and c[1] == 'and':
        r = []
        for x in c[2]:
            r.extend(conjuncts(x))
        return r
    return [c]


def int_bits(ty):
    m = re.match(r'^[ui](8|16|32|64|128|size)$', str(ty))
    if not m:
        return None
    return 64 if m.group(1) == 'size' else int(m.group(1))


def structural_cond(c, ctx):
    """Is c a condition over integers / presence / lengths (decided by the entailment engine), as opposed to a condition
    over float values (decided by the interval census in e_ready)?"""
    from .solve import is_int_cmp
    if not (isinstance(c, tuple) and c):
        return False
    if c[0] == 'op' and c[1] == 'not':
        return structural_cond(c[2][0], ctx)
    if c[0] == 'op' and c[1] in ('and', 'or'):
        return all(structural_cond(x, ctx) for x in c[2])
    if c[0] == 'op' and c[1] in ('is_some', 'is_empty'):
        return True
    if c[0] == 'is_some':
        return True
    if c[0] == 'lit' and c[2] == 'b':
        return True
    try:
        return bool(is_int_cmp(c, ctx))
    except Exception:
        return False


def data_driven_int_cells(m, ftypes):
    """Integer state cells whose next value depends on the data (a run-length counter, a count of values satisfying a
    predicate, ...): a condition on such a cell is a data condition even though it compares integers. A pure sample / fill
    counter's update mentions only integers, lengths and presence."""
    out = set()
    for cell, t in m.up_fields.items():
        ty = ftypes.get(cell, {})
        if not is_int_ty(ty) and ty.get('prim') != 'bool':
            continue
        for x in subterms(t):
            if x[0] in ('child', 'arg') or (x[0] == 'lit' and len(x) > 2 and x[2] == 'f') or \
                    (x[0] == 'in' and x[1] != cell and not is_int_ty(ftypes.get(x[1], {})) and ftypes.get(x[1], {}).get('prim') != 'bool'
                     and not is_seq_tyj(ftypes.get(x[1], {}))) or \
                    (x[0] in ('front', 'back', 'get') ):
                out.add(cell)
                break
    # closure: a cell driven by a data-driven cell is data-driven
    changed = True
    while changed:
        changed = False
        for cell, t in m.up_fields.items():
            if cell in out or not (is_int_ty(ftypes.get(cell, {})) or ftypes.get(cell, {}).get('prim') == 'bool'):
                continue
            if any(x[0] == 'in' and x[1] in out for x in subterms(t)):
                out.add(cell)
                changed = True
    return out


def mentions_cells(c, cells):
    return any(x[0] == 'in' and x[1] in cells for x in subterms(c)) if isinstance(c, tuple) else False


def predicate_counter(B, ev):
    """Justify `cell >= 1` at a decrement `cell - 1` by the counting invariant
        cell = #{ x in q : pred(x) }
    which holds when (a) cell and q start at 0 / empty, (b) every update changes cell by
    [pred(pushed value)] - [an element was evicted and pred(evicted element)], (c) the decrement sits under
    pred(evicted element) with the element actually evicted from q. Returns (ok, explanation)."""
    from .terms import cases, cases_deep, map_term
    a, b = ev.data[0], ev.data[1]
    if not (a[0] == 'in' and a[1] in B.int_cells and b == lit(1, 'i')):
        return False, ''
    cell = a[1]
    # evicted element and its predicate from the path condition of the decrement
    E = None
    predE = None
    def flat(cs):
        # a && b on a path holds iff both conjuncts hold
        out, todo = [], [c for c in cs if isinstance(c, tuple)]
        while todo:
            c = todo.pop(0)
            if c[0] == 'op' and c[1] == 'and':
                todo = list(c[2]) + todo
            else:
                out.append(c)
        return out
    for c in flat(ev.pc):
        for x in subterms(c):
            if x[0] in ('back', 'front') and x[1][0] == 'in' and x[1][1] in B.buffers:
                E, predE = x, c
    if E is None:
        return False, 'no evicted-element predicate on the path'
    q = E[1][1]
    qexit = B.m.up_fields.get(q)
    if qexit is None:
        return False, ''
    V = None
    G = None
    want_pop = 'pop_' + E[0]
    want_push = 'push_front' if E[0] == 'back' else 'push_back'
    for conds, leaf in cases(qexit):
        if leaf[0] == want_push:
            V = leaf[2]
            inner = leaf[1]
            if inner[0] == 'phi' and inner[2] == (want_pop, ('in', q)) and inner[3] == ('in', q):
                G = inner[1]
            elif inner == (want_pop, ('in', q)):
                G = TRUE
        elif leaf != ('in', q):
            return False, 'buffer %s is also modified in another way: %s' % (q, tstr(leaf)[:60])
    if V is None or G is None:
        return False, 'buffer %s is not an evict-oldest/insert-newest queue' % q
    predV = map_term(predE, lambda n: V if n == E else n)
    for nm, init, pre in B.m.inits():
        if init.get(cell) != lit(0, 'i') or init.get(q) != ('seq_new',):
            return False, 'counter/buffer do not start at 0/empty'
    pexit = B.m.up_fields.get(cell)
    ctx = B.ctx(B.m.up_vg)
    from .solve import linear, NonLinear
    for conds, leaf in cases_deep(pexit):
        conds_raw, conds = conds, flat(conds)
        try:
            co, k = linear(leaf, ctx)
        except NonLinear:
            return False, 'counter update is not of the form cell + k'
        if co != {('in', cell): 1} or k not in (-1, 0, 1):
            return False, 'counter update is not cell + {-1,0,1}: %s' % tstr(leaf)[:60]

        def truth(f):
            if f == TRUE:
                return True
            if f in conds:
                return True
            if neg_cond(f) in conds:
                return False
            return None
        untouched = all(ex_c in conds for ex_c in ()) and leaf == ('in', cell) and truth(G) is None and truth(predV) is None
        if untouched:
            continue  # the path on which nothing is delivered
        tv, tg, te = truth(predV), truth(G), truth(predE)
        if tv is not None and (tg is None or (tg and te is None)) and G != TRUE:
            # the eviction and its predicate tested as one conjunction (`evicted.is_some_and(pred)`): a refuted G && pred(E) means
            # "nothing counted leaves", which is all the counting invariant needs on this path
            for c in conds:
                if c[0] == 'op' and c[1] == 'not' and c[2][0][0] == 'op' and c[2][0][1] == 'and' and \
                        {G, predE} <= set(flat([c[2][0]])) <= {G, predE, op('gt', ('len', ('in', q)), lit(0, 'i'))}:
                    # (a third conjunct `len(q) > 0` -- the pop actually yields an element -- is part of "an element leaves")
                    tg, te = True, False      # contribution [G and pred(E)] = 0; (G, pred(E)) individually irrelevant
                    if truth(G) is False:
                        tg = False
        if tv is None or tg is None or (tg and te is None):
            return False, 'counter case does not determine the predicates: %s' % [tstr(c)[:40] for c in conds]
        want = (1 if tv else 0) - (1 if (tg and te) else 0)
        if want != k:
            return False, 'counter changes by %d where the counting invariant needs %d (pushed-pred=%s evicted=%s evicted-pred=%s)' % (k, want, tv, tg, te)
    return True, 'counting invariant %s = #{x in %s : %s} (insert/evict use the same predicate)' % (cell, q, tstr(predE)[:50])


def _shape(goal):
    """Stable instance key for an obligation: the goal with literals kept and long subterms abbreviated."""
    s = tstr(goal)
    s = re.sub(r'\s+', '', s)
    if len(s) > 90:
        import hashlib
        s = s[:60] + '#' + hashlib.md5(s.encode()).hexdigest()[:8]
    return s


PANIC_ENTRY_PREFIXES = ('std::rt::panic', 'std::rt::begin_panic', 'core::panicking::', 'std::panicking::', 'std::process::abort', 'std::process::exit',
                        'std::intrinsics::abort', 'std::hint::unreachable_unchecked', 'std::hint::assert_unchecked')


PANICKY_CALLEES = ('std::option::Option::unwrap', 'std::option::Option::expect', 'std::ops::Index::index',
                   'std::ops::IndexMut::index_mut', 'std::vec::Vec::remove', 'std::vec::Vec::swap_remove',
                   'std::vec::Vec::insert', 'std::result::Result::unwrap', 'std::result::Result::expect',
                   'std::collections::VecDeque::swap', 'std::vec::Vec::split_off', 'std::vec::Vec::drain',
                   'slice::copy_from_slice', 'std::collections::VecDeque::insert', 'std::collections::VecDeque::range',
                   'std::collections::VecDeque::drain', 'slice::swap', 'slice::split_at', 'slice::chunks', 'slice::windows',
                   'num::Float::clamp')


def run_bounds(F, R, want_c15=True, want_c18=True):
    R.trust('rustc front end: typed HIR (SIR), MIR Assert terminators and calls (census of panic edges)')
    R.trust('sfa/vg.py value graph; sfa/solve.py entailment (rational Fourier–Motzkin over opaque usize atoms, propositional typestate)')
    R.trust('library facts: VecDeque/Vec len algebra (push +1, pop −1 if non-empty, set/swap preserve), get(i) is Some iff i < len, front/back/pop Some iff len > 0, NumCast::from(usize|float literal) into a float is Some, vec![x; n] has length n')
    R.assume('window-length parameters are >= 1 (the properties\' domain) and satisfy the constructor\'s asserts')
    R.assume('usize + 1 on a counter cannot overflow within 2^64 updates')
    R.assume('generic inner views follow the View contract; concrete inner views (WelfordOnline, SuperSmoother, Echo) are inlined')
    counters = {}
    nbuf = 0
    for v in F.views:
        B = Bounds(F, v)
        inv = B.houdini()
        R.samples.append({'rule': 'J', 'instance': v.name, 'detail': 'inferred class invariant: ' + '; '.join(tstr(c) for c in inv[:14]), 'ok': True})
        entry = B.pre + inv
        if want_c18:
            for b in B.buffers:
                nbuf += 1
                bounds = []
                for c in inv:
                    if c[0] == 'op' and c[1] in ('le', 'lt', 'eq') and c[2][0] == ('len', ('in', b)):
                        rhs = c[2][1]
                        atoms = {x for x in subterms(rhs) if x[0] in ('in', 'len')}
                        if all(a[0] == 'in' and a[1] in B.int_params for a in atoms):
                            bounds.append(c)
                R.ob('M1-bounded', '%s:%s' % (v.name, b), bool(bounds),
                     ('inductive bound ' + tstr(bounds[0])) if bounds else
                     'no inductive upper bound in terms of constructor parameters survives: the buffer can grow with the stream length',
                     v.file)
            for (path, where) in unmodelled_buffers(F, v):
                R.ob('M1-bounded', '%s:%s%s' % (v.name, path, where), False,
                     'growable buffer nested in %s%s: the analysis does not track its length, so no bound can be established' % (path, where), v.file)
            # constructs the value graph does not understand may hide growth: fail closed
            for vg, label in [(B.m.up_vg, 'update'), (B.m.last_vg, 'last')]:
                for what, where in vg.unknowns:
                    R.violation('M0-unknown', '%s:%s:%s' % (v.name, label, what), 'construct not understood by the value graph (%s): the buffer analysis is incomplete' % what, where)
                for ev in vg.events:
                    if ev.kind == 'while-once':
                        H = Hyps(entry + list(ev.pc) + loop_hyps(ev.pc, B.ctx(vg)), B.ctx(vg))
                        okw = entails_h(H, neg_cond(ev.data[0]))
                        R.ob('M0-while', '%s:%s:%s' % (v.name, label, _shape(ev.data[0])), okw,
                             'the `while` loop runs at most once per call (its condition is false after one iteration, by the class invariant)' if okw else
                             'a `while` loop could not be shown to stop after one iteration: its effect on the buffers is not modelled', loc(ev.node))
                    if ev.kind in ('grow', 'grow-unbounded'):
                        pl = ev.data[0]
                        root = pl
                        while root and root[0] in ('payload', 'elem', 'front', 'back'):
                            root = root[1]
                        tracked = root and ((root[0] == 'field' and root[1] in B.buffers and pl is root) or root[0] == 'local')
                        if not tracked:
                            R.ob('M1-bounded', '%s:%s:grow-on-untracked-place' % (v.name, label), False,
                                 'push/insert on %s, which is not a tracked buffer field nor a function-local: its growth is not bounded by any inferred invariant' % (pl,), loc(ev.node))
            # allocations: size must be bounded by parameters under the invariant
            for (vg, label) in ((B.m.up_vg, 'update'), (B.m.last_vg, 'last')):
                ctx = B.ctx(vg)
                for ev in vg.events:
                    if ev.kind == 'alloc':
                        size = ev.data[0]
                        ok = False
                        for p in B.int_params:
                            for extra in (0, 1, 2):
                                if entails(entry + list(ev.pc), op('le', size, op('iadd', ('in', p), lit(extra, 'i'))), ctx):
                                    ok = True
                        if size[0] == 'lit':
                            ok = True
                        R.ob('M2-alloc', '%s:%s:%s' % (v.name, label, _shape(size)), ok,
                             'per-call allocation of %s elements is bounded by a parameter' % tstr(size)[:60] if ok else
                             'allocation size %s has no parameter-only bound' % tstr(size)[:80], loc(ev.node))
                    if ev.kind == 'grow-unbounded':
                        R.violation('M1-bounded', '%s:%s:unbounded-growth-op' % (v.name, label), 'extend/append/resize on a buffer: no length bound can be established', loc(ev.node))
        if want_c15:
            n = 0
            n += B.discharge(B.m.up_vg, entry, R, 'update', counters)
            n += B.discharge(B.m.last_vg, entry, R, 'last', counters)
            for mm in B.m.ctor_models:
                pre_args = [op('ge', ('arg', a), lit(1, 'i')) for a in B.int_args]
                n += B.discharge(mm['vg'], pre_args, R, mm['fn'].name, counters, is_ctor=True)
            for h in v.helpers:
                if h.vis.startswith('Public') and h.trait is None:
                    vg = VG(F, v)
                    vg.run(h, '')
                    n += B.discharge(vg, entry, R, h.name, counters)
            # unknown constructs on any analysed path are failures (fail closed)
            for vg, label in [(B.m.up_vg, 'update'), (B.m.last_vg, 'last')] + [(mm['vg'], mm['fn'].name) for mm in B.m.ctor_models]:
                for what, where in vg.unknowns:
                    R.violation('P-unknown', '%s:%s:%s' % (v.name, label, what), 'construct not understood by the value graph: %s' % what, where)
    if want_c15:
        mir_crosscheck(F, R)
        R.extra['panic_obligations_by_kind'] = counters
    if want_c18:
        R.extra['buffers'] = nbuf
    return counters


def mir_crosscheck(F, R):
    """Every MIR panic edge in view code must correspond (by span) to an event the value graph judged."""
    # collect spans of all events of all analyses
    seen = {}
    view_files = {v.file for v in F.views}
    for v in F.views:
        m = model(F, v)
        vgs = [m.up_vg, m.last_vg] + [mm['vg'] for mm in m.ctor_models]
        for h in v.helpers:
            vg = VG(F, v)
            try:
                vg.run(h, '')
            except Exception:
                continue
            vgs.append(vg)
        for vg in vgs:
            for ev in vg.events:
                if ev.node is not None and ev.node.get('sp'):
                    sp = tuple(ev.node['sp'])
                    seen.setdefault(sp[:3], set()).add(ev.kind)
                    seen.setdefault(('line', sp[0], sp[1]), set()).add(ev.kind)
    n_assert = 0
    n_calls = 0
    n_panic = 0
    fnmeta = {f.defpath: f for f in F.fns}
    for mb in F.raw['mir']:
        d = mb['def']
        base = d.split('::{closure')[0]
        f = fnmeta.get(base)
        if f is None or f.derived:
            continue
        for a in mb['asserts']:
            n_assert += 1
            sp = tuple(a['sp'])
            kind = a['kind']
            want = {'Overflow(Sub)': 'int_sub', 'Overflow(Add)': 'int_add', 'Overflow(Mul)': 'int_mul', 'BoundsCheck': 'index',
                    'DivisionByZero': 'int_div', 'RemainderByZero': 'int_rem'}.get(kind)
            kinds = seen.get(sp[:3], set()) | seen.get(('line', sp[0], sp[1]), set())
            ok = want in kinds if want else False
            R.ob('X-mir-assert', '%s:%s' % (canon(d), kind), ok,
                 'MIR Assert(%s) maps to a judged %s obligation' % (kind, want) if ok else
                 'MIR Assert(%s) at %s:%d has no corresponding judged obligation (panic edge without verdict)' % (kind, sp[0], sp[1]),
                 '%s:%d' % (sp[0], sp[1]))
        for c in mb['calls']:
            name = canon(c['callee']['def'])
            if name.startswith(PANIC_ENTRY_PREFIXES):
                # every explicit panic entry point (panic!/unreachable!/assert!/debug_assert! expansions) must be an event
                # the value graph recorded, so that it has a verdict (explicit-panic / assert-int / Q4-assert / finite-assert)
                n_panic += 1
                sp = tuple(c['sp'])
                kinds = seen.get(sp[:3], set()) | seen.get(('line', sp[0], sp[1]), set())
                ok = bool(kinds & {'panic', 'assert', 'debug_assert'})
                R.ob('X-mir-panic', '%s:%s' % (canon(d), name.split('::')[-1]), ok,
                     'MIR call %s maps to a recorded panic/assert event' % name if ok else
                     'MIR call to %s at %s:%d is a panic edge the value graph did not record' % (name, sp[0], sp[1]), '%s:%d' % (sp[0], sp[1]))
                continue
            if name not in PANICKY_CALLEES:
                continue
            if any(m.startswith('macro:') and m.split(':')[-1] in ('debug_assert', 'assert', 'debug_assert_ne', 'assert_ne', 'panic') for m in c.get('mac', [])):
                continue
            n_calls += 1
            sp = tuple(c['sp'])
            kinds = seen.get(sp[:3], set()) | seen.get(('line', sp[0], sp[1]), set())
            want = 'unwrap' if name.endswith(('unwrap', 'expect')) else ('fclamp' if name.endswith('clamp') else 'index')
            ok = want in kinds or (want == 'index' and ('index' in kinds or 'slice' in kinds)) or (want == 'unwrap' and 'unwrap_cmp' in kinds)
            R.ob('X-mir-call', '%s:%s' % (canon(d), name.split('::')[-1]), ok,
                 'MIR call %s maps to a judged obligation' % name if ok else
                 'MIR call to %s at %s:%d has no corresponding judged obligation' % (name, sp[0], sp[1]), '%s:%d' % (sp[0], sp[1]))
    R.extra['mir_asserts'] = n_assert
    R.extra['mir_panicky_calls'] = n_calls
    R.extra['mir_panic_entry_calls'] = n_panic
