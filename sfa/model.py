"""Per-view analysis model: value graphs of constructors, update and last, and derived facts
(parameter fields, initial state, gated exits, last∘update composition)."""
from .vg import VG, exits_value, tstr, subterms, conj, phi, TRUE, NONE, lit
from .terms import subst_in, free_ins, cases


class ViewModel:
    def __init__(self, F, view):
        self.F = F
        self.v = view
        self.name = view.name
        self.ctor_models = []  # (fn, vg, exits, init_fields dict)
        for c in view.ctors:
            vg = VG(F, view)
            exits = vg.run(c, '')
            init = None
            pre = []
            if exits:
                ret = exits_value(exits, lambda ex: ex.ret)
                self._ctor_vg = vg
                init = self._struct_fields(ret)
                pre = list(exits[-1].pc)
            self.ctor_models.append({'fn': c, 'vg': vg, 'exits': exits, 'init': init, 'pre': pre})
        self.up_vg = VG(F, view)
        self.up_exits = self.up_vg.run(view.update, '') if view.update else []
        self.up_exits = split_on_delivery(self.up_exits)
        self.last_vg = VG(F, view)
        self.last_exits = self.last_vg.run(view.last, '') if view.last else []
        self.last_ret = exits_value(self.last_exits, lambda ex: ex.ret)
        self.field_names = [f.name for f in view.fields]
        # all field paths that update() touches (including inlined children)
        self.touched = set()
        for ex in self.up_exits:
            for k, t in ex.fields.items():
                if t != ('in', k):
                    self.touched.add(k)
        self.params = [f.name for f in view.fields if f.role == 'cell' and f.name not in self.touched]
        # exit value of each touched field as one phi chain
        self.up_fields = {k: exits_value(self.up_exits, lambda ex, k=k: ex.fields.get(k, ('in', k))) for k in self.touched}

    def _struct_fields(self, ret, prefix=''):
        """Flatten a ('struct', name, {f: term}) value (with nested concrete children) to field paths."""
        out = {}
        if not isinstance(ret, tuple) or ret[0] != 'struct':
            return None
        for k, t in ret[2].items():
            if isinstance(t, tuple) and t and t[0] == 'struct' and t[1] in {v.adt_path for v in self.F.views} | {'Self'} | set(self.F.adts):
                sub = self._struct_fields(t, prefix + k + '.')
                if sub:
                    out.update(sub)
                    continue
            if isinstance(t, tuple) and t and t[0] == 'tuple':
                # tuple-typed field: components are the places `f.0`, `f.1`, ..
                for i, x in enumerate(t[1]):
                    out['%s%s.%d' % (prefix, k, i)] = x
                continue
            vg_ = getattr(self, '_ctor_vg', None)
            if vg_ is not None and isinstance(t, tuple) and t and vg_.oos_names(prefix + k):
                # Option of a plain struct / option-like enum with several payload fields: one Option cell per payload field
                from .vg import opt_project
                for n_ in vg_.oos_names(prefix + k):
                    out['%s%s.%s' % (prefix, k, n_)] = opt_project(t, n_)
                continue
            if isinstance(t, tuple) and t and t[0] in ('seq_lit', 'seq_rep') and vg_ is not None and vg_.small_array_len(prefix + k) is not None:
                # small fixed-size array of registers: components are the cells `f.0`, `f.1`, ..
                for i in range(vg_.small_array_len(prefix + k)):
                    out['%s%s.%d' % (prefix, k, i)] = t[1] if t[0] == 'seq_rep' else t[1][i]
                continue
            out[prefix + k] = t
        return out

    # the main constructor: the one with the most parameters that others delegate to; all are analysed
    def inits(self):
        return [(m['fn'].name, m['init'], m['pre']) for m in self.ctor_models if m['init'] is not None]

    def output_cells(self):
        """State cells whose value last() hands out (directly, through Some(..)/payload, or as the back of a queue):
        found from last()'s return term, not from field names."""
        from .vg import subterms
        ins = []
        for x in subterms(self.last_ret):
            if x[0] == 'in' and x[1] in self.touched and x[1] not in ins:
                ins.append(x[1])
        direct = []
        lr = self.last_ret
        cands = [lr]
        if lr[0] == 'phi':
            cands += [lr[2], lr[3]]
        for c in cands:
            t = c[1] if c[0] == 'some' else c
            if t[0] == 'payload':
                t = t[1]
            if t[0] == 'in' and t[1] in self.touched and t[1] not in direct:
                direct.append(t[1])
        return direct or ins

    def gated_exits(self):
        """Exits of update() on which at least one state field is written or the end is reached with the gate passed."""
        return [ex for ex in self.up_exits if ex.kind == 'end' or any(t != ('in', k) for k, t in ex.fields.items())]

    def last_after_update(self):
        """last() evaluated in the state left by update(): one term (phi chain over update's exits)."""
        def per_exit(ex):
            fields = {k: t for k, t in ex.fields.items()}
            vg = VG(self.F, self.v)
            vg.child_epoch = dict(self.up_vg.child_epoch)
            exits = vg.run(self.v.last, '', None, fields)
            return exits_value(exits, lambda e: e.ret)
        return exits_value(self.up_exits, per_exit)


def split_on_delivery(exits):
    """Normal form: every exit of update() decides whether each inner view it asks has delivered. When the gate sits in an
    inlined helper (or in an Option combinator) the merged exit carries phi(is_some(child.last()), ..) terms instead; such an
    exit is split into the delivering and the non-delivering exit with the phis resolved."""
    from .terms import resolve_by
    from .vg import Exit, subterms, neg_cond
    out = []
    work = list(exits)
    guard = 0
    while work and guard < 64:
        guard += 1
        ex = work.pop(0)
        decided = set()
        for c in ex.pc:
            if isinstance(c, tuple):
                decided.add(c)
                decided.add(neg_cond(c))
        atom = None
        for t in list(ex.fields.values()) + [c for c in ex.pc if isinstance(c, tuple)] + ([ex.ret] if isinstance(ex.ret, tuple) else []):
            for x in subterms(t):
                if x[0] == 'phi':
                    for y in subterms(x[1]):
                        if y[0] == 'is_some' and y[1][0] == 'childlast' and y not in decided:
                            atom = y
                            break
                if atom is not None:
                    break
            if atom is not None:
                break
        if atom is None:
            out.append(ex)
            continue
        for truth in (False, True):
            lit_ = atom if truth else neg_cond(atom)
            fields = {k: resolve_by(t, atom, truth) for k, t in ex.fields.items()}
            pc = tuple(resolve_by(c, atom, truth) if isinstance(c, tuple) else c for c in ex.pc) + (lit_,)
            ret = resolve_by(ex.ret, atom, truth) if isinstance(ex.ret, tuple) else ex.ret
            work.append(Exit(pc, fields, ret, ex.node, ex.kind if truth else 'return'))
    return out + work


_cache = {}


def model(F, view):
    key = (id(F), view.name)
    if key not in _cache:
        _cache[key] = ViewModel(F, view)
    return _cache[key]
